"""Sidecar contracts for pendulum/time.py (C20)."""
import datetime as _dt

import pendulum
from pendulum.duration import AbsoluteDuration, Duration
from pendulum.time import Time

from pyvc import spec, stdlib, sym
from pyvc.contract import contract, transparent
from pyvc.engine import Obj
from pyvc.spec import DUS, M
from pyvc.sym import And, If, Implies, Not, Or, absv, eq, ge, gt, le, lt, ne

_TU = ("hours", "minutes", "seconds", "microseconds")
# EPOCH + delta must be a representable datetime: about 1969 years either way
LIMIT = 1968 * 365 * DUS


def tod(t):
    return spec.tod_us(t.hour, t.minute, t.second, t.microsecond)


def delta(hours, minutes, seconds, microseconds):
    return sym.add(sym.mul(sym.add(sym.add(sym.mul(hours, 3600), sym.mul(minutes, 60)), seconds), M), microseconds)


def fresh_ptime(F, hint="self", cls=Time):
    return stdlib.fresh_time(F, cls, hint)


def _time_args(F):
    o, c = fresh_ptime(F)
    a = dict(self=o)
    for n in _TU:
        a[n] = F.int(n)
    return a, [c]


class _shift:
    sign = 1

    @classmethod
    def _d(cls, a):
        return sym.mul(delta(a["hours"], a["minutes"], a["seconds"], a["microseconds"]), cls.sign)


def _shift_contract(qualname, sign):
    @contract(qualname, props=["C20"])
    class shift:
        args = _time_args

        def requires(self, **a):
            return [("amount_within_datetime_range", le(absv(delta(**a)), LIMIT))]

        def result(F, self, **a):
            o, _ = stdlib.fresh_time(F, Time, "shifted")
            return o

        def ensures(result, self, **a):
            d = sym.mul(delta(**a), sign)
            return [("valid_time", spec.valid_time(result.hour, result.minute, result.second, result.microsecond)),
                    ("returns_a_Time", result.cls is Time and result.tzinfo is None),
                    ("wraps_modulo_24h_exactly", eq(tod(result), sym.fmod(sym.add(tod(self), d), DUS)))]

    return shift


_shift_contract("pendulum.time.Time.add", 1)
_shift_contract("pendulum.time.Time.subtract", -1)


def _td_args(pname):
    def args(F):
        o, c = fresh_ptime(F)
        td, tc = stdlib.fresh_td(F, _dt.timedelta, pname)
        return {"self": o, pname: td}, [c, tc]

    return args


def _td_contract(qualname, pname, sign):
    @contract(qualname, props=["C20"])
    class with_timedelta:
        args = _td_args(pname)

        def applies(**a):
            x = a[pname]
            return isinstance(x, Obj) and issubclass(x.cls, _dt.timedelta) and "_years" not in x.f

        # a timedelta with a day component is rejected
        raises = [(TypeError, "has_days", lambda **a: ne(sym.fdiv(a[pname].us, DUS), 0))]

        def result(F, **a):
            o, _ = stdlib.fresh_time(F, Time, "shifted")
            return o

        def ensures(result, **a):
            self, d = a["self"], sym.mul(a[pname].us, sign)
            return [("valid_time", spec.valid_time(result.hour, result.minute, result.second, result.microsecond)),
                    ("returns_a_Time", result.cls is Time),
                    ("wraps_modulo_24h_exactly", eq(tod(result), sym.fmod(sym.add(tod(self), d), DUS)))]

    return with_timedelta


_td_contract("pendulum.time.Time.add_timedelta", "delta", 1)
_td_contract("pendulum.time.Time.subtract_timedelta", "delta", -1)
_td_contract("pendulum.time.Time.__add__", "other", 1)


def _two_times(F):
    o, c = fresh_ptime(F)
    p, c2 = stdlib.fresh_time(F, Time, "dt")
    return o, p, [c, c2]


@contract("pendulum.time.Time.diff", props=["C20"])
class time_diff:
    def applies(self, dt, abs=True):
        return isinstance(dt, Obj) and issubclass(dt.cls, _dt.time) and isinstance(abs, bool)

    class _base:
        def result(F, self, dt, abs):
            from contracts.duration import abs_fields, mk_duration

            d = sym.sub(tod(dt), tod(self))
            if abs:
                o, _, _ = abs_fields(F, AbsoluteDuration, d, 0, 0, hint="diff")
            else:
                o, _ = mk_duration(F, Duration, d, 0, 0, hint="diff")
            return o

        def ensures(result, self, dt, abs):
            d = sym.sub(tod(dt), tod(self))
            if abs:
                return [("class", result.cls is AbsoluteDuration), ("magnitude_to_the_microsecond", eq(sym.mul(absv(result._total), M), sym.toreal(absv(d))))]
            return [("class", result.cls is Duration), ("signed_difference_to_the_microsecond", eq(result.us, d))]

    class absolute(_base):
        applies = staticmethod(lambda self, dt, abs=True: abs is True and isinstance(dt, Obj))

        def args(F):
            o, p, cs = _two_times(F)
            return dict(self=o, dt=p, abs=True), cs

    class signed(_base):
        applies = staticmethod(lambda self, dt, abs=True: abs is False and isinstance(dt, Obj))

        def args(F):
            o, p, cs = _two_times(F)
            return dict(self=o, dt=p, abs=False), cs

    cases = {"absolute": absolute, "signed": signed}


@contract("pendulum.time.Time.__sub__", props=["C20"])
class time_sub:
    class minus_time:
        applies = staticmethod(lambda self, other: isinstance(other, Obj) and issubclass(other.cls, _dt.time))

        def args(F):
            o, p, cs = _two_times(F)
            return dict(self=o, other=Obj(p.cls, **p.f)), cs

        def requires(self, other):
            return [("naive_operand", other.tzinfo is None)]

        def result(F, self, other):
            from contracts.duration import mk_duration

            o, _ = mk_duration(F, Duration, sym.sub(tod(self), tod(other)), 0, 0, hint="tsub")
            return o

        def ensures(result, self, other):
            return [("class", result.cls is Duration), ("signed_difference_to_the_microsecond", eq(result.us, sym.sub(tod(self), tod(other))))]

    class minus_timedelta:
        args = _td_args("other")
        applies = staticmethod(lambda self, other: isinstance(other, Obj) and issubclass(other.cls, _dt.timedelta))
        raises = [(TypeError, "has_days", lambda self, other: ne(sym.fdiv(other.us, DUS), 0))]

        def result(F, self, other):
            o, _ = stdlib.fresh_time(F, Time, "shifted")
            return o

        def ensures(result, self, other):
            return [("valid_time", spec.valid_time(result.hour, result.minute, result.second, result.microsecond)),
                    ("returns_a_Time", result.cls is Time),
                    ("wraps_modulo_24h_exactly", eq(tod(result), sym.fmod(sym.sub(tod(self), other.us), DUS)))]

    cases = {"time": minus_time, "timedelta": minus_timedelta}


def _closest_contract(qualname, pick_closest):
    @contract(qualname, props=["C20"])
    class pick:
        def args(F):
            o, c = fresh_ptime(F)
            a, ca = stdlib.fresh_time(F, Time, "dt1")
            b, cb = stdlib.fresh_time(F, Time, "dt2")
            return dict(self=o, dt1=a, dt2=b), [c, ca, cb]

        def result(F, self, dt1, dt2):
            o, _ = stdlib.fresh_time(F, self.cls, "picked")
            return o

        def ensures(result, self, dt1, dt2):
            d1, d2 = absv(sym.sub(tod(dt1), tod(self))), absv(sym.sub(tod(dt2), tod(self)))
            best = sym.minv(d1, d2) if pick_closest else sym.maxv(d1, d2)
            # (the statement does not say which of two equally distant candidates wins)
            return [("is_one_of_the_candidates", Or(eq(tod(result), tod(dt1)), eq(tod(result), tod(dt2)))),
                    ("chosen_by_distance_to_the_microsecond", eq(absv(sym.sub(tod(result), tod(self))), best))]

    return pick


_closest_contract("pendulum.time.Time.closest", True)
_closest_contract("pendulum.time.Time.farthest", False)


@contract("pendulum.time.Time.__rsub__", props=["C20"])
class time_rsub:
    """native_time - Time (reflected): the signed difference to the microsecond, like Time - Time"""

    def applies(self, other):
        return isinstance(other, Obj) and issubclass(other.cls, _dt.time)

    def args(F):
        o, c = fresh_ptime(F)
        p, c2 = stdlib.fresh_time(F, _dt.time, "other")
        return dict(self=o, other=p), [c, c2]

    def requires(self, other):
        return [("naive_operand", other.tzinfo is None)]

    def result(F, self, other):
        from contracts.duration import mk_duration

        o, _ = mk_duration(F, Duration, sym.sub(tod(other), tod(self)), 0, 0, hint="trsub")
        return o

    def ensures(result, self, other):
        return [("class", result.cls is Duration), ("signed_difference_to_the_microsecond", eq(result.us, sym.sub(tod(other), tod(self))))]



# ---- replace (C11: behaves like the native time.replace on the same fields) ----------------------------------
def _replace_case(mask):
    names = ("hour", "minute", "second", "microsecond")
    given = [n for i, n in enumerate(names) if mask >> i & 1]

    class case:
        def applies(self, **a):
            return False

        def args(F):
            o, c = fresh_ptime(F)
            a = dict(self=o)
            cons = [c]
            for n in given:
                a[n] = F.int(f"new_{n}")
            return a, cons

        raises = [(ValueError, "field_out_of_range", lambda self, **a: Not(spec.valid_time(
            a.get("hour", self.hour), a.get("minute", self.minute), a.get("second", self.second), a.get("microsecond", self.microsecond))))]

        def result(F, **a):
            raise NotImplementedError

        def ensures(result, self, **a):
            return [("class_kept", isinstance(result, Obj) and result.cls is self.cls),
                    ("given_fields_replaced_others_kept", And(*[eq(result.f[n], a[n] if n in a else self.f[n]) for n in names])),
                    ("tzinfo_kept", result.tzinfo is self.tzinfo)]

    case.__name__ = "+".join(given) or "nothing"
    return case


@contract("pendulum.time.Time.replace", props=["C11"])
class time_replace:
    cases = {c.__name__: c for c in (_replace_case(m) for m in range(16))}
