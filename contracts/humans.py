"""Sidecar contracts for pendulum/formatting/difference_formatter.py and the locale look-ups (C18)."""
import pendulum
from pendulum.formatting.difference_formatter import DifferenceFormatter
from pendulum.helpers import difference_formatter as _THE_FORMATTER
from pendulum.interval import Interval
from pendulum.locales.locale import Locale

from pyvc import stdlib, sym
from pyvc.contract import contract, native, transparent
from pyvc.engine import Obj
from pyvc.spec import D, M
from pyvc.stdlib import Formatted, KeyedStr
from pyvc.sym import And, If, Implies, Not, Or, eq, ge, gt, le, lt, ne


def _keyed(result, args, kw):
    if isinstance(result, str):
        r = KeyedStr(result)
        r.key = args[1]
        return r
    return result


native("pendulum.locales.locale.Locale.get", _keyed)
native("pendulum.locales.locale.Locale.load")
native("pendulum.locales.locale.Locale.normalize_locale")
transparent("pendulum.locales.locale.Locale.plural", "pendulum.locales.locale.Locale.ordinal", "pendulum.locales.locale.Locale.translation",
            why="one-line look-up in the locale data; the plural/ordinal rule itself (a lambda in the locale's data file) is executed from its source")

LOCALES = sorted(p.name for p in __import__("pathlib").Path(pendulum.__file__).parent.joinpath("locales").iterdir()
                 if p.is_dir() and (p / "locale.py").exists())
UNIT_FIELDS = ("years", "months", "days", "hours", "minutes", "seconds")


def fresh_diff(F):
    """the Interval diff() hands to the formatter: non-negative canonical components (absolute interval)"""
    from contracts.helpers import fresh_pd

    pd = fresh_pd(F, "d")
    sec = F.int("d_total_seconds_of_day")
    iv = Obj(Interval, _delta=pd, _seconds=sec, _days=F.int("d_total_days"), _invert=F.bool("d_invert"), _absolute=True, _microseconds=F.int("d_us"), us=F.int("d_native_us"))
    inv = And(ge(pd.years, 0), sym.between(0, pd.months, 11), sym.between(0, pd.days, 30), sym.between(0, pd.hours, 23), sym.between(0, pd.minutes, 59),
              sym.between(0, sec, D - 1), ge(iv._days, 0), sym.between(0, iv._microseconds, M - 1))
    return iv, inv


def unit_and_count(diff):
    """(unit index 0=year..5=second, component) of the largest non-zero unit, from the statement"""
    pd = diff._delta
    weeks = sym.fdiv(pd.days, 7)
    rdays = sym.fmod(pd.days, 7)
    rsec = sym.fmod(diff._seconds, 60)
    comps = [("year", pd.years), ("month", pd.months), ("week", weeks), ("day", rdays), ("hour", pd.hours), ("minute", pd.minutes), ("second", rsec)]
    return comps


def _marker(key):
    for m in ("from_now", "ago", "after", "before", ".future", ".past"):
        if key is not None and key.endswith(m) or (key is not None and f"{m}." in key):
            return m
    return None


def _format_case(loc):
    locale_obj = Locale.load(loc)

    class case:
        def applies(self, diff, is_now=True, absolute=False, locale=None):
            return False  # verified per locale; user code consumes the string

        def args(F):
            d, inv = fresh_diff(F)
            return dict(self=_THE_FORMATTER, diff=d, is_now=F.bool("is_now"), absolute=F.bool("absolute"), locale=locale_obj), [inv]

        def result(F, **k):
            raise NotImplementedError

        def ensures(result, self, diff, is_now, absolute, locale):
            out = []
            if isinstance(result, Formatted):
                tmpl, fargs = result.template, result.args
            else:
                tmpl, fargs = result, ()
            out.append(("returns_a_non_empty_string", isinstance(tmpl, str) and len(tmpl) > 0))
            # direction marker <-> (invert, is_now, absolute)
            key = getattr(tmpl, "key", None)
            mk = _marker(key)
            fut = diff._invert
            if mk in ("from_now", ".future"):
                out.append(("future_marker_relative_to_now", And(Not(absolute), is_now, fut)))
            elif mk in ("ago", ".past"):
                out.append(("past_marker_relative_to_now", And(Not(absolute), is_now, Not(fut))))
            elif mk == "after":
                out.append(("after_marker_relative_to_other", And(Not(absolute), Not(is_now), fut)))
            elif mk == "before":
                out.append(("before_marker_relative_to_other", And(Not(absolute), Not(is_now), Not(fut))))
            else:
                out.append(("no_marker_only_when_absolute", absolute))
            # the count AND the unit shown are the documented rounding of the largest non-zero unit: that unit's component or one
            # more (never more than one unit away from the true elapsed time), at least 1.  Relative to another value the phrase
            # is custom.before/after applied to an inner "<count> <unit>" phrase: the clause is stated on that inner phrase.
            import re as _re

            inner_t, inner_a = tmpl, fargs
            if fargs and isinstance(fargs[0], Formatted):
                inner_t, inner_a = fargs[0].template, fargs[0].args
            ukey = getattr(inner_t, "key", None)
            m_ = _re.search(r"(?:^|\.)(year|month|week|day|hour|minute|second)(?:\.|$)", ukey) if isinstance(ukey, str) else None
            unit = m_.group(1) if m_ else None
            if inner_a and sym.is_intlike(inner_a[0]):
                cnt = inner_a[0]
                comps = unit_and_count(diff)
                ok = []
                for i, (name, c) in enumerate(comps):
                    if unit is not None and name != unit:
                        continue
                    earlier_zero = And(*[eq(cc, 0) for _, cc in comps[:i]]) if i else True
                    ok.append(And(earlier_zero, gt(c, 0), Or(eq(cnt, c), eq(cnt, sym.add(c, 1)))))
                # (eleven months and more than 15 days is shown as "1 year")
                if unit in (None, "year"):
                    ok.append(And(eq(comps[0][1], 0), eq(comps[1][1], 11), eq(cnt, 1)))
                if unit in (None, "second"):
                    ok.append(And(*[eq(c, 0) for _, c in comps[:-1]], Or(eq(cnt, comps[-1][1]), eq(cnt, 1))))
                label = "count_and_unit_are_the_documented_rounding_of_the_largest_unit" if unit is not None else "count_is_the_documented_rounding_of_the_largest_unit"
                out.append((label, And(ge(cnt, 1), Or(*ok)) if ok else False))
            return out

    return case


@contract("pendulum.formatting.difference_formatter.DifferenceFormatter.format", props=["C18"])
class df_format:
    cases = {loc: _format_case(loc) for loc in LOCALES}
