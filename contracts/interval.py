"""Sidecar contracts for pendulum/interval.py (C05 length, C06 components, C19 range)."""
import datetime as _dt

import pendulum
from pendulum.datetime import DateTime
from pendulum.duration import Duration
from pendulum.interval import Interval
from pendulum.tz.timezone import FixedTimezone, Timezone

from contracts import duration as _dur
from contracts.dt import fresh_pdt, is_ptz, zone_cases2
from contracts.helpers import has_time, obj_wall
from contracts.tz import fresh_fixed
from pyvc import spec, stdlib, sym, zones
from pyvc.contract import REGISTRY, Loop, contract, transparent
from pyvc.engine import Obj
from pyvc.spec import DUS, M
from pyvc.sym import And, If, Implies, Not, Or, absv, eq, ge, gt, le, lt, ne

transparent("pendulum.interval.Interval.start", "pendulum.interval.Interval.end", "pendulum.interval",
            why="one-line accessor / delegation")


def pos(x):
    """position on the time line: UTC instant of an aware datetime, wall clock of a naive one, midnight of a date"""
    if has_time(x) and x.tzinfo is not None:
        return zones.instant(x)
    return obj_wall(x)


def py_gt(a, b):
    """Python's a > b for two datetimes/dates of the same kind (CPython: same tzinfo object -> wall clocks)"""
    if has_time(a) and a.tzinfo is not None and a.tzinfo.oid != b.tzinfo.oid:
        return gt(zones.instant(a), zones.instant(b))
    return gt(obj_wall(a), obj_wall(b))


def endpoint_kinds():
    """(start, end) configurations: naive pair, date pair, same zone object, fixed offset, two different zones"""

    def naive(F):
        a, ia = fresh_pdt(F, None, "start")
        b, ib = fresh_pdt(F, None, "end")
        return a, b, [ia, ib]

    def dates(F):
        a, ca = stdlib.fresh_date(F, pendulum.Date, "start")
        b, cb = stdlib.fresh_date(F, pendulum.Date, "end")
        return a, b, [ca, cb]

    def same_zone(F):
        tz, zc = stdlib.fresh_zone(F, Timezone, "tz", k=2)
        a, ia = fresh_pdt(F, tz, "start")
        b, ib = fresh_pdt(F, tz, "end")
        return a, b, [zc, ia, ib]

    def same_fixed(F):
        tz, zc = fresh_fixed(F, "tz")
        a, ia = fresh_pdt(F, tz, "start")
        b, ib = fresh_pdt(F, tz, "end")
        return a, b, [zc, ia, ib]

    def two_zones(F):
        z1, c1 = stdlib.fresh_zone(F, Timezone, "z1", k=1)
        z2, c2 = stdlib.fresh_zone(F, Timezone, "z2", k=1)
        a, ia = fresh_pdt(F, z1, "start")
        b, ib = fresh_pdt(F, z2, "end")
        return a, b, [c1, c2, ia, ib, ne(z1.key.tok, z2.key.tok)]

    return {"naive": naive, "dates": dates, "same_zone": same_zone, "same_fixed_offset": same_fixed, "two_zones": two_zones}


def kind_of(start, end):
    if not has_time(start):
        return "dates"
    if start.tzinfo is None:
        return "naive"
    if start.tzinfo.oid == end.tzinfo.oid:
        return "same_fixed_offset" if zones.is_fixed(start.tzinfo) else "same_zone"
    return "two_zones"


def _both_pendulum(start, end):
    ok = lambda x: isinstance(x, Obj) and issubclass(x.cls, pendulum.Date)
    return ok(start) and ok(end) and has_time(start) == has_time(end) and (not has_time(start) or (start.tzinfo is None) == (end.tzinfo is None))


class _new_base:
    """C05: the native length of an Interval is the exact elapsed time between its endpoints"""

    def requires(cls, start, end, absolute):
        r = [("pendulum_endpoints_of_one_kind", _both_pendulum(start, end))]
        if has_time(start) and start.tzinfo is not None:
            r.append(("instants_representable", And(stdlib.in_dt_range(zones.instant(start)), stdlib.in_dt_range(zones.instant(end)))))
        return r

    @staticmethod
    def length(start, end, absolute):
        d = sym.sub(pos(end), pos(start))
        return If(absolute, absv(d), d) if not isinstance(absolute, bool) else (absv(d) if absolute else d)

    def result(F, cls, start, end, absolute):
        o, _ = _dur.mk_duration(F, cls, _new_base.length(start, end, absolute), 0, 0,
                                signature=dict(years=0, months=0, weeks=0, days=0, hours=0, minutes=0, microseconds=0,
                                               seconds=sym.truediv(_new_base.length(start, end, absolute), M)), hint="iv")
        return o

    def ensures(result, cls, start, end, absolute):
        return [("class", result.cls is cls),
                ("length_is_exact_elapsed_time", eq(result.us, _new_base.length(start, end, absolute))),
                ("no_years_months", And(eq(result._years, 0), eq(result._months, 0)))] + \
               [(f"decomposition.{l}", c) for l, c in _dur.dur_rel(result)]


def _new_cases():
    cases = {}
    for kname, mk in endpoint_kinds().items():
        class case(_new_base):
            def applies(cls, start, end, absolute=False, _k=kname):
                return _both_pendulum(start, end) and kind_of(start, end) == _k

            def args(F, _mk=mk):
                a, b, cs = _mk(F)
                return dict(cls=Interval, start=a, end=b, absolute=F.bool("absolute")), cs

        cases[kname] = case
    return cases


@contract("pendulum.interval.Interval.__new__", props=["C05", "C06", "C19"])
class interval_new:
    cases = _new_cases()


def kf_overlap_order(start, end, absolute, **_):
    """region of known finding C05-overlap-order: both endpoints carry the same tzinfo object and their wall-clock
    order differs from the order of their instants (only possible inside a repeated interval of the zone)"""
    if not (has_time(start) and start.tzinfo is not None and start.tzinfo.oid == end.tzinfo.oid):
        return False
    return ne(sym.b2i(gt(obj_wall(start), obj_wall(end))), sym.b2i(gt(pos(start), pos(end))))


# ------------------------------------------------------------------------------------------ __init__
from contracts.helpers import fresh_pd, precise_diff as _pdc


def _native_of(x):
    """the native value Interval.__init__ hands to precise_diff: same fields and tzinfo, fold dropped"""
    if has_time(x):
        return Obj(_dt.datetime, year=x.year, month=x.month, day=x.day, hour=x.hour, minute=x.minute, second=x.second,
                   microsecond=x.microsecond, tzinfo=x.tzinfo, fold=0)
    return Obj(_dt.date, year=x.year, month=x.month, day=x.day)


def _pd_case_for(a, b):
    entry = REGISTRY["pendulum._helpers.precise_diff"]
    return entry.select(dict(d1=a, d2=b))


def _same_fields(x, y):
    names = ("year", "month", "day") + (("hour", "minute", "second", "microsecond", "fold") if has_time(x) else ())
    return And(*[eq(x.f[n], y.f[n]) for n in names])


class _init_base:
    options = {"returns_self": True}

    def requires(self, start, end, absolute):
        r = [("pendulum_endpoints_of_one_kind", _both_pendulum(start, end))]
        case = _pd_case_for(_native_of(start), _native_of(end))
        if case is not None:
            # whatever precise_diff needs of the two (rebuilt) native values
            r += [(f"precise_diff.{l}", c) for l, c in case.requires(dict(d1=_native_of(start), d2=_native_of(end)))]
            r += [(f"precise_diff_swapped.{l}", c) for l, c in case.requires(dict(d1=_native_of(end), d2=_native_of(start)))]
        return r

    def result(F, self, start, end, absolute):
        inv = py_gt(start, end)
        if absolute is False:
            s2, e2 = start, end
        else:
            if has_time(start) and start.tzinfo is not None and start.tzinfo.oid != end.tzinfo.oid:
                raise NotImplementedError("absolute interval between different zone objects: endpoints cannot be merged")
            tz = start.tzinfo if has_time(start) else None
            if has_time(start):
                s2, _ = stdlib.fresh_datetime(F, start.cls, "ivstart", tzinfo=tz)
                e2, _ = stdlib.fresh_datetime(F, end.cls, "ivend", tzinfo=tz)
            else:
                s2, _ = stdlib.fresh_date(F, start.cls, "ivstart")
                e2, _ = stdlib.fresh_date(F, end.cls, "ivend")
        return self.with_fields(_invert=inv, _absolute=absolute, _start=s2, _end=e2, _delta=fresh_pd(F, "ivpd"))

    def ensures(result, self, start, end, absolute):
        inv = py_gt(start, end)
        swap = And(absolute, inv)
        out = [("invert_flag", sym.Iff(result._invert, inv)), ("absolute_flag", sym.Iff(result._absolute, absolute)),
               ("start_kept_or_swapped", If(swap, _same_fields(result._start, end), _same_fields(result._start, start))),
               ("end_kept_or_swapped", If(swap, _same_fields(result._end, start), _same_fields(result._end, end)))]
        # the components are those of precise_diff on the (possibly swapped) rebuilt native endpoints
        a, b = _native_of(start), _native_of(end)
        case = _pd_case_for(a, b)
        if case is not None:
            fwd = case.ensures(result._delta, dict(d1=a, d2=b))
            bwd = case.ensures(result._delta, dict(d1=b, d2=a))
            for (label, c1), (_, c2) in zip(fwd, bwd):
                out.append((f"components.{label}", If(swap, c2, c1)))
        return out

    def assume(F, result, self, start, end, absolute):
        out = _init_base.ensures(result, self, start, end, absolute)
        a, b = _native_of(start), _native_of(end)
        case = _pd_case_for(a, b)
        if case is not None and case._get("assume") is not None:
            raise NotImplementedError("ghost-based precise_diff case inside Interval.__init__")
        return out


def fresh_interval_shell(F, start, end, absolute):
    """the object Interval.__new__ returns for these endpoints (before __init__)"""
    o, rel = _dur.mk_duration(F, Interval, _new_base.length(start, end, absolute), 0, 0, hint="self")
    return o, rel


def _init_cases():
    cases = {}
    for kname, mk in endpoint_kinds().items():
        if kname == "two_zones":
            continue

        class case(_init_base):
            def applies(self, start, end, absolute=False, _k=kname):
                return _both_pendulum(start, end) and kind_of(start, end) == _k

            def args(F, _mk=mk):
                a, b, cs = _mk(F)
                ab = F.bool("absolute")
                shell, rel = fresh_interval_shell(F, a, b, ab)
                return dict(self=shell, start=a, end=b, absolute=ab), cs + [rel]

        cases[kname] = case
    return cases


@contract("pendulum.interval.Interval.__init__", props=["C05", "C06", "C19"])
class interval_init:
    cases = _init_cases()

transparent("pendulum.interval.Interval.years", "pendulum.interval.Interval.months", "pendulum.interval.Interval.weeks",
            "pendulum.interval.Interval.days", "pendulum.interval.Interval.remaining_days", "pendulum.interval.Interval.hours",
            "pendulum.interval.Interval.minutes", "pendulum.interval.Interval.in_years", "pendulum.interval.Interval.in_months",
            "pendulum.interval.Interval.in_weeks", "pendulum.interval.Interval.in_days", "pendulum.interval.Interval.__abs__",
            "pendulum.interval.Interval.__neg__", "pendulum.interval.Interval.as_duration",
            "pendulum.datetime.DateTime.diff", "pendulum.date.Date.diff",
            why="one-line accessor / delegation over the contracted constructor")


# ---- subtraction of two datetimes / dates: an Interval from the right operand to the left one ----------------
def _minus_cases(owner_cls):
    from pyvc.contract import Case

    out = []
    for kname, mk in endpoint_kinds().items():
        if kname == "two_zones" or (kname == "dates") != (owner_cls is pendulum.Date):
            continue

        class case:
            def applies(self, other, _k=kname):
                return (isinstance(other, Obj) and issubclass(other.cls, pendulum.Date) and not issubclass(other.cls, _dt.timedelta)
                        and has_time(other) == has_time(self) and _both_pendulum(other, self) and kind_of(other, self) == _k)

            def args(F, _mk=mk):
                a, b, cs = _mk(F)
                return dict(self=b, other=a), cs

            def requires(self, other):
                shell = Obj(Interval)
                return _new_base.requires(Interval, other, self, False) + _init_base.requires(shell, other, self, False)

            def result(F, self, other):
                shell = _new_base.result(F, Interval, other, self, False)
                return _init_base.result(F, shell, other, self, False)

            def ensures(result, self, other):
                return ([("returns_an_Interval", result.cls is Interval), ("from_other_to_self", And(_same_fields(result._start, other), _same_fields(result._end, self)))]
                        + _new_base.ensures(result, Interval, other, self, False)[1:] + _init_base.ensures(result, result, other, self, False))

        out.append((f"minus_{kname}", case))
    return out


for _qn, _cls in (("pendulum.datetime.DateTime.__sub__", DateTime), ("pendulum.date.Date.__sub__", pendulum.Date)):
    from pyvc.contract import Case as _Case

    for _name, _ns in _minus_cases(_cls):
        REGISTRY[_qn].cases.append(_Case(_qn, _name, _ns, None))


# ========================================================================================== range (C19)
from contracts.date import date_add_spec
from contracts.dt import add_spec

LINEAR_UNITS = {"weeks": 7 * DUS, "days": DUS, "hours": 3600 * M, "minutes": 60 * M, "seconds": M, "microseconds": 1}


def fresh_interval(F, mk, absolute=None):
    """an Interval as its constructor builds it for endpoints of kind `mk` (the fields range() reads: the
    endpoints - swapped when absolute and inverted -, the two flags and the length; not the components)"""
    a, b, cs = mk(F)
    ab = F.bool("iv_absolute") if absolute is None else absolute
    shell, rel = fresh_interval_shell(F, a, b, ab)
    inv = py_gt(a, b)
    swap = And(ab, inv)
    if has_time(a):
        s2, v1 = stdlib.fresh_datetime(F, a.cls, "ivstart", tzinfo=a.tzinfo)
        e2, v2 = stdlib.fresh_datetime(F, b.cls, "ivend", tzinfo=a.tzinfo)
    else:
        s2, v1 = stdlib.fresh_date(F, a.cls, "ivstart")
        e2, v2 = stdlib.fresh_date(F, b.cls, "ivend")
    iv = shell.with_fields(_invert=inv, _absolute=ab, _start=s2, _end=e2)
    pre = [v1, v2, If(swap, _same_fields(s2, b), _same_fields(s2, a)), If(swap, _same_fields(e2, a), _same_fields(e2, b))]
    return iv, cs + [rel] + pre


def _forward(self):
    return Or(self._absolute, Not(self._invert))


def _step(self, unit, k_amount, forward):
    """position of start.add/subtract(unit = k_amount) for a linear unit on a transition-free clock"""
    d = sym.mul(k_amount, LINEAR_UNITS[unit])
    return If(forward, sym.add(pos(self._start), d), sym.sub(pos(self._start), d))


def _range_case(kname, mk, unit):
    is_date = kname == "dates"

    def inv(e, en, a):
        self = a.self
        fwd = _forward(self)
        k = e["__count__"]
        return [("step_counter", eq(e.i, sym.mul(a.amount, sym.add(k, 1)))),
                ("current_value_is_start_shifted_k_times", eq(pos(e.start), _step(self, unit, sym.mul(k, a.amount), fwd))),
                ("current_value_valid", stdlib.valid_dt(e.start) if has_time(e.start) else spec.valid_date(e.start.year, e.start.month, e.start.day)),
                ("class_and_zone", e.start.cls is self._start.cls and (not has_time(e.start) or zones.same_zone(e.start.tzinfo, self._start.tzinfo))),
                ("end_unchanged", eq(pos(e.end), pos(self._end))), ("method", e.method == ("add" if fwd is True else e.method))]

    class case:
        def applies(self, unit, amount=1):
            return False  # generators are consumed by user code: this contract is verified, not used at call sites

        def args(F):
            iv, cs = fresh_interval(F, mk)
            return dict(self=iv, unit=unit, amount=F.int("amount")), cs

        def requires(self, unit, amount):
            span = sym.add(absv(sym.sub(pos(self._end), pos(self._start))), sym.mul(amount, LINEAR_UNITS[unit]))
            r = [("positive_step", ge(amount, 1)),
                 ("one_step_beyond_the_end_is_representable", And(stdlib.td_in_range(sym.mul(span, 2)),
                                                                   _room(self, span)))]
            if is_date and unit not in ("weeks", "days"):
                r.append(("date_units", False))
            return r

        def yields(value, k, e, a):
            self = a.self
            fwd = _forward(self)
            lo, hi = sym.minv(pos(self._start), pos(self._end)), sym.maxv(pos(self._start), pos(self._end))
            return [("k_th_value_is_start_shifted_by_k_steps_computed_from_the_start", eq(pos(value), _step(self, unit, sym.mul(k, a.amount), fwd))),
                    ("contained_in_the_interval", And(ge(pos(value), lo), le(pos(value), hi)))]

        def result(F, **k):
            raise NotImplementedError

        def ensures(result, self, unit, amount):
            return []

        # termination: the remaining distance in the direction of travel shrinks by amount*unit per iteration
        loops = {0: Loop(inv, variant=lambda e, en, a: If(_forward(a.self), sym.sub(pos(a.self._end), pos(e.start)), sym.sub(pos(e.start), pos(a.self._end))))}

    return case


def _room(self, span):
    s = pos(self._start)
    span = sym.add(span, 2 * DUS)  # (a fixed offset moves the instant by up to a day)
    if has_time(self._start):
        return And(stdlib.in_dt_range(sym.sub(s, sym.mul(span, 2))), stdlib.in_dt_range(sym.add(s, sym.mul(span, 2))))
    return And(ge(sym.fdiv(sym.sub(s, sym.mul(span, 2)), DUS), 1), le(sym.fdiv(sym.add(s, sym.mul(span, 2)), DUS), spec.MAXORD))


def _range_cases():
    kinds = endpoint_kinds()
    out = {}
    for kname, unit in (("dates", "days"), ("dates", "weeks"), ("naive", "hours"), ("same_fixed_offset", "days"), ("same_fixed_offset", "seconds")):
        out[f"{kname}.{unit}"] = _range_case(kname, kinds[kname], unit)
    return out


@contract("pendulum.interval.Interval.range", props=["C19"])
class interval_range:
    cases = _range_cases()


# ------------------------------------------------------------------------------- membership (C19)
def _contains_cases():
    """`x in interval` <=> start <= x <= end, for an item of the endpoints' own kind (Date / naive / one fixed offset / one zone
    object: CPython compares two datetimes of one tzinfo object on their wall clocks, which on a transition-free clock is the
    order of instants; for one *named* zone object inside a repeated hour that is known finding C11-same-tz-order, so the
    same-zone case is not claimed here)"""
    out = {}
    for kname, mk in endpoint_kinds().items():
        if kname in ("two_zones", "same_zone"):
            continue

        class case:
            def applies(self, item):
                return False  # verified, not used at call sites

            def args(F, _mk=mk, _k=kname):
                iv, cs = fresh_interval(F, _mk)
                s = iv._start
                if has_time(s):
                    item, v = fresh_pdt(F, s.tzinfo, "item")
                else:
                    item, v = stdlib.fresh_date(F, s.cls, "item")
                return dict(self=iv, item=item), cs + [v]

            def result(F, self, item):
                raise NotImplementedError

            def ensures(result, self, item):
                inside = And(le(pos(self._start), pos(item)), le(pos(item), pos(self._end)))
                return [("returns_a_bool", sym.is_boollike(result) if hasattr(sym, "is_boollike") else True),
                        ("contained_iff_between_start_and_end_inclusive", eq(result, inside))]

        out[kname] = case
    return out


@contract("pendulum.interval.Interval.__contains__", props=["C19"])
class interval_contains:
    cases = _contains_cases()
