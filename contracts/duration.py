"""Sidecar contracts for pendulum/duration.py (C09 normalisation, C10 arithmetic).

All real-number reasoning is under A-FLOAT (doubles treated as exact reals); the rounding clauses
that A-FLOAT hides are covered by the bounded float lemma in bounded/c09.py."""
import datetime as _dt

import pendulum
from pendulum.duration import AbsoluteDuration, Duration

from pyvc import spec, stdlib, sym
from pyvc.contract import Loop, contract, transparent
from pyvc.engine import Obj
from pyvc.spec import D, DUS, M
from pyvc.sym import And, If, Implies, Not, Or, absv, b2i, eq, ge, gt, le, lt, ne, sign

YD = 365
MD = 30


def ym_us(years, months):
    return sym.mul(sym.add(sym.mul(years, YD), sym.mul(months, MD)), DUS)


def sgn_mul(R, x):
    """sign(R) * x without a nonlinear product"""
    return If(lt(R, 0), sym.neg(x), x)


def dur_rel(d):
    """C09's decomposition, stated relationally (linear) over the shadow fields of a Duration object:
    every field carries the sign of R = native value - (365*years + 30*months) days, lies in its
    canonical range, and the fields sum exactly to R.  These clauses determine the fields uniquely."""
    R = R_of(d)
    a = lambda x: sgn_mul(R, x)
    return [
        ("total", eq(sym.mul(d._total, M), sym.toreal(R))),
        ("micro_range", And(ge(a(d._microseconds), 0), lt(a(d._microseconds), M))),
        ("seconds_range", And(ge(a(d._seconds), 0), lt(a(d._seconds), D))),
        ("days_sign", ge(a(d._days), 0)),
        ("sum", eq(sym.add(sym.add(sym.mul(d._days, DUS), sym.mul(d._seconds, M)), d._microseconds), R)),
        ("remaining_days_range", And(ge(a(d._remaining_days), 0), lt(a(d._remaining_days), 7))),
        ("weeks_sign", ge(a(d._weeks), 0)),
        ("weeks_days", eq(sym.add(sym.mul(d._weeks, 7), d._remaining_days), d._days)),
    ]


_FIELDS = ("_microseconds", "_seconds", "_days", "_remaining_days", "_weeks")


def mk_duration(F, cls, us, years, months, signature=None, hint="dur"):
    """fresh Duration object with native value `us`; returns (object, relational constraints)"""
    f = {k: F.int(f"{hint}{k}") for k in _FIELDS}
    f["_total"] = F.real(f"{hint}_total")
    f.update(us=us, _years=years, _months=months)
    if signature is not None:
        f["_signature"] = signature
    o = Obj(cls, **f)
    return o, And(*[c for _, c in dur_rel(o)])


def sig_us(sig):
    return sym.add(ym_us(sig["years"], sig["months"]),
                   sym.add(sym.mul(sym.add(sym.mul(sig["weeks"], 7), sig["days"]), DUS),
                           sym.add(sym.mul(sym.add(sym.add(sym.mul(sig["hours"], 3600), sym.mul(sig["minutes"], 60)), sig["seconds"]), M),
                                   sig["microseconds"])))


def fresh_duration(F, cls=Duration, hint="self", ym=True):
    us = F.int(f"{hint}_us")
    years = F.int(f"{hint}_years") if ym else 0
    months = F.int(f"{hint}_months") if ym else 0
    sig = {k: F.int(f"{hint}_sig_{k}") for k in ("years", "months", "weeks", "days", "hours", "minutes", "seconds", "microseconds")}
    o, rel = mk_duration(F, cls, us, years, months, signature=sig, hint=hint)
    # the recorded constructor arguments denote the same value (Durations built from ints)
    inv = And(stdlib.td_in_range(us), rel, eq(sig_us(sig), us), eq(sig["years"], years), eq(sig["months"], months))
    return o, inv


def R_of(d):
    return sym.sub(d.us, ym_us(d._years, d._months))


# ------------------------------------------------------------------------------------------ __new__
_NUM = ("days", "seconds", "microseconds", "milliseconds", "minutes", "hours", "weeks")


def _native_us(a):
    """native timedelta value of the constructor arguments with years=365d, months=30d"""
    scale = dict(days=DUS, seconds=M, microseconds=1, milliseconds=1000, minutes=60 * M, hours=3600 * M, weeks=7 * DUS)
    tot = 0
    for n, sc in scale.items():
        tot = sym.add(tot, sym.mul(a[n], sc))
    tot = sym.add(tot, ym_us(a["years"], a["months"]))
    return sym.rhe(tot) if sym.is_reallike(tot) else tot


class _new_base:
    def requires(cls, days, seconds, microseconds, milliseconds, minutes, hours, weeks, years, months):
        return [("years_months_are_ints", sym.is_intlike(years) and sym.is_intlike(months))]

    raises = [(OverflowError, "native_range",
               lambda cls, **a: Not(stdlib.td_in_range(_native_us(a))))]

    def result(F, cls, days, seconds, microseconds, milliseconds, minutes, hours, weeks, years, months):
        a = dict(days=days, seconds=seconds, microseconds=microseconds, milliseconds=milliseconds, minutes=minutes, hours=hours,
                 weeks=weeks, years=years, months=months)
        o, _ = mk_duration(F, cls, _native_us(a), years, months, signature=_signature(a), hint="new")
        return o

    def ensures(result, cls, **a):
        sig = _signature(a)
        out = [("class", result.cls is cls),
               ("equals_native_timedelta", eq(result.us, _native_us(a))),
               ("years_months_as_given", And(eq(result._years, a["years"]), eq(result._months, a["months"]))),
               ("signature", And(*[sym.eq(result._signature[k], sig[k]) for k in sig]))]
        return out + [(f"decomposition.{l}", c) for l, c in dur_rel(result)]


def _signature(a):
    return dict(years=a["years"], months=a["months"], weeks=a["weeks"], days=a["days"], hours=a["hours"], minutes=a["minutes"],
                seconds=a["seconds"], microseconds=sym.add(a["microseconds"], sym.mul(a["milliseconds"], 1000)))


@contract("pendulum.duration.Duration.__new__", props=["C09", "C10", "C04", "C05", "C20"])
class Duration_new:
    class ints(_new_base):
        def applies(cls, **a):
            return all(sym.is_intlike(a[n]) for n in _NUM)

        def args(F):
            a = {n: F.int(n) for n in _NUM + ("years", "months")}
            a["cls"] = Duration
            return a

    class real_seconds(_new_base):
        """internal callers pass seconds=<float> (sums, products of total_seconds())"""

        def applies(cls, **a):
            return any(sym.is_reallike(a[n]) for n in _NUM)

        def args(F):
            a = {n: 0 for n in _NUM}
            a["seconds"] = F.real("seconds")
            a["microseconds"] = F.int("microseconds")
            a["years"] = F.int("years")
            a["months"] = F.int("months")
            a["cls"] = Duration
            return a

    cases = {"ints": ints, "real_seconds": real_seconds}


# ------------------------------------------------------------------------------------------ getters
transparent("pendulum.duration.Duration.years", "pendulum.duration.Duration.months", "pendulum.duration.Duration.weeks",
            "pendulum.duration.Duration.remaining_days", "pendulum.duration.Duration.seconds",
            "pendulum.duration.Duration.microseconds", "pendulum.duration.Duration._sign")


def _self(F):
    o, inv = fresh_duration(F)
    return dict(self=o), [inv]


@contract("pendulum.duration.Duration.hours", props=["C09", "C04", "C18"])
class hours:
    args = _self

    def value(self):
        return sgn_mul(self._seconds, sym.fdiv(absv(self._seconds), 3600))


@contract("pendulum.duration.Duration.minutes", props=["C09", "C04", "C18"])
class minutes:
    args = _self

    def value(self):
        return sgn_mul(self._seconds, sym.fmod(sym.fdiv(absv(self._seconds), 60), 60))


@contract("pendulum.duration.Duration.remaining_seconds", props=["C09", "C04", "C18"])
class remaining_seconds:
    args = _self

    def value(self):
        return sgn_mul(self._seconds, sym.fmod(absv(self._seconds), 60))


@contract("pendulum.duration.Duration.invert", props=["C09", "C18"])
class invert:
    args = _self

    def value(self):
        return lt(self.us, 0)


def trunc_rel(us, unit, q):
    """q == trunc(us / unit), stated without division (unit > 0)"""
    return If(ge(us, 0), And(le(sym.mul(q, unit), us), lt(us, sym.mul(sym.add(q, 1), unit))),
              And(ge(sym.mul(q, unit), us), gt(us, sym.mul(sym.sub(q, 1), unit))))


def _unit_contract(name, unit_us):
    @contract(f"pendulum.duration.Duration.total_{name}", props=["C09", "C05"])
    class total:
        args = _self

        def value(self):
            return sym.truediv(self.us, unit_us)

    @contract(f"pendulum.duration.Duration.in_{name}", props=["C09", "C05"])
    class in_:
        args = _self

        def result(F, self):
            return F.int(f"in_{name}")

        def ensures(result, self):
            return [("truncates_toward_zero", trunc_rel(self.us, unit_us, result))]


for _n, _u in (("minutes", 60 * M), ("hours", 3600 * M), ("days", DUS), ("weeks", 7 * DUS)):
    _unit_contract(_n, _u)


@contract("pendulum.duration.Duration.in_seconds", props=["C09", "C05", "C20"])
class in_seconds:
    args = _self

    def result(F, self):
        return F.int("in_seconds")

    def ensures(result, self):
        return [("truncates_toward_zero", trunc_rel(self.us, M, result))]
