"""Sidecar contracts for pendulum/duration.py (C09 normalisation, C10 arithmetic).

All real-number reasoning is under A-FLOAT (doubles treated as exact reals); the rounding clauses
that A-FLOAT hides are covered by the bounded float lemma in bounded/c09.py."""
import datetime as _dt

import pendulum
from pendulum.duration import AbsoluteDuration, Duration

from pyvc import spec, stdlib, sym
from pyvc.contract import Loop, contract, transparent
from pyvc.engine import Obj
from pyvc.spec import D, DUS, M
from pyvc.sym import And, If, Implies, Not, Or, absv, b2i, eq, ge, gt, le, lt, ne, sign

YD = 365
MD = 30


def ym_us(years, months):
    return sym.mul(sym.add(sym.mul(years, YD), sym.mul(months, MD)), DUS)


def sgn_mul(R, x):
    """sign(R) * x without a nonlinear product"""
    return If(lt(R, 0), sym.neg(x), x)


def dur_rel(d):
    """C09's decomposition, stated relationally (linear) over the shadow fields of a Duration object:
    every field carries the sign of R = native value - (365*years + 30*months) days, lies in its
    canonical range, and the fields sum exactly to R.  These clauses determine the fields uniquely."""
    R = R_of(d)
    a = lambda x: sgn_mul(R, x)
    return [
        ("total", eq(sym.mul(d._total, M), sym.toreal(R))),
        ("micro_range", And(ge(a(d._microseconds), 0), lt(a(d._microseconds), M))),
        ("seconds_range", And(ge(a(d._seconds), 0), lt(a(d._seconds), D))),
        ("days_sign", ge(a(d._days), 0)),
        ("sum", eq(sym.add(sym.add(sym.mul(d._days, DUS), sym.mul(d._seconds, M)), d._microseconds), R)),
        ("remaining_days_range", And(ge(a(d._remaining_days), 0), lt(a(d._remaining_days), 7))),
        ("weeks_sign", ge(a(d._weeks), 0)),
        ("weeks_days", eq(sym.add(sym.mul(d._weeks, 7), d._remaining_days), d._days)),
    ]


_FIELDS = ("_microseconds", "_seconds", "_days", "_remaining_days", "_weeks")


def mk_duration(F, cls, us, years, months, signature=None, hint="dur"):
    """fresh Duration object with native value `us`; returns (object, relational constraints)"""
    f = {k: F.int(f"{hint}{k}") for k in _FIELDS}
    f.update(us=us, _years=years, _months=months)
    # _total is a function of the native value (kept as a term so that products with it normalise)
    f["_total"] = sym.truediv(sym.sub(us, ym_us(years, months)), M)
    if signature is not None:
        f["_signature"] = signature
    o = Obj(cls, **f)
    return o, And(*[c for _, c in dur_rel(o)])


def sig_us(sig):
    return sym.add(ym_us(sig["years"], sig["months"]),
                   sym.add(sym.mul(sym.add(sym.mul(sig["weeks"], 7), sig["days"]), DUS),
                           sym.add(sym.mul(sym.add(sym.add(sym.mul(sig["hours"], 3600), sym.mul(sig["minutes"], 60)), sig["seconds"]), M),
                                   sig["microseconds"])))


def fresh_duration(F, cls=Duration, hint="self", ym=True):
    us = F.int(f"{hint}_us")
    years = F.int(f"{hint}_years") if ym else 0
    months = F.int(f"{hint}_months") if ym else 0
    sig = {k: F.int(f"{hint}_sig_{k}") for k in ("years", "months", "weeks", "days", "hours", "minutes", "seconds", "microseconds")}
    o, rel = mk_duration(F, cls, us, years, months, signature=sig, hint=hint)
    # the recorded constructor arguments denote the same value (Durations built from ints)
    inv = And(stdlib.td_in_range(us), rel, eq(sig_us(sig), us), eq(sig["years"], years), eq(sig["months"], months))
    return o, inv


def R_of(d):
    return sym.sub(d.us, ym_us(d._years, d._months))


# ------------------------------------------------------------------------------------------ __new__
_NUM = ("days", "seconds", "microseconds", "milliseconds", "minutes", "hours", "weeks")


def _native_us(a):
    """native timedelta value of the constructor arguments with years=365d, months=30d"""
    scale = dict(days=DUS, seconds=M, microseconds=1, milliseconds=1000, minutes=60 * M, hours=3600 * M, weeks=7 * DUS)
    tot = 0
    for n, sc in scale.items():
        tot = sym.add(tot, sym.mul(a[n], sc))
    tot = sym.add(tot, ym_us(a["years"], a["months"]))
    return sym.rhe(tot) if sym.is_reallike(tot) else tot


class _new_base:
    def requires(cls, days, seconds, microseconds, milliseconds, minutes, hours, weeks, years, months):
        return [("years_months_are_ints", sym.is_intlike(years) and sym.is_intlike(months))]

    raises = [(OverflowError, "native_range",
               lambda cls, **a: Not(stdlib.td_in_range(_native_us(a))))]

    def result(F, cls, days, seconds, microseconds, milliseconds, minutes, hours, weeks, years, months):
        a = dict(days=days, seconds=seconds, microseconds=microseconds, milliseconds=milliseconds, minutes=minutes, hours=hours,
                 weeks=weeks, years=years, months=months)
        o, _ = mk_duration(F, cls, _native_us(a), years, months, signature=_signature(a), hint="new")
        return o

    def ensures(result, cls, **a):
        sig = _signature(a)
        out = [("class", result.cls is cls),
               ("equals_native_timedelta", eq(result.us, _native_us(a))),
               ("years_months_as_given", And(eq(result._years, a["years"]), eq(result._months, a["months"]))),
               ("signature", And(*[sym.eq(result._signature[k], sig[k]) for k in sig]))]
        return out + [(f"decomposition.{l}", c) for l, c in dur_rel(result)]


def _signature(a):
    return dict(years=a["years"], months=a["months"], weeks=a["weeks"], days=a["days"], hours=a["hours"], minutes=a["minutes"],
                seconds=a["seconds"], microseconds=sym.add(a["microseconds"], sym.mul(a["milliseconds"], 1000)))


@contract("pendulum.duration.Duration.__new__", props=["C09", "C10", "C04", "C05", "C20"])
class Duration_new:
    class ints(_new_base):
        def applies(cls, **a):
            return all(sym.is_intlike(a[n]) for n in _NUM)

        def args(F):
            a = {n: F.int(n) for n in _NUM + ("years", "months")}
            a["cls"] = Duration
            return a

    class real_seconds(_new_base):
        """internal callers pass seconds=<float> (sums, products of total_seconds())"""

        def applies(cls, **a):
            return any(sym.is_reallike(a[n]) for n in _NUM)

        def args(F):
            a = {n: 0 for n in _NUM}
            # internal callers pass seconds=<float>; the duration parser passes fractional days, hours or minutes
            for n in ("days", "hours", "minutes", "seconds"):
                a[n] = F.real(n)
            a["weeks"] = F.int("weeks")
            a["microseconds"] = F.int("microseconds")
            a["years"] = F.int("years")
            a["months"] = F.int("months")
            a["cls"] = Duration
            return a

    cases = {"ints": ints, "real_seconds": real_seconds}


# ------------------------------------------------------------------------------------------ getters
transparent("pendulum.duration.Duration.years", "pendulum.duration.Duration.months", "pendulum.duration.Duration.weeks",
            "pendulum.duration.Duration.remaining_days", "pendulum.duration.Duration.seconds",
            "pendulum.duration.Duration.microseconds", "pendulum.duration.Duration._sign")


def _self(F):
    o, inv = fresh_duration(F)
    return dict(self=o), [inv]


@contract("pendulum.duration.Duration.hours", props=["C09", "C04", "C18"])
class hours:
    args = _self

    def value(self):
        return sgn_mul(self._seconds, sym.fdiv(absv(self._seconds), 3600))


@contract("pendulum.duration.Duration.minutes", props=["C09", "C04", "C18"])
class minutes:
    args = _self

    def value(self):
        return sgn_mul(self._seconds, sym.fmod(sym.fdiv(absv(self._seconds), 60), 60))


@contract("pendulum.duration.Duration.remaining_seconds", props=["C09", "C04", "C18"])
class remaining_seconds:
    args = _self

    def value(self):
        return sgn_mul(self._seconds, sym.fmod(absv(self._seconds), 60))


transparent("pendulum.duration.Duration.invert", why="lazy cache: on objects whose _invert is already set (Interval) the real body is re-executed")


@contract("pendulum.duration.Duration.invert", props=["C09", "C18"])
class invert:
    args = _self

    def applies(self):
        return isinstance(self, Obj) and "_invert" not in self.f

    def value(self):
        return lt(self.us, 0)


def trunc_rel(us, unit, q):
    """q == trunc(us / unit), stated without division (unit > 0)"""
    return If(ge(us, 0), And(le(sym.mul(q, unit), us), lt(us, sym.mul(sym.add(q, 1), unit))),
              And(ge(sym.mul(q, unit), us), gt(us, sym.mul(sym.sub(q, 1), unit))))


def _unit_contract(name, unit_us):
    @contract(f"pendulum.duration.Duration.total_{name}", props=["C09", "C05"])
    class total:
        args = _self

        def value(self):
            return sym.truediv(self.us, unit_us)

    @contract(f"pendulum.duration.Duration.in_{name}", props=["C09", "C05"])
    class in_:
        args = _self

        def result(F, self):
            return F.int(f"in_{name}")

        def ensures(result, self):
            return [("truncates_toward_zero", trunc_rel(self.us, unit_us, result))]


for _n, _u in (("minutes", 60 * M), ("hours", 3600 * M), ("days", DUS), ("weeks", 7 * DUS)):
    _unit_contract(_n, _u)


@contract("pendulum.duration.Duration.in_seconds", props=["C09", "C05", "C20"])
class in_seconds:
    args = _self

    def result(F, self):
        return F.int("in_seconds")

    def ensures(result, self):
        return [("truncates_toward_zero", trunc_rel(self.us, M, result))]


# ========================================================================================== C10
def rhe_rel(a, b, q):
    """q == round-half-even(a / b) for integers a, b (b != 0), stated without division:
    |2*(a - q*b)| <= |b| and on a tie q is even"""
    r2 = sym.mul(2, sym.sub(a, sym.mul(q, b)))
    ab = absv(b)
    return And(le(absv(r2), ab), Implies(eq(absv(r2), ab), eq(sym.fmod(q, 2), 0)))


@contract("pendulum.duration._divide_and_round", props=["C10"])
class divide_and_round:
    class ints:
        def applies(a, b):
            return sym.is_intlike(a) and sym.is_intlike(b)

        def args(F):
            return dict(a=F.int("a"), b=F.int("b"))

        def requires(a, b):
            return [("nonzero_divisor", ne(b, 0))]

        def result(F, a, b):
            return F.int("dar")

        def ensures(result, a, b):
            return [("round_half_even", rhe_rel(a, b, result))]

    class int_real:
        """months / float in __truediv__: float divmod (A-FLOAT: exact reals)"""

        def applies(a, b):
            return sym.is_reallike(a) or sym.is_reallike(b)

        def args(F):
            return dict(a=F.int("a"), b=F.real("b"))

        def requires(a, b):
            return [("nonzero_divisor", ne(b, 0))]

        def result(F, a, b):
            return F.int("dar")

        def ensures(result, a, b):
            x = sym.truediv(a, b)
            d = sym.sub(x, sym.toreal(result))
            half = sym.truediv(1, 2)
            return [("round_half_even", And(le(absv(d), half), Implies(eq(absv(d), half), eq(sym.fmod(result, 2), 0))))]

    cases = {"ints": ints, "int_real": int_real}


@contract("pendulum.duration.Duration._to_microseconds", props=["C10"])
class to_microseconds:
    args = _self

    def value(self):
        return R_of(self)


def _pair(other_cls, ym=True):
    def args(F):
        o, inv = fresh_duration(F, Duration, "self", ym=ym)
        if other_cls is Duration:
            p, inv2 = fresh_duration(F, Duration, "other", ym=ym)
        else:
            p, inv2 = stdlib.fresh_td(F, _dt.timedelta, "other")
        return dict(self=o, other=p), [inv, inv2]

    return args


def _is_exact(other, cls):
    return isinstance(other, Obj) and other.cls is cls


def _sig_seconds(x):
    return dict(years=0, months=0, weeks=0, days=0, hours=0, minutes=0, seconds=x, microseconds=0)


def _addsub(name, op):
    class base:
        raises = [(OverflowError, "native_range", lambda self, other: Not(stdlib.td_in_range(op(self.us, other.us))))]

        def result(F, self, other):
            o, _ = mk_duration(F, self.cls, op(self.us, other.us), 0, 0, hint=name)
            return o

        def ensures(result, self, other):
            # the length of the native timedelta operation, in a Duration
            return [("class", result.cls is self.cls), ("native_length", eq(result.us, op(self.us, other.us))),
                    ("no_years_months", And(eq(result._years, 0), eq(result._months, 0)))] + \
                   [(f"decomposition.{l}", c) for l, c in dur_rel(result)]

    class dur(base):
        applies = staticmethod(lambda self, other: _is_exact(other, Duration))
        args = _pair(Duration)

    class td(base):
        applies = staticmethod(lambda self, other: _is_exact(other, _dt.timedelta))
        args = _pair(_dt.timedelta)

    class unsupported:
        applies = staticmethod(lambda self, other: not isinstance(other, Obj) or not issubclass(other.cls, _dt.timedelta))

        def args(F):
            o, inv = fresh_duration(F, Duration, "self")
            return dict(self=o, other=F.int("other")), [inv]

        def value(self, other):
            return NotImplemented

    return {"duration": dur, "timedelta": td, "unsupported": unsupported}


@contract("pendulum.duration.Duration.__add__", props=["C10"])
class d_add:
    cases = _addsub("add", sym.add)


@contract("pendulum.duration.Duration.__sub__", props=["C10"])
class d_sub:
    cases = _addsub("sub", sym.sub)


def neg_signature(self):
    return dict(years=sym.neg(self._years), months=sym.neg(self._months), weeks=sym.neg(self._weeks), days=sym.neg(self._remaining_days),
                hours=0, minutes=0, seconds=sym.neg(self._seconds), microseconds=sym.neg(self._microseconds))


@contract("pendulum.duration.Duration.__neg__", props=["C10", "C04"])
class d_neg:
    args = _self
    # like the native class: the range of timedelta is not symmetric (-timedelta.max overflows)
    raises = [(OverflowError, "native_range", lambda self: Not(stdlib.td_in_range(sym.neg(self.us))))]

    def result(F, self):
        o, _ = mk_duration(F, self.cls, sym.neg(self.us), sym.neg(self._years), sym.neg(self._months), signature=neg_signature(self), hint="neg")
        return o

    def ensures(result, self):
        sig = neg_signature(self)
        return [("class", result.cls is self.cls), ("native_length", eq(result.us, sym.neg(self.us))),
                ("years_months_negated", And(eq(result._years, sym.neg(self._years)), eq(result._months, sym.neg(self._months)))),
                ("components_recorded", And(*[sym.eq(result._signature[k], sig[k]) for k in sig]))] + \
               [(f"decomposition.{l}", c) for l, c in dur_rel(result)]


def _self_and(kind, ym=True):
    def args(F):
        o, inv = fresh_duration(F, Duration, "self", ym=ym)
        other = F.int("other") if kind == "int" else F.real("other")
        return dict(self=o, other=other), [inv]

    return args


@contract("pendulum.duration.Duration.__mul__", props=["C10"])
class d_mul:
    class by_int:
        applies = staticmethod(lambda self, other: sym.is_intlike(other))
        args = _self_and("int")

        def requires(self, other):
            return [("representable", stdlib.td_in_range(sym.mul(self.us, other)))]

        def result(F, self, other):
            o, _ = mk_duration(F, self.cls, sym.mul(self.us, other), sym.mul(self._years, other), sym.mul(self._months, other), hint="mul")
            return o

        def ensures(result, self, other):
            return [("class", result.cls is self.cls), ("native_length", eq(result.us, sym.mul(self.us, other))),
                    ("years_months_scaled", And(eq(result._years, sym.mul(self._years, other)), eq(result._months, sym.mul(self._months, other))))]

    class by_float:
        applies = staticmethod(lambda self, other: sym.is_reallike(other))
        args = _self_and("float", ym=False)

        def requires(self, other):
            n, d = sym.ratio(other)
            return [("no_years_months", And(eq(self._years, 0), eq(self._months, 0))),
                    # |us * f| stays below the native maximum (so that the rounded product is representable)
                    ("representable", le(sym.mul(absv(sym.mul(self.us, n)), 1), sym.mul(d, stdlib.MAX_TD_DAYS * DUS)))]

        def result(F, self, other):
            o, _ = mk_duration(F, self.cls, F.int("mulf_us"), 0, 0, hint="mulf")
            return o

        def ensures(result, self, other):
            # native: timedelta * float == round-half-even(us * a / b), (a, b) = f.as_integer_ratio()
            n, d = sym.ratio(other)
            return [("class", result.cls is self.cls), ("native_length", rhe_rel(sym.mul(self.us, n), d, result.us))]

    cases = {"by_int": by_int, "by_float": by_float}


def _no_ym(*ds):
    return And(*[And(eq(d._years, 0), eq(d._months, 0)) for d in ds if isinstance(d, Obj) and "_years" in d.f])


def _divcases(kind):
    """cases of //, /, %, divmod by a duration (Duration or plain timedelta): the native operation on the
    microsecond values (zero divisors excluded; Durations without years/months, as in the statement)"""

    def native(self, other):
        a, b = self.us, other.us
        if kind == "floordiv":
            return sym.fdiv(a, b)
        if kind == "truediv":
            return sym.truediv(a, b)
        return None

    class by_duration_base:
        def requires(self, other):
            return [("no_years_months", _no_ym(self, other)), ("nonzero_divisor", ne(other.us, 0))]

        if kind in ("floordiv", "truediv"):
            def value(self, other):
                return native(self, other)
        elif kind == "mod":
            def result(F, self, other):
                o, _ = mk_duration(F, self.cls, sym.fmod(self.us, other.us), 0, 0, hint="mod")
                return o

            def ensures(result, self, other):
                return [("class", result.cls is self.cls), ("native_length", eq(result.us, sym.fmod(self.us, other.us)))]
        else:
            def result(F, self, other):
                o, _ = mk_duration(F, self.cls, sym.fmod(self.us, other.us), 0, 0, hint="divmod")
                return (sym.fdiv(self.us, other.us), o)

            def ensures(result, self, other):
                q, r = result
                return [("quotient", eq(q, sym.fdiv(self.us, other.us))), ("class", r.cls is self.cls),
                        ("native_length", eq(r.us, sym.fmod(self.us, other.us)))]

    class dur(by_duration_base):
        applies = staticmethod(lambda self, other: _is_exact(other, Duration))
        args = _pair(Duration, ym=False)

    class td(by_duration_base):
        applies = staticmethod(lambda self, other: _is_exact(other, _dt.timedelta))
        args = _pair(_dt.timedelta, ym=False)

    return {"duration": dur, "timedelta": td}


@contract("pendulum.duration.Duration.__floordiv__", props=["C10"])
class d_floordiv:
    class by_int:
        applies = staticmethod(lambda self, other: sym.is_intlike(other))
        args = _self_and("int", ym=False)

        def requires(self, other):
            return [("no_years_months", _no_ym(self)), ("nonzero_divisor", ne(other, 0))]

        # like the native class (timedelta.min // -1 overflows)
        raises = [(OverflowError, "native_range", lambda self, other: Not(stdlib.td_in_range(sym.fdiv(self.us, other))))]

        def result(F, self, other):
            o, _ = mk_duration(F, self.cls, sym.fdiv(self.us, other), 0, 0, hint="fdiv")
            return o

        def ensures(result, self, other):
            return [("class", result.cls is self.cls), ("native_length", eq(result.us, sym.fdiv(self.us, other)))]

    cases = dict(_divcases("floordiv"), by_int=by_int)


@contract("pendulum.duration.Duration.__truediv__", props=["C10"])
class d_truediv:
    class by_int:
        applies = staticmethod(lambda self, other: sym.is_intlike(other))
        args = _self_and("int", ym=False)

        def requires(self, other):
            return [("no_years_months", _no_ym(self)), ("nonzero_divisor", ne(other, 0)),
                    # the range of timedelta is not symmetric: dividing by a negative number must not produce
                    # the negation of a value beyond -timedelta.min
                    ("representable", Or(gt(other, 0), le(self.us, stdlib.MAX_TD_DAYS * DUS)))]

        def result(F, self, other):
            o, _ = mk_duration(F, self.cls, F.int("tdiv_us"), 0, 0, hint="tdiv")
            return o

        def ensures(result, self, other):
            # native: timedelta / int == round-half-even(us / n)
            return [("class", result.cls is self.cls), ("native_length", rhe_rel(self.us, other, result.us))]

    class by_float:
        applies = staticmethod(lambda self, other: sym.is_reallike(other))
        args = _self_and("float", ym=False)

        def requires(self, other):
            n, d = sym.ratio(other)
            return [("no_years_months", _no_ym(self)), ("nonzero_divisor", ne(other, 0)),
                    ("representable", le(absv(sym.mul(self.us, d)), sym.mul(absv(n), stdlib.MAX_TD_DAYS * DUS)))]

        def result(F, self, other):
            o, _ = mk_duration(F, self.cls, F.int("tdivf_us"), 0, 0, hint="tdivf")
            return o

        def ensures(result, self, other):
            # native: timedelta / float == round-half-even(us * b / a), (a, b) = f.as_integer_ratio()
            n, d = sym.ratio(other)
            return [("class", result.cls is self.cls), ("native_length", rhe_rel(sym.mul(d, self.us), n, result.us))]

    cases = dict(_divcases("truediv"), by_int=by_int, by_float=by_float)


@contract("pendulum.duration.Duration.__mod__", props=["C10"])
class d_mod:
    cases = _divcases("mod")


@contract("pendulum.duration.Duration.__divmod__", props=["C10"])
class d_divmod:
    cases = _divcases("divmod")


@contract("pendulum.duration._timedelta_to_microseconds", props=["C10"])
class td_to_us:
    class dur:
        applies = staticmethod(lambda delta: isinstance(delta, Obj) and issubclass(delta.cls, Duration))

        def args(F):
            o, inv = fresh_duration(F, Duration, "delta")
            return dict(delta=o), [inv]

        def value(delta):
            return R_of(delta)

    class td:
        applies = staticmethod(lambda delta: isinstance(delta, Obj) and issubclass(delta.cls, _dt.timedelta) and not issubclass(delta.cls, Duration))

        def args(F):
            o, inv = stdlib.fresh_td(F, _dt.timedelta, "delta")
            return dict(delta=o), [inv]

        def value(delta):
            return delta.us

    cases = {"duration": dur, "timedelta": td}


# ---- class restriction -----------------------------------------------------------------------------------
# The contracts above describe Duration's own methods on objects whose total_seconds()/invert are the ones they
# were verified with.  AbsoluteDuration overrides total_seconds() and invert, so a call on such an object must not
# be served by these contracts (it is served by the AbsoluteDuration cases below, or is a "needs contract" error).
def _native_total(self):
    if not isinstance(self, Obj):
        return False
    for c in self.cls.__mro__:
        if "total_seconds" in c.__dict__:
            return c is _dt.timedelta
    return False


def _restrict_to_native_total():
    from pyvc.contract import REGISTRY

    keep_generic = {"pendulum.duration.Duration.__new__", "pendulum.duration.Duration.hours", "pendulum.duration.Duration.minutes",
                    "pendulum.duration.Duration.remaining_seconds"}
    for qn, entry in REGISTRY.items():
        if not qn.startswith("pendulum.duration.Duration.") or qn in keep_generic:
            continue
        for case in entry.cases:
            inner = case._get("applies")

            def applies(_inner=inner, **a):
                return _native_total(a.get("self")) and (True if _inner is None else _inner(**a))

            # install on the case namespace (a class): staticmethod so that it is not bound
            setattr(case.ns, "applies", staticmethod(applies))


_restrict_to_native_total()


# ========================================================================================== AbsoluteDuration (C20, C05)
def abs_fields(F, cls, T, years, months, hint="abs"):
    """shadow fields of AbsoluteDuration.__new__ for native value T (microseconds), relationally"""
    A = absv(T)
    f = {k: F.int(f"{hint}{k}") for k in ("_microseconds", "_seconds", "_wd_days", "_weeks", "_remaining_days")}
    o = Obj(cls, us=T, _total=sym.truediv(T, M), _microseconds=f["_microseconds"], _seconds=f["_seconds"],
            _days=absv(sym.add(f["_wd_days"], sym.add(sym.mul(years, 365), sym.mul(months, 30)))),
            _weeks=f["_weeks"], _remaining_days=f["_remaining_days"], _months=absv(months), _years=absv(years))
    rel = abs_rel(o, f["_wd_days"])
    return o, rel, f["_wd_days"]


def abs_rel(o, wd):
    A = absv(o.us)
    return And(ge(o._microseconds, 0), lt(o._microseconds, M), ge(o._seconds, 0), lt(o._seconds, D), ge(wd, 0),
               eq(sym.add(sym.add(sym.mul(wd, DUS), sym.mul(o._seconds, M)), o._microseconds), A),
               ge(o._remaining_days, 0), lt(o._remaining_days, 7), eq(sym.add(sym.mul(o._weeks, 7), o._remaining_days), wd))


@contract("pendulum.duration.AbsoluteDuration.__new__", props=["C20", "C05"])
class AbsoluteDuration_new:
    def applies(cls, **a):
        return all(sym.is_intlike(a[n]) for n in _NUM)

    def args(F):
        a = {n: F.int(n) for n in _NUM + ("years", "months")}
        a["cls"] = AbsoluteDuration
        return a

    def requires(cls, **a):
        return [("years_months_are_ints", sym.is_intlike(a["years"]) and sym.is_intlike(a["months"]))]

    @staticmethod
    def _T(a):
        scale = dict(days=DUS, seconds=M, microseconds=1, milliseconds=1000, minutes=60 * M, hours=3600 * M, weeks=7 * DUS)
        tot = 0
        for n, sc in scale.items():
            tot = sym.add(tot, sym.mul(a[n], sc))
        return tot

    raises = [(OverflowError, "native_range", lambda cls, **a: Not(stdlib.td_in_range(AbsoluteDuration_new._T(a))))]

    def result(F, cls, **a):
        o, _, _ = abs_fields(F, cls, AbsoluteDuration_new._T(a), a["years"], a["months"])
        return o

    def ensures(result, cls, **a):
        T = AbsoluteDuration_new._T(a)
        A = absv(T)
        # the magnitude is what the object reports: total_seconds() == |T| / 10^6 and the fields decompose |T|
        wd = sym.add(sym.mul(result._weeks, 7), result._remaining_days)
        return [("class", result.cls is cls), ("signed_total_kept", eq(sym.mul(result._total, M), sym.toreal(T))),
                ("magnitude_decomposition", And(ge(result._microseconds, 0), lt(result._microseconds, M), ge(result._seconds, 0), lt(result._seconds, D),
                                                ge(result._remaining_days, 0), lt(result._remaining_days, 7), ge(result._weeks, 0),
                                                eq(sym.add(sym.add(sym.mul(wd, DUS), sym.mul(result._seconds, M)), result._microseconds), A))),
                ("years_months_magnitude", And(eq(result._years, absv(a["years"])), eq(result._months, absv(a["months"]))))]

    def assume(F, result, cls, **a):
        return AbsoluteDuration_new.ensures(result, cls, **a)


transparent("pendulum.duration.AbsoluteDuration.total_seconds")


@contract("pendulum.duration.AbsoluteDuration.invert", props=["C20", "C18"])
class abs_invert:
    def args(F):
        o, rel, _ = abs_fields(F, AbsoluteDuration, F.int("T"), F.int("y"), F.int("mo"), hint="self")
        return dict(self=o), [rel]

    def value(self):
        return lt(self._total, 0)


def _abs_self(F):
    o, rel, _ = abs_fields(F, AbsoluteDuration, F.int("T"), 0, 0, hint="self")
    return dict(self=o), [rel, stdlib.td_in_range(o.us)]


def _add_abs_case(qualname, unit_us, kind):
    """extra case of an inherited Duration method for AbsoluteDuration receivers (magnitude semantics)"""
    from pyvc.contract import REGISTRY, Case

    entry = REGISTRY[qualname]

    class on_absolute:
        applies = staticmethod(lambda self: isinstance(self, Obj) and issubclass(self.cls, AbsoluteDuration))
        args = _abs_self

        if kind == "total":
            def value(self):
                return sym.truediv(absv(self.us), unit_us)
        else:
            def result(F, self):
                return F.int("in_abs")

            def ensures(result, self):
                return [("truncated_magnitude", trunc_rel(absv(self.us), unit_us, result))]

    entry.cases.append(Case(qualname, "absolute", on_absolute, None))


for _n, _u in (("minutes", 60 * M), ("hours", 3600 * M), ("days", DUS), ("weeks", 7 * DUS)):
    _add_abs_case(f"pendulum.duration.Duration.total_{_n}", _u, "total")
    _add_abs_case(f"pendulum.duration.Duration.in_{_n}", _u, "in")
_add_abs_case("pendulum.duration.Duration.in_seconds", M, "in")
