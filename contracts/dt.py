"""Sidecar contracts for pendulum/datetime.py and the constructors in pendulum/__init__.py
(C01 conversion, C02 construction, C03/C04 arithmetic, C12 start/end, C16 navigation)."""
import datetime as _dt

import pendulum
from pendulum.datetime import DateTime
from pendulum.tz.exceptions import AmbiguousTime, NonExistingTime
from pendulum.tz.timezone import FixedTimezone, Timezone

from contracts.tz import fresh_fixed, is_aware_dt, is_naive_dt
from pyvc import spec, stdlib, sym, zones
from pyvc.contract import Loop, contract, transparent
from pyvc.engine import Obj
from pyvc.spec import D, DUS, M
from pyvc.sym import And, If, Implies, Not, Or, absv, b2i, eq, ge, gt, le, lt, ne

transparent("pendulum._safe_timezone", "pendulum.datetime.DateTime.timezone", "pendulum.datetime.DateTime.tz",
            "pendulum.datetime.DateTime.date", "pendulum.datetime.DateTime.time", "pendulum.datetime.DateTime.naive",
            why="small accessor / dispatcher: its real body is re-executed at every call site")

_F7 = ("year", "month", "day", "hour", "minute", "second", "microsecond")


def wall7(a):
    return spec.wall_us_f(*[a[n] for n in _F7])


def valid7(a):
    return And(spec.valid_date(a["year"], a["month"], a["day"]), spec.valid_time(a["hour"], a["minute"], a["second"], a["microsecond"]))


def is_ptz(tz):
    return isinstance(tz, Obj) and issubclass(tz.cls, (Timezone, FixedTimezone))


def fresh_pdt(F, tz, hint="self", cls=DateTime):
    """a pendulum DateTime as its public constructors produce it: valid fields, and - when aware - a valid
    local time of its zone (the rendering of its own instant)"""
    o, valid = stdlib.fresh_datetime(F, cls, hint, tzinfo=tz)
    inv = valid if tz is None else And(valid, zones.is_rendering(o))
    return o, inv


def zone_cases(k=1):
    """type configurations of the tz argument"""
    return {
        "naive": lambda F: (None, True),
        "zone": lambda F: stdlib.fresh_zone(F, Timezone, "tz", k=k),
        "fixed": lambda F: fresh_fixed(F, "tz"),
    }


# ------------------------------------------------------------------------------------------ create
class _create_base:
    """C02: wall-clock fields in a zone -> the documented normalisation (Timezone.convert's contract) in a DateTime"""

    def requires(cls, tz, **a):
        return [("pendulum_zone_or_none", tz is None or is_ptz(tz)), ("fields_are_ints", all(sym.is_intlike(a[n]) for n in _F7))]

    raises = [
        (ValueError, "invalid_fields", lambda cls, tz, fold, raise_on_unknown_times, **a:
            Not(And(valid7(a), Or(eq(fold, 0), eq(fold, 1))))),
        (NonExistingTime, "skipped", lambda cls, tz, fold, raise_on_unknown_times, **a:
            And(tz is not None, valid7(a), raise_on_unknown_times, eq(zones.n_preimages(tz, wall7(a)), 0)) if tz is not None else False),
        (AmbiguousTime, "repeated", lambda cls, tz, fold, raise_on_unknown_times, **a:
            And(valid7(a), raise_on_unknown_times, eq(zones.n_preimages(tz, wall7(a)), 2)) if tz is not None else False),
        (OverflowError, "shifted_out_of_range", lambda cls, tz, fold, raise_on_unknown_times, **a:
            And(valid7(a), Or(eq(fold, 0), eq(fold, 1)), Not(raise_on_unknown_times),
                Not(stdlib.in_dt_range(zones.normalised(tz, wall7(a), fold)[0]))) if tz is not None else False),
    ]

    def result(F, cls, tz, fold, raise_on_unknown_times, **a):
        o, _ = stdlib.fresh_datetime(F, cls, "created", tzinfo=tz)
        return o

    def ensures(result, cls, tz, fold, raise_on_unknown_times, **a):
        out = [("valid_fields", stdlib.valid_dt(result)), ("class_and_zone", result.cls is cls and zones.same_zone(result.tzinfo, tz))]
        if tz is None:
            return out + [("fields_as_given", And(eq(spec.wall_us(result), wall7(a)), eq(result.fold, fold)))]
        w2, f2 = zones.normalised(tz, wall7(a), fold)
        return out + [("wall_clock_by_dst_rules", eq(spec.wall_us(result), w2)),
                      ("fold", eq(result.fold, 0 if zones.is_fixed(tz) else f2)),
                      # the value returned is a valid local time that survives a round trip through UTC
                      ("valid_local_time", zones.is_rendering(result))]


def _create_case(name, mk):
    class case(_create_base):
        def applies(cls, tz, **a):
            if name == "naive":
                return tz is None
            if name == "zone":
                return isinstance(tz, Obj) and issubclass(tz.cls, Timezone)
            return isinstance(tz, Obj) and issubclass(tz.cls, FixedTimezone)

        def args(F):
            tz, zc = mk(F)
            a = {n: F.int(n) for n in _F7}
            a.update(cls=DateTime, tz=tz, fold=F.int("fold"), raise_on_unknown_times=F.bool("roe"))
            return a, [zc]

    case.__name__ = name
    return case


@contract("pendulum.datetime.DateTime.create", props=["C02", "C01", "C03", "C04", "C12"])
class create:
    cases = {n: _create_case(n, mk) for n, mk in zone_cases().items()}


def _ctor_contract(qualname, with_cls=False, fixed_tz=None, has_fold=True, has_roe=True):
    """pendulum.datetime / naive / local: the same contract as DateTime.create (delegations)"""

    def adapt(f):
        def g(**a):
            b = dict(a)
            b.setdefault("cls", DateTime)
            if fixed_tz is not None:
                b["tz"] = fixed_tz
            b.setdefault("fold", 1)
            b.setdefault("raise_on_unknown_times", False)
            return f(**b)

        return g

    def mkcase(name, mk):
        class case:
            def applies(**a):
                tz = a.get("tz", fixed_tz)
                return _create_case(name, mk).applies(DateTime, tz)

            def args(F):
                tz, zc = mk(F)
                a = {n: F.int(n) for n in _F7}
                if fixed_tz is None:
                    a["tz"] = tz
                if has_fold:
                    a["fold"] = F.int("fold")
                if has_roe:
                    a["raise_on_unknown_times"] = F.bool("roe")
                return a, [zc]

            requires = staticmethod(adapt(_create_base.requires))
            raises = [(e, l, adapt(c)) for e, l, c in _create_base.raises]

            def result(F, **a):
                return adapt(lambda **b: _create_base.result(F, **b))(**a)

            def ensures(result, **a):
                return adapt(lambda **b: _create_base.ensures(result, **b))(**a)

        return case

    cases = {n: mkcase(n, mk) for n, mk in zone_cases().items() if fixed_tz is None or n == "naive"}
    ns = type("ctor", (), {"cases": cases})
    contract(qualname, props=["C02"])(ns)
    return ns


_ctor_contract("pendulum.datetime")


def _naive_ctor():
    @contract("pendulum.naive", props=["C02"])
    class naive:
        def args(F):
            a = {n: F.int(n) for n in _F7}
            a["fold"] = F.int("fold")
            return a

        raises = [(ValueError, "invalid_fields", lambda fold, **a: Not(And(valid7(a), Or(eq(fold, 0), eq(fold, 1)))))]

        def result(F, fold, **a):
            o, _ = stdlib.fresh_datetime(F, DateTime, "naive", tzinfo=None)
            return o

        def ensures(result, fold, **a):
            return [("valid_fields", stdlib.valid_dt(result)), ("class_naive", result.cls is DateTime and result.tzinfo is None),
                    ("fields_as_given", And(eq(spec.wall_us(result), wall7(a)), eq(result.fold, fold)))]


_naive_ctor()


# ------------------------------------------------------------------------------------------ set / on / at / replace
def _eff(self, a):
    """effective field values of set(): the given ones, else the instance's"""
    return {n: (getattr(self, n) if a.get(n) is None else a[n]) for n in _F7}


def _via_create(self_kind_mk, fn_params, given, fold_of_self=True):
    """contract namespace for a setter that ends in create(effective fields, tz=self.tz, fold=self.fold)"""

    class case:
        def args(F):
            tz, zc = self_kind_mk(F)
            o, inv = fresh_pdt(F, tz)
            a = dict(self=o)
            for n in fn_params:
                a[n] = F.int(n) if n in given else None
            return a, [zc, inv]

    return case


class _set_base:
    def requires(self, tz=None, **a):
        return [("self_zone_is_pendulum_or_naive", self.tzinfo is None or is_ptz(self.tzinfo)),
                ("tz_argument_none_or_pendulum", tz is None or is_ptz(tz))]

    @staticmethod
    def _args(self, tz, a, fold=None):
        e = _eff(self, a)
        return dict(cls=self.cls, tz=(self.tzinfo if tz is None else tz), fold=self.fold if fold is None else fold,
                    raise_on_unknown_times=False, **e)

    raises = [(exc, label, (lambda self, tz=None, _c=cond, **a: _c(**_set_base._args(self, tz, a))))
              for exc, label, cond in _create_base.raises if exc in (ValueError, OverflowError)]

    def result(F, self, tz=None, **a):
        return _create_base.result(F, **_set_base._args(self, tz, a))

    def ensures(result, self, tz=None, **a):
        return _create_base.ensures(result, **_set_base._args(self, tz, a))


def _set_contract(qualname, params, props):
    cases = {}
    for zname, mk in zone_cases().items():
        for gname, given in (("all_given", params), ("none_given", ())):
            base = _via_create(mk, params, given)

            class case(_set_base, base):
                _zname = zname

                def applies(self, _z=zname, _g=given, tz=None, **a):
                    kind = "naive" if self.tzinfo is None else ("fixed" if zones.is_fixed(self.tzinfo) else "zone")
                    return kind == _z and _g == params  # call sites are served by the all_given clauses (they are generic)

            cases[f"{zname}.{gname}"] = case
    ns = type("setter", (), {"cases": cases})
    contract(qualname, props=props)(ns)
    return ns


_set_contract("pendulum.datetime.DateTime.set", _F7, ["C02", "C12", "C16"])

transparent("pendulum.datetime.DateTime.on", "pendulum.datetime.DateTime.at", "pendulum.datetime.DateTime.in_tz",
            why="one-line delegation to a contracted method")


class _replace_base:
    def requires(self, tzinfo=True, fold=None, **a):
        return [("self_zone_is_pendulum_or_naive", self.tzinfo is None or is_ptz(self.tzinfo)),
                ("tzinfo_argument", tzinfo is True or tzinfo is None or is_ptz(tzinfo))]

    @staticmethod
    def _args(self, tzinfo, fold, a):
        e = _eff(self, a)
        tz = self.tzinfo if tzinfo is True else tzinfo
        return dict(cls=self.cls, tz=tz, fold=self.fold if fold is None else fold, raise_on_unknown_times=False, **e)

    raises = [(exc, label, (lambda self, tzinfo=True, fold=None, _c=cond, **a: _c(**_replace_base._args(self, tzinfo, fold, a))))
              for exc, label, cond in _create_base.raises if exc in (ValueError, OverflowError)]

    def result(F, self, tzinfo=True, fold=None, **a):
        return _create_base.result(F, **_replace_base._args(self, tzinfo, fold, a))

    def ensures(result, self, tzinfo=True, fold=None, **a):
        return _create_base.ensures(result, **_replace_base._args(self, tzinfo, fold, a))


def _replace_contract():
    cases = {}
    for zname, mk in zone_cases().items():
        for gname, given in (("all_given", _F7 + ("fold",)), ("none_given", ())):
            class case(_replace_base):
                def applies(self, _z=zname, _g=gname, **a):
                    kind = "naive" if self.tzinfo is None else ("fixed" if zones.is_fixed(self.tzinfo) else "zone")
                    return kind == _z and _g == "all_given"

                def args(F, _mk=mk, _given=given):
                    tz, zc = _mk(F)
                    o, inv = fresh_pdt(F, tz)
                    a = dict(self=o, tzinfo=True)
                    for n in _F7 + ("fold",):
                        a[n] = F.int(n) if n in _given else None
                    return a, [zc, inv]

            cases[f"{zname}.{gname}"] = case

    # dropping / attaching a zone through replace(tzinfo=...)
    class attach(_replace_base):
        def applies(self, **a):
            return False

        def args(F):
            tz, zc = stdlib.fresh_zone(F, Timezone, "tz", k=1)
            o, inv = fresh_pdt(F, None)
            a = dict(self=o, tzinfo=tz)
            for n in _F7 + ("fold",):
                a[n] = None
            return a, [zc, inv]

    cases["attach_zone"] = attach
    ns = type("replace", (), {"cases": cases})
    contract("pendulum.datetime.DateTime.replace", props=["C02", "C01"])(ns)


_replace_contract()


# ========================================================================================== add / subtract (C03, C04)
from contracts.helpers import _add_duration_base, delta_us, has_time

_UNITS = ("years", "months", "weeks", "days", "hours", "minutes", "seconds", "microseconds")


def zone_cases2():
    return {
        "naive": lambda F: (None, True),
        "zone": lambda F: stdlib.fresh_zone(F, Timezone, "tz", k=2),
        "fixed": lambda F: fresh_fixed(F, "tz"),
    }


def _variable(u):
    return Or(ne(u["years"], 0), ne(u["months"], 0), ne(u["weeks"], 0), ne(u["days"], 0))


def add_spec(self, u):
    """(wall', fold') of self.add(**u) and the side condition under which it is representable (C03 + C04)"""
    tz = self.tzinfo
    ty, tmo, w_cal = _add_duration_base._target(self, u)       # calendar arithmetic on the instance's own wall clock
    d = delta_us(u["weeks"], u["days"], u["hours"], u["minutes"], u["seconds"], u["microseconds"])
    if tz is None:
        return w_cal, 1, And(spec.valid_year(ty), stdlib.td_in_range(d), stdlib.in_dt_range(w_cal)), None
    var = _variable(u)
    # fixed-length units only: move the UTC instant by exactly the elapsed amount and render it in the zone
    u0 = zones.instant(self)
    u1 = sym.add(u0, d)
    w_fix, f_fix = zones.render_wall(tz, u1), zones.fold_of(tz, u1)
    # calendar units: wall-clock result, normalised by the construction rules with the default fold
    w_n, f_n = zones.normalised(tz, w_cal, 1)
    if zones.is_fixed(tz):
        f_n = 0
    ok_cal = And(spec.valid_year(ty), stdlib.td_in_range(d), stdlib.in_dt_range(w_cal), stdlib.in_dt_range(w_n))
    ok_fix = And(stdlib.in_dt_range(u0), stdlib.td_in_range(d), stdlib.in_dt_range(u1), stdlib.in_dt_range(w_fix))
    return If(var, w_n, w_fix), If(var, f_n, f_fix), If(var, ok_cal, ok_fix), (var, u1)


class _add_base:
    # used by totality proofs only (C17): past the ends of the calendar add()/subtract() raise ValueError (year out of
    # range, from the constructor) or OverflowError (date value out of range, from timedelta arithmetic)
    options = {"outside_domain_raises": {"result_representable": (ValueError, OverflowError)}}

    def requires(self, **u):
        w, f, ok, _ = add_spec(self, u)
        return [("self_zone_is_pendulum_or_naive", self.tzinfo is None or is_ptz(self.tzinfo)),
                ("result_representable", ok)]

    def result(F, self, **u):
        o, _ = stdlib.fresh_datetime(F, self.cls, "sum", tzinfo=self.tzinfo)
        return o

    def ensures(result, self, **u):
        w, f, ok, extra = add_spec(self, u)
        out = [("valid_fields", stdlib.valid_dt(result)),
               ("class_and_zone_kept", result.cls is self.cls and zones.same_zone(result.tzinfo, self.tzinfo)),
               ("wall_clock", eq(spec.wall_us(result), w)), ("fold", eq(result.fold, f))]
        if extra is not None:
            var, u1 = extra
            out += [("fixed_units_move_the_instant_exactly", Implies(Not(var), eq(zones.instant(result), u1))),
                    ("valid_local_time", zones.is_rendering(result))]
        return out


def _add_args(mk, real_seconds=False, only_fixed=False):
    def args(F):
        tz, zc = mk(F)
        o, inv = fresh_pdt(F, tz)
        a = dict(self=o)
        for n in _UNITS:
            a[n] = 0 if (only_fixed and n in ("years", "months", "weeks", "days")) else F.int(n)
        if real_seconds:
            a["seconds"] = F.real("seconds")
        return a, [zc, inv]

    return args


def _add_cases():
    cases = {}
    for zname, mk in zone_cases2().items():
        class general(_add_base):
            args = _add_args(mk)

            def applies(self, _z=zname, **u):
                kind = "naive" if self.tzinfo is None else ("fixed" if zones.is_fixed(self.tzinfo) else "zone")
                return kind == _z

        class real_seconds(_add_base):
            """+ timedelta goes through add(seconds=<float total_seconds()>)"""
            args = _add_args(mk, real_seconds=True, only_fixed=True)

            def applies(self, **u):
                return False

        cases[f"{zname}"] = general
        cases[f"{zname}.real_seconds"] = real_seconds
    return cases


@contract("pendulum.datetime.DateTime.add", props=["C03", "C04", "C19", "C20", "C16"])
class dt_add:
    cases = _add_cases()


# ---- delegations to add(): subtract, +/- timedelta and Duration ---------------------------------------------
import traceback as _traceback

from contracts import duration as _dur
from pendulum.duration import Duration


def _neg_units(u):
    return {k: sym.neg(v) for k, v in u.items()}


def duration_components(d):
    """years, months, weeks, remaining_days, hours, minutes, remaining_seconds, microseconds of a Duration"""
    return dict(years=d._years, months=d._months, weeks=d._weeks, days=d._remaining_days,
                hours=_dur.hours.value(d), minutes=_dur.minutes.value(d), seconds=_dur.remaining_seconds.value(d),
                microseconds=d._microseconds)


def _delegation(units_of, extra_requires=None):
    """contract clauses of a method that is add() applied to transformed arguments"""

    class base:
        options = _add_base.options

        def requires(self, **a):
            u = units_of(**a)
            r = _add_base.requires(self, **u)
            return r + (extra_requires(self, **a) if extra_requires else [])

        def result(F, self, **a):
            return _add_base.result(F, self, **units_of(**a))

        def ensures(result, self, **a):
            return _add_base.ensures(result, self, **units_of(**a))

    return base


def _zone_kind(self):
    return "naive" if self.tzinfo is None else ("fixed" if zones.is_fixed(self.tzinfo) else "zone")


def _cases_by_zone(base, argmaker, when=None):
    cases = {}
    for zname, mk in zone_cases2().items():
        class case(base):
            args = argmaker(mk)

            def applies(self, _z=zname, _ap=when, **a):
                return _zone_kind(self) == _z and (_ap is None or _ap(self, **a))

        cases[zname] = case
    return cases


@contract("pendulum.datetime.DateTime.subtract", props=["C03", "C04", "C19", "C20", "C16"])
class dt_subtract:
    cases = _cases_by_zone(_delegation(lambda **u: _neg_units(u)), _add_args)


def _with_delta(kind):
    def maker(mk):
        def args(F):
            tz, zc = mk(F)
            o, inv = fresh_pdt(F, tz)
            if kind == "duration":
                d, dinv = _dur.fresh_duration(F, Duration, "delta")
            else:
                d, dinv = stdlib.fresh_td(F, _dt.timedelta, "delta")
            return dict(self=o, delta=d), [zc, inv, dinv]

        return args

    return maker


def _is_duration(x):
    return isinstance(x, Obj) and x.cls is Duration


def _is_plain_td(x):
    return isinstance(x, Obj) and x.cls is _dt.timedelta


def _td_units(us, sign=1):
    z0 = dict(years=0, months=0, weeks=0, days=0, hours=0, minutes=0, microseconds=0)
    z0["seconds"] = sym.truediv(sym.mul(us, sign), M)
    return z0


@contract("pendulum.datetime.DateTime._add_timedelta_", props=["C03", "C04"])
class dt_add_timedelta:
    cases = dict(
        **{f"duration.{k}": v for k, v in _cases_by_zone(_delegation(lambda delta: dict(delta._signature)), _with_delta("duration"),
                                                          when=lambda self, delta: _is_duration(delta)).items()},
        **{f"timedelta.{k}": v for k, v in _cases_by_zone(_delegation(lambda delta: _td_units(delta.us)), _with_delta("timedelta"),
                                                           when=lambda self, delta: _is_plain_td(delta)).items()})


@contract("pendulum.datetime.DateTime._subtract_timedelta", props=["C03", "C04"])
class dt_subtract_timedelta:
    cases = dict(
        **{f"duration.{k}": v for k, v in _cases_by_zone(_delegation(lambda delta: _neg_units(duration_components(delta))), _with_delta("duration"),
                                                          when=lambda self, delta: _is_duration(delta)).items()},
        **{f"timedelta.{k}": v for k, v in _cases_by_zone(_delegation(lambda delta: _td_units(delta.us, -1)), _with_delta("timedelta"),
                                                           when=lambda self, delta: _is_plain_td(delta)).items()})


def _with_other(kind):
    def maker(mk):
        inner = _with_delta(kind)(mk)

        def args(F):
            a, assumptions = inner(F)
            a["other"] = a.pop("delta")
            return a, assumptions

        return args

    return maker


@contract("pendulum.datetime.DateTime.__add__", props=["C03", "C04"])
class dt___add__:
    cases = dict(
        **{f"duration.{k}": v for k, v in _cases_by_zone(_delegation(lambda other: dict(other._signature)), _with_other("duration"),
                                                          when=lambda self, other: _is_duration(other)).items()},
        **{f"timedelta.{k}": v for k, v in _cases_by_zone(_delegation(lambda other: _td_units(other.us)), _with_other("timedelta"),
                                                           when=lambda self, other: _is_plain_td(other)).items()})

transparent("pendulum.datetime.DateTime.__radd__", why="one-line delegation to __add__")


@contract("pendulum.datetime.DateTime.__sub__", props=["C03", "C04", "C05"])
class dt___sub__:
    cases = dict(
        **{f"duration.{k}": v for k, v in _cases_by_zone(_delegation(lambda other: _neg_units(duration_components(other))), _with_other("duration"),
                                                          when=lambda self, other: _is_duration(other)).items()},
        **{f"timedelta.{k}": v for k, v in _cases_by_zone(_delegation(lambda other: _td_units(other.us, -1)), _with_other("timedelta"),
                                                           when=lambda self, other: _is_plain_td(other)).items()})


# ========================================================================================== conversion (C01)
from contracts import tz as _tzc


def rendering_clauses(result, tz, u, cls):
    return [("valid_fields", stdlib.valid_dt(result)),
            ("class_and_requested_zone", result.cls is cls and zones.same_zone(result.tzinfo, tz)),
            ("same_instant", eq(zones.instant(result), u)),
            ("fields_are_the_zone_rendering", eq(spec.wall_us(result), zones.render_wall(tz, u))),
            ("offset_is_the_zone_offset", eq(zones.offset_of(result), zones.off_utc(tz, u)))]


def _conv_overflow(tz, u):
    return Or(Not(stdlib.in_dt_range(u)), Not(stdlib.in_dt_range(zones.render_wall(tz, u))))


def _src_dst_cases(build):
    """source zone kind x target zone kind"""
    kinds = {"zone": lambda F, h: stdlib.fresh_zone(F, Timezone, h, k=1), "fixed": lambda F, h: fresh_fixed(F, h)}
    cases = {}
    for sn, smk in kinds.items():
        for dn, dmk in kinds.items():
            cases[f"{sn}_to_{dn}"] = build(smk, dmk, sn, dn)
    return cases


def _astimezone_case(smk, dmk, sn, dn):
    class case:
        def applies(self, tz, _s=sn, _d=dn):
            return (is_aware_dt(self) and is_ptz(tz) and _zone_kind(self) == _s and ("fixed" if zones.is_fixed(tz) else "zone") == _d)

        def args(F):
            src, sc = smk(F, "src")
            dst, dc = dmk(F, "dst")
            o, inv = fresh_pdt(F, src)
            return dict(self=o, tz=dst), [sc, dc, inv]

        raises = [(OverflowError, "out_of_range", lambda self, tz: _conv_overflow(tz, zones.instant(self)))]

        def result(F, self, tz):
            o, _ = stdlib.fresh_datetime(F, self.cls, "conv", tzinfo=tz)
            return o

        def ensures(result, self, tz):
            u = zones.instant(self)
            return rendering_clauses(result, tz, u, self.cls) + [("fold", eq(result.fold, zones.fold_of(tz, u)))]

    return case


@contract("pendulum.datetime.DateTime.astimezone", props=["C01", "C11"])
class dt_astimezone:
    cases = _src_dst_cases(_astimezone_case)


def _in_timezone_case(smk, dmk, sn, dn):
    base = _astimezone_case(smk, dmk, sn, dn)

    class case(base):
        def applies(self, tz, _s=sn, _d=dn):
            return base.applies(self, tz)

    return case


@contract("pendulum.datetime.DateTime.in_timezone", props=["C01"])
class dt_in_timezone:
    cases = _src_dst_cases(_in_timezone_case)


@contract("pendulum.datetime.DateTime.int_timestamp", props=["C01"])
class dt_int_timestamp:
    def _case(mk):
        class case:
            def args(F):
                tz, zc = mk(F, "tz")
                o, inv = fresh_pdt(F, tz)
                return dict(self=o), [zc, inv]

            def value(self):
                return sym.fdiv(sym.sub(zones.instant(self), EPOCH_W), M)

        return case

    cases = {"zone": _case(lambda F, h: stdlib.fresh_zone(F, Timezone, h, k=1)), "fixed": _case(lambda F, h: fresh_fixed(F, h))}


EPOCH_W = spec.wall_us_f(1970, 1, 1, 0, 0, 0, 0)


@contract("pendulum.from_timestamp", props=["C01"])
class from_timestamp:
    def _case(mk):
        class case:
            def applies(timestamp, tz):
                return sym.is_intlike(timestamp) and is_ptz(tz)

            def args(F):
                tz, zc = mk(F, "tz")
                return dict(timestamp=F.int("timestamp"), tz=tz), [zc]

            def requires(timestamp, tz):
                u = sym.add(EPOCH_W, sym.mul(timestamp, M))
                return [("representable", And(stdlib.in_dt_range(u), stdlib.in_dt_range(zones.render_wall(tz, u))))]

            def result(F, timestamp, tz):
                o, _ = stdlib.fresh_datetime(F, DateTime, "fromts", tzinfo=tz)
                return o

            def ensures(result, timestamp, tz):
                u = sym.add(EPOCH_W, sym.mul(timestamp, M))
                return rendering_clauses(result, tz, u, DateTime)

        return case

    cases = {"zone": _case(lambda F, h: stdlib.fresh_zone(F, Timezone, h, k=1)), "fixed": _case(lambda F, h: fresh_fixed(F, h))}


import zoneinfo as _zi


def _foreign_kinds():
    def pend(F):
        return stdlib.fresh_zone(F, Timezone, "src", k=1)

    def zinfo(F):
        return stdlib.fresh_zone(F, _zi.ZoneInfo, "src", k=1)

    def fixed_native(F):
        off = F.int("src_off")
        return Obj(_dt.timezone, off=off), And(gt(off, -D), lt(off, D))

    return {"pendulum_zone": pend, "zoneinfo": zinfo, "datetime_timezone": fixed_native}


def _offset_of_any(dt):
    tz = dt.tzinfo
    if isinstance(tz, Obj) and tz.cls is _dt.timezone:
        return tz.off
    return zones.offset_of(dt)


def _instant_any(dt):
    return sym.sub(spec.wall_us(dt), sym.mul(_offset_of_any(dt), M))


def _instance_case(kind, mk):
    class case:
        def applies(cls, dt, tz=None, _k=kind):
            t = dt.f.get("tzinfo") if isinstance(dt, Obj) else None
            if t is None:
                return False
            k = "datetime_timezone" if t.cls is _dt.timezone else ("pendulum_zone" if issubclass(t.cls, Timezone) else ("zoneinfo" if issubclass(t.cls, _zi.ZoneInfo) else None))
            return k == _k

        def args(F):
            src, sc = mk(F)
            dt, dc = stdlib.fresh_datetime(F, _dt.datetime, "dt", tzinfo=src)
            return dict(cls=DateTime, dt=dt, tz=None), [sc, dc]

        def requires(cls, dt, tz):
            # the quantifier of C01 ranges over instants: the aware input is the rendering of its instant
            r = [("valid_input", stdlib.valid_dt(dt))]
            if dt.tzinfo.cls is not _dt.timezone:
                r.append(("input_is_a_rendering_with_pep495_fold", And(zones.is_rendering(dt), eq(dt.fold, zones.fold_of(dt.tzinfo, zones.instant(dt))))))
            return r

        def result(F, cls, dt, tz):
            o, _ = stdlib.fresh_datetime(F, cls, "inst", tzinfo=None)
            if dt.tzinfo.cls is _dt.timezone:
                z_ = stdlib.fixed_zone(FixedTimezone, dt.tzinfo.off, None)
            elif issubclass(dt.tzinfo.cls, Timezone):
                z_ = dt.tzinfo
            else:
                z_ = Obj(Timezone, key=dt.tzinfo.key, T=dt.tzinfo.T, o=dt.tzinfo.o)
            return o.with_fields(tzinfo=z_)

        def ensures(result, cls, dt, tz):
            u = _instant_any(dt)
            out = [("valid_fields", stdlib.valid_dt(result)), ("class", result.cls is cls),
                   ("same_instant", eq(zones.instant(result), u)), ("same_fields", eq(spec.wall_us(result), spec.wall_us(dt))),
                   ("same_offset", eq(zones.offset_of(result), _offset_of_any(dt)))]
            if dt.tzinfo.cls is _dt.timezone:
                if zones.is_fixed(result.tzinfo):
                    out.append(("offset_value", eq(result.tzinfo._offset, dt.tzinfo.off)))
                else:
                    # a zero offset named "UTC" becomes pendulum's UTC zone
                    out.append(("utc_for_zero_offset", And(eq(dt.tzinfo.off, 0), result.tzinfo.key == "UTC")))
            else:
                out.append(("same_zone_name", result.tzinfo.key is dt.tzinfo.key))
            return out

    return case


@contract("pendulum.datetime.DateTime.instance", props=["C01", "C05"])
class dt_instance:
    cases = {k: _instance_case(k, mk) for k, mk in _foreign_kinds().items()}


# ========================================================================================== start_of / end_of (C12)
import z3 as _z3

WEEK_START = _z3.Int("cfg_week_starts_at")   # pendulum._WEEK_STARTS_AT (process-wide setting: a symbolic parameter)
WEEK_END = _z3.Int("cfg_week_ends_at")
WEEK_CFG = And(sym.between(0, WEEK_START, 6), sym.between(0, WEEK_END, 6))
UNITS = ("second", "minute", "hour", "day", "week", "month", "year", "decade", "century")


def boundary_wall(x, unit, start):
    """wall clock of the first (last) microsecond of the calendar unit that contains x's wall-clock fields"""
    y, mo, d, h, mi, s, us = x.year, x.month, x.day, x.hour, x.minute, x.second, x.microsecond
    lo = start
    if unit == "second":
        return spec.wall_us_f(y, mo, d, h, mi, s, 0 if lo else M - 1)
    if unit == "minute":
        return spec.wall_us_f(y, mo, d, h, mi, 0 if lo else 59, 0 if lo else M - 1)
    if unit == "hour":
        return spec.wall_us_f(y, mo, d, h, 0 if lo else 59, 0 if lo else 59, 0 if lo else M - 1)
    t = (0, 0, 0, 0) if lo else (23, 59, 59, M - 1)
    if unit == "day":
        return spec.wall_us_f(y, mo, d, *t)
    if unit == "week":
        wd = spec.weekday0(y, mo, d)
        o = spec.ordinal(y, mo, d)
        o2 = sym.sub(o, sym.fmod(sym.sub(wd, WEEK_START), 7)) if lo else sym.add(o, sym.fmod(sym.sub(WEEK_END, wd), 7))
        return sym.add(sym.mul(o2, DUS), spec.tod_us(*t))
    if unit == "month":
        return spec.wall_us_f(y, mo, 1 if lo else spec.dim(y, mo), *t)
    if unit == "year":
        return spec.wall_us_f(y, 1 if lo else 12, 1 if lo else 31, *t)
    if unit == "decade":
        y0 = sym.sub(y, sym.fmod(y, 10))
        return spec.wall_us_f(y0 if lo else sym.add(y0, 9), 1 if lo else 12, 1 if lo else 31, *t)
    if unit == "century":
        y0 = sym.add(sym.sub(sym.sub(y, 1), sym.fmod(sym.sub(y, 1), 100)), 1)
        return spec.wall_us_f(y0 if lo else sym.add(y0, 99), 1 if lo else 12, 1 if lo else 31, *t)
    raise ValueError(unit)


def _bound_contract(qualname, start):
    def mkcase(unit, zname, mk):
        class case:
            def applies(self, unit, _u=unit, _z=zname):
                return is_pdt(self) and unit == _u and _zone_kind(self) == _z

            def args(F):
                tz, zc = mk(F)
                o, inv = fresh_pdt(F, tz)
                return dict(self=o, unit=unit), [zc, inv, WEEK_CFG]

            def requires(self, unit):
                w = boundary_wall(self, unit, start)
                r = [("boundary_representable", stdlib.in_dt_range(w))]
                if unit == "week":
                    r.append(("a_week_away_from_the_calendar_ends", sym.between(10, spec.date_ord(self), spec.MAXORD - 10)))
                if self.tzinfo is not None:
                    r.append(("normalised_boundary_representable", stdlib.in_dt_range(zones.normalised(self.tzinfo, w, self.fold)[0])))
                return r

            def result(F, self, unit):
                o, _ = stdlib.fresh_datetime(F, self.cls, "bound", tzinfo=self.tzinfo)
                return o

            def ensures(result, self, unit):
                w = boundary_wall(self, unit, start)
                out = [("valid_fields", stdlib.valid_dt(result)), ("class_and_zone_kept", result.cls is self.cls and zones.same_zone(result.tzinfo, self.tzinfo))]
                if self.tzinfo is None:
                    return out + [("boundary_of_the_unit", eq(spec.wall_us(result), w))]
                w2, f2 = zones.normalised(self.tzinfo, w, self.fold)
                return out + [("boundary_of_the_unit_normalised_with_the_instance_fold", eq(spec.wall_us(result), w2)),
                              ("valid_local_time", zones.is_rendering(result))]

        return case

    cases = {}
    for unit in UNITS:
        for zname, mk in zone_cases().items():
            if unit == "week" and zname == "zone":
                continue  # goes through previous()/next(): proved for naive and fixed offsets, bounded for zones
            cases[f"{unit}.{zname}"] = mkcase(unit, zname, mk)
    ns = type("bound", (), {"cases": cases})
    contract(qualname, props=["C12", "C16"])(ns)


def is_pdt(x):
    return isinstance(x, Obj) and issubclass(x.cls, DateTime)


_bound_contract("pendulum.datetime.DateTime.start_of", True)
_bound_contract("pendulum.datetime.DateTime.end_of", False)

transparent(*[f"pendulum.datetime.DateTime._{p}_of_{u}" for p in ("start", "end") for u in UNITS],
            why="one-line helper of start_of/end_of: its real body is re-executed inside the contracted dispatcher")


# ========================================================================================== weekday navigation on DateTime (C16)
from contracts.date import dist_next, dist_prev


def _dt_nav_contract(qualname, sign):
    dist = dist_next if sign > 0 else dist_prev

    def tod(x):
        return spec.tod_us(x.hour, x.minute, x.second, x.microsecond)

    def _inv(e, en, a):
        j = sym.mul(sym.sub(spec.date_ord(e.dt), spec.date_ord(a.self)), sign)
        keep = a.keep_time
        return [("steps", And(ge(j, 1), le(j, dist(a.self, e.day_of_week)))), ("valid", stdlib.valid_dt(e.dt)),
                ("weekday_argument", And(eq(e.day_of_week, a.day_of_week), sym.between(0, e.day_of_week, 6))),
                ("time_of_day", eq(tod(e.dt), If(keep, tod(a.self), 0))),
                ("class_and_zone", e.dt.cls is a.self.cls and zones.same_zone(e.dt.tzinfo, a.self.tzinfo))]

    def mkcase(zname, mk):
        class case:
            def applies(self, day_of_week=None, keep_time=False, _z=zname):
                return is_pdt(self) and day_of_week is not None and _zone_kind(self) == _z

            def args(F):
                tz, zc = mk(F)
                o, inv = fresh_pdt(F, tz)
                return dict(self=o, day_of_week=F.int("day_of_week"), keep_time=F.bool("keep_time")), [zc, inv]

            def requires(self, day_of_week, keep_time):
                o = sym.add(spec.date_ord(self), sym.mul(8, sign))
                return [("within_the_calendar", And(ge(o, 2), le(o, spec.MAXORD - 1)))]

            raises = [(ValueError, "invalid_weekday", lambda self, day_of_week, keep_time: Not(sym.between(0, day_of_week, 6)))]

            def result(F, self, day_of_week, keep_time):
                o, _ = stdlib.fresh_datetime(F, self.cls, "nav", tzinfo=self.tzinfo)
                return o

            def ensures(result, self, day_of_week, keep_time):
                return [("valid_fields", stdlib.valid_dt(result)), ("class_and_zone_kept", result.cls is self.cls and zones.same_zone(result.tzinfo, self.tzinfo)),
                        ("falls_on_the_weekday", eq(spec.weekday0(result.year, result.month, result.day), day_of_week)),
                        ("nearest_strictly_later_or_earlier_1_to_7_days", eq(spec.date_ord(result), sym.add(spec.date_ord(self), sym.mul(dist(self, day_of_week), sign)))),
                        ("at_midnight_unless_keep_time", eq(tod(result), If(keep_time, tod(self), 0)))]

            loops = {0: Loop(_inv, variant=lambda e, en, a: sym.sub(dist(a.self, e.day_of_week), sym.mul(sym.sub(spec.date_ord(e.dt), spec.date_ord(a.self)), sign)))}

        return case

    cases = {z_: mkcase(z_, mk) for z_, mk in zone_cases().items() if z_ in ("naive", "fixed")}
    ns = type("nav", (), {"cases": cases})
    contract(qualname, props=["C16", "C12"])(ns)


_dt_nav_contract("pendulum.datetime.DateTime.next", 1)
_dt_nav_contract("pendulum.datetime.DateTime.previous", -1)
