"""Sidecar contracts for pendulum/_helpers.py and pendulum/helpers.py (calendar primitives, C15;
add_duration, C03/C04; precise_diff, C06)."""
from pyvc import spec, sym
from pyvc.contract import Loop, contract, transparent
from pyvc.spec import D, E0
from pyvc.sym import And, If, Implies, Not, Or, b2i, eq, ge, gt, le, lt, ne


@contract("pendulum._helpers.is_leap", props=["C15", "C04", "C06"])
class is_leap:
    def args(F):
        return dict(year=F.int("year"))

    # total on all integers (callers pass out-of-range years before the range check)
    def value(year):
        return spec.leap(year)


@contract("pendulum._helpers.is_long_year", props=["C15"])
class is_long_year:
    def args(F):
        return dict(year=F.int("year"))

    def requires(year):
        return [("year_range", spec.valid_year(year))]

    def value(year):
        return spec.iso_long_year(year)


@contract("pendulum._helpers.week_day", props=["C15"])
class week_day:
    def args(F):
        return dict(year=F.int("year"), month=F.int("month"), day=F.int("day"))

    def requires(year, month, day):
        return [("valid_date", spec.valid_date(year, month, day))]

    def value(year, month, day):
        return spec.iso_weekday(year, month, day)


@contract("pendulum._helpers.days_in_year", props=["C15"])
class days_in_year:
    def args(F):
        return dict(year=F.int("year"))

    def value(year):
        return spec.diy(year)


@contract("pendulum._helpers._day_number", props=["C06", "C15"])
class _day_number:
    def args(F):
        return dict(year=F.int("year"), month=F.int("month"), day=F.int("day"))

    def requires(year, month, day):
        return [("month_range", sym.between(1, month, 12))]

    # only differences of day numbers are used: ordinal + a constant
    def value(year, month, day):
        return sym.add(spec.ordinal(year, month, day), 305)


def since(y):
    """seconds from the epoch to 1 January of year y"""
    return sym.mul(sym.sub(spec.dby(y), spec.dby(1970)), D)


S100 = (3155673600, 3155760000)
S4 = (126144000, 126230400)
S1 = (31536000, 31622400)
MO = ((-1, 0, 31, 59, 90, 120, 151, 181, 212, 243, 273, 304, 334, 365),
      (-1, 0, 31, 60, 91, 121, 152, 182, 213, 244, 274, 305, 335, 366))


def _T0(a):
    return sym.add(sym.floor(a.unix_time), a.utc_offset)


def _inv100(e, en, a):
    Y, y, s, lp = en.year, e.year, e.seconds, e.leap_year
    return [("aligned", eq(sym.fmod(Y, 400), 0)),
            ("steps", And(ge(y, Y), le(y, sym.add(Y, 300)), eq(sym.fmod(sym.sub(y, Y), 100), 0))),
            ("leap_flag", eq(lp, If(eq(y, Y), 1, 0))),
            ("chunk", eq(e.sec_per_100years, sym.sel(S100, lp))),
            ("instant", eq(sym.add(since(y), s), _T0(a))),
            ("remaining", And(ge(s, 0), lt(s, sym.sub(since(sym.add(Y, 400)), since(y)))))]


def _inv4(e, en, a):
    C, y, s, lp = en.year, e.year, e.seconds, e.leap_year
    return [("aligned", eq(sym.fmod(C, 100), 0)),
            ("steps", And(ge(y, C), le(y, sym.add(C, 96)), eq(sym.fmod(sym.sub(y, C), 4), 0))),
            ("leap_flag", eq(lp, b2i(spec.leap(y)))),
            ("chunk", eq(e.sec_per_4years, sym.sel(S4, lp))),
            ("instant", eq(sym.add(since(y), s), _T0(a))),
            ("remaining", And(ge(s, 0), lt(s, sym.sub(since(sym.add(C, 100)), since(y)))))]


def _inv1(e, en, a):
    Q, y, s, lp = en.year, e.year, e.seconds, e.leap_year
    return [("aligned", eq(sym.fmod(Q, 4), 0)),
            ("steps", And(ge(y, Q), le(y, sym.add(Q, 3)))),
            ("leap_flag", eq(lp, b2i(spec.leap(y)))),
            ("chunk", eq(e.sec_per_year, sym.sel(S1, lp))),
            ("instant", eq(sym.add(since(y), s), _T0(a))),
            ("remaining", And(ge(s, 0), lt(s, sym.sub(since(sym.add(Q, 4)), since(y)))))]


def _invmonth(e, en, a):
    mth, d, lp = e.month, e.day, e.leap_year
    upper = If(eq(lp, 0), sym.sel(MO[0], sym.add(mth, 1)), sym.sel(MO[1], sym.add(mth, 1)))
    return [("month_range", And(ge(mth, 1), le(mth, 12))),
            ("day_is_doy", And(eq(d, en.day), ge(d, 1), le(d, upper))),
            ("flag", Or(eq(lp, 0), eq(lp, 1)))]


@contract("pendulum._helpers.local_time", props=["C15", "C01"])
class local_time:
    def args(F):
        return dict(unix_time=F.int("unix_time"), utc_offset=F.int("utc_offset"), microseconds=F.int("microseconds"))

    def requires(unix_time, utc_offset, microseconds):
        T0 = sym.add(sym.floor(unix_time), utc_offset)
        return [("offset_range", And(gt(utc_offset, -D), lt(utc_offset, D))),
                # the local instant lies in years 1..9999
                ("range", And(ge(T0, -62135596800), le(T0, 253402300799)))]

    def result(F, **a):
        return tuple(F.int(n) for n in ("lt_y", "lt_mo", "lt_d", "lt_h", "lt_mi", "lt_s", "lt_us"))

    def ensures(result, unix_time, utc_offset, microseconds):
        y, mo, d, h, mi, s, us = result
        T0 = sym.add(sym.floor(unix_time), utc_offset)
        return [("valid_date", spec.valid_date(y, mo, d)),
                ("valid_time", And(sym.between(0, h, 23), sym.between(0, mi, 59), sym.between(0, s, 59))),
                ("instant", eq(sym.add(sym.mul(sym.sub(spec.ordinal(y, mo, d), E0), D), spec.tod_s(h, mi, s)), T0)),
                ("microseconds", eq(us, microseconds))]

    loops = {
        0: Loop(_inv100, variant=lambda e, en, a: sym.sub(sym.add(en.year, 300), e.year)),
        1: Loop(_inv4, variant=lambda e, en, a: sym.sub(sym.add(en.year, 96), e.year)),
        2: Loop(_inv1, variant=lambda e, en, a: sym.sub(sym.add(en.year, 3), e.year)),
        3: Loop(_invmonth, variant=lambda e, en, a: e.month),
    }
