"""Sidecar contracts for pendulum/_helpers.py and pendulum/helpers.py (calendar primitives, C15;
add_duration, C03/C04; precise_diff, C06)."""
from pyvc import spec, sym
from pyvc.contract import Cut, Loop, contract, transparent
from pyvc.spec import D, E0
from pyvc.sym import And, If, Implies, Not, Or, b2i, eq, ge, gt, le, lt, ne


@contract("pendulum._helpers.is_leap", props=["C15", "C04", "C06"])
class is_leap:
    def args(F):
        return dict(year=F.int("year"))

    # total on all integers (callers pass out-of-range years before the range check)
    def value(year):
        return spec.leap(year)


@contract("pendulum._helpers.is_long_year", props=["C15"])
class is_long_year:
    def args(F):
        return dict(year=F.int("year"))

    # total on ints (the parser calls it before any range check): the proleptic rule, for every integer year
    def value(year):
        return spec.iso_long_year(year)


@contract("pendulum._helpers.week_day", props=["C15"])
class week_day:
    def args(F):
        return dict(year=F.int("year"), month=F.int("month"), day=F.int("day"))

    # total on ints with month in 1..12 (table look-up): the proleptic rule for every integer year and day
    def requires(year, month, day):
        return [("month_in_table", sym.between(1, month, 12))]

    def value(year, month, day):
        return spec.iso_weekday(year, month, day)


@contract("pendulum._helpers.days_in_year", props=["C15"])
class days_in_year:
    def args(F):
        return dict(year=F.int("year"))

    def value(year):
        return spec.diy(year)


@contract("pendulum._helpers._day_number", props=["C06", "C15"])
class _day_number:
    def args(F):
        return dict(year=F.int("year"), month=F.int("month"), day=F.int("day"))

    def requires(year, month, day):
        return [("month_range", sym.between(1, month, 12))]

    # only differences of day numbers are used: ordinal + a constant
    def value(year, month, day):
        return sym.add(spec.ordinal(year, month, day), 305)


def since(y):
    """seconds from the epoch to 1 January of year y"""
    return sym.mul(sym.sub(spec.dby(y), spec.dby(1970)), D)


S100 = (3155673600, 3155760000)
S4 = (126144000, 126230400)
S1 = (31536000, 31622400)
MO = ((-1, 0, 31, 59, 90, 120, 151, 181, 212, 243, 273, 304, 334, 365),
      (-1, 0, 31, 60, 91, 121, 152, 182, 213, 244, 274, 305, 335, 366))


def _T0(a):
    return sym.add(sym.floor(a.unix_time), a.utc_offset)


def _inv100(e, en, a):
    Y, y, s, lp = en.year, e.year, e.seconds, e.leap_year
    return [("aligned", eq(sym.fmod(Y, 400), 0)),
            ("steps", And(ge(y, Y), le(y, sym.add(Y, 300)), eq(sym.fmod(sym.sub(y, Y), 100), 0))),
            ("leap_flag", eq(lp, If(eq(y, Y), 1, 0))),
            ("chunk", eq(e.sec_per_100years, sym.sel(S100, lp))),
            ("instant", eq(sym.add(since(y), s), _T0(a))),
            ("remaining", And(ge(s, 0), lt(s, sym.sub(since(sym.add(Y, 400)), since(y)))))]


def _inv4(e, en, a):
    C, y, s, lp = en.year, e.year, e.seconds, e.leap_year
    return [("aligned", eq(sym.fmod(C, 100), 0)),
            ("steps", And(ge(y, C), le(y, sym.add(C, 96)), eq(sym.fmod(sym.sub(y, C), 4), 0))),
            ("leap_flag", eq(lp, b2i(spec.leap(y)))),
            ("chunk", eq(e.sec_per_4years, sym.sel(S4, lp))),
            ("instant", eq(sym.add(since(y), s), _T0(a))),
            ("remaining", And(ge(s, 0), lt(s, sym.sub(since(sym.add(C, 100)), since(y)))))]


def _inv1(e, en, a):
    Q, y, s, lp = en.year, e.year, e.seconds, e.leap_year
    return [("aligned", eq(sym.fmod(Q, 4), 0)),
            ("steps", And(ge(y, Q), le(y, sym.add(Q, 3)))),
            ("leap_flag", eq(lp, b2i(spec.leap(y)))),
            ("chunk", eq(e.sec_per_year, sym.sel(S1, lp))),
            ("instant", eq(sym.add(since(y), s), _T0(a))),
            ("remaining", And(ge(s, 0), lt(s, sym.sub(since(sym.add(Q, 4)), since(y)))))]


def _invmonth(e, en, a):
    mth, d, lp = e.month, e.day, e.leap_year
    upper = If(eq(lp, 0), sym.sel(MO[0], sym.add(mth, 1)), sym.sel(MO[1], sym.add(mth, 1)))
    return [("month_range", And(ge(mth, 1), le(mth, 12))),
            ("day_is_doy", And(eq(d, en.day), ge(d, 1), le(d, upper))),
            ("flag", Or(eq(lp, 0), eq(lp, 1)))]


@contract("pendulum._helpers.local_time", props=["C15", "C01"])
class local_time:
    def args(F):
        return dict(unix_time=F.int("unix_time"), utc_offset=F.int("utc_offset"), microseconds=F.int("microseconds"))

    def requires(unix_time, utc_offset, microseconds):
        T0 = sym.add(sym.floor(unix_time), utc_offset)
        return [("offset_range", And(gt(utc_offset, -D), lt(utc_offset, D))),
                # the local instant lies in years 1..9999
                ("range", And(ge(T0, -62135596800), le(T0, 253402300799)))]

    def result(F, **a):
        return tuple(F.int(n) for n in ("lt_y", "lt_mo", "lt_d", "lt_h", "lt_mi", "lt_s", "lt_us"))

    def ensures(result, unix_time, utc_offset, microseconds):
        y, mo, d, h, mi, s, us = result
        T0 = sym.add(sym.floor(unix_time), utc_offset)
        return [("valid_date", spec.valid_date(y, mo, d)),
                ("valid_time", And(sym.between(0, h, 23), sym.between(0, mi, 59), sym.between(0, s, 59))),
                ("instant", eq(sym.add(sym.mul(sym.sub(spec.ordinal(y, mo, d), E0), D), spec.tod_s(h, mi, s)), T0)),
                ("microseconds", eq(us, microseconds))]

    loops = {
        0: Loop(_inv100, variant=lambda e, en, a: sym.sub(sym.add(en.year, 300), e.year)),
        1: Loop(_inv4, variant=lambda e, en, a: sym.sub(sym.add(en.year, 96), e.year)),
        2: Loop(_inv1, variant=lambda e, en, a: sym.sub(sym.add(en.year, 3), e.year)),
        3: Loop(_invmonth, variant=lambda e, en, a: e.month),
    }


# ========================================================================================== add_duration (C03, C04)
import datetime as _dt

from pyvc import stdlib
from pyvc.engine import Obj
from pyvc.spec import DUS, M

_UNITS = ("years", "months", "weeks", "days", "hours", "minutes", "seconds", "microseconds")


def delta_us(weeks, days, hours, minutes, seconds, microseconds):
    """elapsed microseconds of the non-calendar part (exact; a float `seconds` is rounded half-even by timedelta)"""
    tot = sym.add(sym.mul(sym.add(sym.mul(weeks, 7), days), DUS),
                  sym.add(sym.mul(sym.add(sym.add(sym.mul(hours, 3600), sym.mul(minutes, 60)), seconds), M), microseconds))
    return sym.rhe(tot) if sym.is_reallike(tot) else tot


def shifted_ym(year, month, years, months):
    """(target year, target month) of the calendar shift, as terms"""
    total = sym.add(sym.add(sym.mul(year, 12), sym.sub(month, 1)), sym.add(sym.mul(years, 12), months))
    return sym.fdiv(total, 12), sym.add(sym.fmod(total, 12), 1)


def _is_zero(x):
    return not sym.is_sym(x) and x == 0


def clamp_day(ty, tmo, day):
    return sym.minv(day, spec.dim(ty, tmo))


def has_time(dt):
    return isinstance(dt, Obj) and issubclass(dt.cls, _dt.datetime)


def base_wall(dt, ty, tmo):
    d = clamp_day(ty, tmo, dt.day)
    if has_time(dt):
        return spec.wall_us_f(ty, tmo, d, dt.hour, dt.minute, dt.second, dt.microsecond)
    return sym.mul(spec.ordinal(ty, tmo, d), DUS)


def obj_wall(o):
    return spec.wall_us(o) if has_time(o) else sym.mul(spec.date_ord(o), DUS)


def _normalised(e, en, a):
    """cut assertion after the carry normalisation: the elapsed total and the month total are unchanged"""
    before = delta_exact(a.weeks, a.days, a.hours, a.minutes, a.seconds, a.microseconds)
    after = delta_exact(0, e.days, e.hours, e.minutes, e.seconds, e.microseconds)
    return [("elapsed_total_unchanged", eq(after, before)),
            ("month_total_unchanged", eq(sym.add(sym.mul(e.years, 12), e.months), sym.add(sym.mul(a.years, 12), a.months))),
            ("months_within_a_year", And(ge(e.months, -11), le(e.months, 11))),
            # with a float `seconds` the carries make minutes/hours/days floats too - but integral ones
            ("carried_units_are_integral", And(*[_integral(getattr(e, n)) for n in ("days", "hours", "minutes")])),
            ("integer_units_stay_integers", all(sym.is_intlike(getattr(e, n)) for n in ("microseconds", "years", "months"))),
            # a plain date reaches this point only without time units (otherwise RuntimeError was raised above)
            ("date_has_no_time_units", True if has_time(a.dt) else And(eq(a.hours, 0), eq(a.minutes, 0), eq(a.seconds, 0), eq(a.microseconds, 0)))]


def _integral(x):
    if sym.is_intlike(x):
        return True
    return eq(x, sym.toreal(sym.floor(x)))


def delta_exact(weeks, days, hours, minutes, seconds, microseconds):
    return sym.add(sym.mul(sym.add(sym.mul(weeks, 7), days), DUS),
                   sym.add(sym.mul(sym.add(sym.add(sym.mul(hours, 3600), sym.mul(minutes, 60)), seconds), M), microseconds))


class _add_duration_base:
    """C04: shift years and months, clamp the day to the target month, then add weeks/days/time on the calendar"""
    cuts = [Cut("year = dt.year + years", _normalised, name="normalised")]

    def requires(dt, **u):
        return [("valid_input", stdlib.valid_dt(dt) if has_time(dt) else spec.valid_date(dt.year, dt.month, dt.day)),
                ("naive_native_input", dt.f.get("tzinfo") is None)]

    @staticmethod
    def _target(dt, u):
        if _is_zero(u["years"]) and _is_zero(u["months"]):
            # no calendar shift: the value's own wall clock (its day is valid for its own month: no clamping)
            w0 = obj_wall(dt)
            return dt.year, dt.month, sym.add(w0, delta_us(u["weeks"], u["days"], u["hours"], u["minutes"], u["seconds"], u["microseconds"]))
        ty, tmo = shifted_ym(dt.year, dt.month, u["years"], u["months"])
        w = sym.add(base_wall(dt, ty, tmo), delta_us(u["weeks"], u["days"], u["hours"], u["minutes"], u["seconds"], u["microseconds"]))
        return ty, tmo, w

    raises = [
        (RuntimeError, "time_units_on_a_date", lambda dt, **u:
            And(not has_time(dt), Or(ne(u["hours"], 0), ne(u["minutes"], 0), ne(u["seconds"], 0), ne(u["microseconds"], 0)))),
        (ValueError, "target_year_out_of_range", lambda dt, **u:
            And(Or(has_time(dt), And(eq(u["hours"], 0), eq(u["minutes"], 0), eq(u["seconds"], 0), eq(u["microseconds"], 0))),
                Not(spec.valid_year(_add_duration_base._target(dt, u)[0])))),
        (OverflowError, "result_out_of_range", lambda dt, **u:
            And(Or(has_time(dt), And(eq(u["hours"], 0), eq(u["minutes"], 0), eq(u["seconds"], 0), eq(u["microseconds"], 0))),
                spec.valid_year(_add_duration_base._target(dt, u)[0]),
                Or(Not(stdlib.td_in_range(delta_us(u["weeks"], u["days"], u["hours"], u["minutes"], u["seconds"], u["microseconds"]))),
                   Not(_in_range(dt, _add_duration_base._target(dt, u)[2]))))),
    ]

    def result(F, dt, **u):
        if has_time(dt):
            o, _ = stdlib.fresh_datetime(F, dt.cls, "added", tzinfo=None, fold=0)
        else:
            o, _ = stdlib.fresh_date(F, dt.cls, "added")
        return o

    def ensures(result, dt, **u):
        ty, tmo, w = _add_duration_base._target(dt, u)
        valid = stdlib.valid_dt(result) if has_time(dt) else spec.valid_date(result.year, result.month, result.day)
        if has_time(dt):
            pos = eq(spec.wall_us(result), w)
        else:
            # a date moves by whole days: date + timedelta uses the day count of the delta
            pos = eq(spec.date_ord(result), sym.fdiv(w, DUS))
        return [("valid_fields", valid), ("class", result.cls is dt.cls), ("calendar_shift_clamp_then_elapsed", pos)]

    def assume(F, result, dt, **u):
        # the same relation with the month shift stated multiplicatively (fresh ty, tmo) instead of // and % 12
        ty, tmo = F.int("ty"), F.int("tmo")
        total = sym.add(sym.add(sym.mul(dt.year, 12), sym.sub(dt.month, 1)), sym.add(sym.mul(u["years"], 12), u["months"]))
        w = sym.add(base_wall(dt, ty, tmo), delta_us(u["weeks"], u["days"], u["hours"], u["minutes"], u["seconds"], u["microseconds"]))
        valid = stdlib.valid_dt(result) if has_time(dt) else spec.valid_date(result.year, result.month, result.day)
        pos = eq(spec.wall_us(result), w) if has_time(dt) else eq(spec.date_ord(result), sym.fdiv(w, DUS))
        return [("ym", And(eq(sym.add(sym.mul(ty, 12), sym.sub(tmo, 1)), total), sym.between(1, tmo, 12), spec.valid_year(ty))),
                ("valid_fields", valid), ("calendar_shift_clamp_then_elapsed", pos)]


def _in_range(dt, w):
    if has_time(dt):
        return stdlib.in_dt_range(w)
    return And(ge(sym.fdiv(w, DUS), 1), le(sym.fdiv(w, DUS), spec.MAXORD))


def _ad_args(kind):
    def args(F):
        if kind == "date":
            dt, c = stdlib.fresh_date(F, _dt.date, "dt")
        else:
            dt, c = stdlib.fresh_datetime(F, _dt.datetime, "dt", tzinfo=None)
        a = dict(dt=dt)
        for n in _UNITS:
            a[n] = F.int(n)
        if kind == "datetime_real_seconds":
            a["seconds"] = F.real("seconds")
        return a, [c]

    return args


@contract("pendulum.helpers.add_duration", props=["C03", "C04", "C06", "C19"])
class add_duration:
    class on_datetime(_add_duration_base):
        applies = staticmethod(lambda dt, **u: has_time(dt) and not sym.is_reallike(u["seconds"]))
        args = _ad_args("datetime")

    class on_datetime_real_seconds(_add_duration_base):
        applies = staticmethod(lambda dt, **u: has_time(dt) and sym.is_reallike(u["seconds"]))
        args = _ad_args("datetime_real_seconds")
        cuts = [Cut("year = dt.year + years", _normalised, name="normalised", havoc_real=("seconds", "minutes", "hours", "days"))]

    class on_date(_add_duration_base):
        applies = staticmethod(lambda dt, **u: not has_time(dt))
        args = _ad_args("date")

    cases = {"datetime": on_datetime, "datetime_real_seconds": on_datetime_real_seconds, "date": on_date}


transparent("pendulum.helpers._sign")


# ========================================================================================== precise_diff (C06)
from pendulum._helpers import PreciseDiff

from pyvc import zones

_PD = ("years", "months", "days", "hours", "minutes", "seconds", "microseconds")


def pd_pos(d):
    """wall-clock microseconds of a date or datetime object"""
    return obj_wall(d)


def pd_rebuild(lo, comps):
    """wall clock reached from `lo` by adding the (non-negative) components the way add()/add_duration() does:
    shift years and months, clamp the day, then days and time"""
    y, m, d, h, mi, s, us = comps
    ty, tmo = shifted_ym(lo.year, lo.month, y, m)
    return sym.add(base_wall(lo, ty, tmo), sym.add(sym.mul(d, DUS), sym.add(sym.mul(sym.add(sym.add(sym.mul(h, 3600), sym.mul(mi, 60)), s), M), us)))


def pd_ranges(c):
    y, m, d, h, mi, s, us = c
    return And(ge(y, 0), sym.between(0, m, 11), sym.between(0, d, 30), sym.between(0, h, 23), sym.between(0, mi, 59), sym.between(0, s, 59),
               sym.between(0, us, M - 1))


def pd_clauses(result, lo, hi, sign, day_lo, day_hi):
    """C06 for one ordered pair of positions lo <= hi: canonical ranges and exact rebuild"""
    c = tuple(sym.mul(getattr(result, n), sign) for n in _PD)
    return [("canonical_ranges", pd_ranges(c)),
            ("rebuilds_the_end_from_the_start", eq(pd_rebuild(lo, c), pd_pos(hi))),
            # whole calendar days between the two (local) dates; equal values report 0 whatever their zones
            ("total_days", Or(eq(pd_pos(lo), pd_pos(hi)), eq(sym.mul(result.total_days, sign), sym.sub(spec.date_ord(day_hi), spec.date_ord(day_lo)))))]


def fresh_pd(F, hint="pd"):
    return Obj(PreciseDiff, **{n: F.int(f"{hint}_{n}") for n in _PD + ("total_days",)})


def kf_full_month_arm(d1, d2):
    """region of known finding C06-full-month: the 'exactly a full month' arm of precise_diff
    (day difference negative and equal to days_in_month(end month) - days_in_month(previous month))"""
    lo_first = le(pd_pos(d1), pd_pos(d2))

    def arm(lo, hi):
        borrow = sym.b2i(lt(_tod(hi), _tod(lo)))
        dd = sym.sub(sym.sub(hi.day, lo.day), borrow)
        py = If(eq(hi.month, 1), sym.sub(hi.year, 1), hi.year)
        pm = If(eq(hi.month, 1), 12, sym.sub(hi.month, 1))
        return And(lt(dd, 0), eq(dd, sym.sub(spec.dim(hi.year, hi.month), spec.dim(py, pm))))

    return If(lo_first, arm(d1, d2), arm(d2, d1))


def _tod(o):
    if has_time(o):
        return spec.tod_us(o.hour, o.minute, o.second, o.microsecond)
    return 0


class _pd_same_clock:
    """both values on the same clock (naive pair, date pair): components of the later minus the earlier"""

    def result(F, d1, d2):
        return fresh_pd(F)

    def ensures(result, d1, d2):
        p1, p2 = pd_pos(d1), pd_pos(d2)
        fwd = le(p1, p2)
        out = []
        for (label, c1), (_, c2) in zip(pd_clauses(result, d1, d2, 1, d1, d2), pd_clauses(result, d2, d1, -1, d2, d1)):
            out.append((label, If(fwd, c1, c2)))
        out.append(("equal_values_give_zero", Implies(eq(p1, p2), And(*[eq(getattr(result, n), 0) for n in _PD + ("total_days",)]))))
        return out


def _pd_args(kind):
    def args(F):
        if kind == "dates":
            a, ca = stdlib.fresh_date(F, _dt.date, "d1")
            b, cb = stdlib.fresh_date(F, _dt.date, "d2")
        else:
            a, ca = stdlib.fresh_datetime(F, _dt.datetime, "d1", tzinfo=None, fold=0)
            b, cb = stdlib.fresh_datetime(F, _dt.datetime, "d2", tzinfo=None, fold=0)
        return dict(d1=a, d2=b), [ca, cb]

    return args


@contract("pendulum._helpers.precise_diff", props=["C06", "C05", "C18", "C19"])
class precise_diff:
    class naive(_pd_same_clock):
        applies = staticmethod(lambda d1, d2: has_time(d1) and has_time(d2) and d1.tzinfo is None and d2.tzinfo is None)
        args = _pd_args("naive")

    class dates(_pd_same_clock):
        applies = staticmethod(lambda d1, d2: not has_time(d1) and not has_time(d2))
        args = _pd_args("dates")

    class same_zone(_pd_same_clock):
        """aware pair in one zone (same name) with the same UTC offset at both ends: wall-clock decomposition"""
        options = {"tier": "thorough"}  # 2-4 min per obligation: the UTC shift doubles the calendar terms

        def applies(d1, d2):
            return (has_time(d1) and has_time(d2) and d1.tzinfo is not None and d2.tzinfo is not None and _zone_name_same(d1.tzinfo, d2.tzinfo) is True)

        def args(F):
            from pendulum.tz.timezone import Timezone

            tz, zc = stdlib.fresh_zone(F, Timezone, "tz", k=2)
            a, ca = stdlib.fresh_datetime(F, _dt.datetime, "d1", tzinfo=tz, fold=0)
            b, cb = stdlib.fresh_datetime(F, _dt.datetime, "d2", tzinfo=tz, fold=0)
            return dict(d1=a, d2=b), [zc, ca, cb]

        def requires(d1, d2):
            return [("same_utc_offset_at_both_ends", eq(zones.offset_of(d1), zones.offset_of(d2))),
                    ("instants_representable", And(stdlib.in_dt_range(zones.instant(d1)), stdlib.in_dt_range(zones.instant(d2))))]

    class different_zones:
        """endpoints in differently named zones: decomposed as the same two instants expressed in UTC.
        ASSUMED, not proved: the thorough-tier attempt to verify this case left three path obligations refuted by models over two
        abstract zones that can be neither replayed (no transition catalogue) nor separated from the known full-month finding
        (region checks stay `unknown`); the case is therefore only assumed at call sites and listed as such, and the behaviour is
        covered by the bounded interval identities on real zones and by the Rust/Python differential (DESIGN.md 12.2)."""

        def applies(d1, d2):
            return (has_time(d1) and has_time(d2) and d1.tzinfo is not None and d2.tzinfo is not None and _zone_name_same(d1.tzinfo, d2.tzinfo) is False)

        def _args_of_the_abandoned_proof(F):
            from pendulum.tz.timezone import Timezone

            z1, c1 = stdlib.fresh_zone(F, Timezone, "z1", k=1)
            z2, c2 = stdlib.fresh_zone(F, Timezone, "z2", k=1)
            a, ca = stdlib.fresh_datetime(F, _dt.datetime, "d1", tzinfo=z1, fold=0)
            b, cb = stdlib.fresh_datetime(F, _dt.datetime, "d2", tzinfo=z2, fold=0)
            # ghosts: the two instants as UTC wall clocks (uniquely determined by their defining equations)
            u1, g1 = _utc_ghost(F, a, "u1")
            u2, g2 = _utc_ghost(F, b, "u2")
            return dict(d1=a.with_fields(_utc=u1), d2=b.with_fields(_utc=u2)), [c1, c2, ca, cb, g1, g2, ne(z1.key.tok, z2.key.tok)]

        def requires(d1, d2):
            return [("instants_representable", And(stdlib.in_dt_range(zones.instant(d1)), stdlib.in_dt_range(zones.instant(d2))))]

        def result(F, d1, d2):
            return fresh_pd(F)

        @staticmethod
        def _clauses(result, d1, d2, u1, u2):
            p1, p2 = pd_pos(u1), pd_pos(u2)
            fwd = le(p1, p2)
            out = []
            # total_days is counted on the local calendar dates, the components on the UTC clocks
            for (label, c1), (_, c2) in zip(pd_clauses(result, u1, u2, 1, d1, d2), pd_clauses(result, u2, u1, -1, d2, d1)):
                out.append((label, If(fwd, c1, c2)))
            return out

        def ensures(result, d1, d2):
            return precise_diff.different_zones._clauses(result, d1, d2, d1.f["_utc"], d2.f["_utc"])

        def assume(F, result, d1, d2):
            u1, g1 = _utc_ghost(F, d1, "u1")
            u2, g2 = _utc_ghost(F, d2, "u2")
            return [("ghosts", And(g1, g2))] + precise_diff.different_zones._clauses(result, d1, d2, u1, u2)

    cases = {"naive": naive, "dates": dates, "same_zone": same_zone, "different_zones": different_zones}


def _utc_ghost(F, d, hint):
    u, valid = stdlib.fresh_datetime(F, _dt.datetime, hint, tzinfo=None, fold=0)
    return u, And(valid, eq(spec.wall_us(u), zones.instant(d)))


def _zone_name_same(z1, z2):
    """True / False when the names are known to be equal / different, None otherwise"""
    n1 = z1.f.get("key", z1.f.get("_name"))
    n2 = z2.f.get("key", z2.f.get("_name"))
    if n1 is n2 or (hasattr(n1, "tok") and hasattr(n2, "tok") and n1.tok is n2.tok):
        return True
    if isinstance(n1, str) and isinstance(n2, str):
        return n1 == n2
    return False if z1.oid != z2.oid else True


transparent("pendulum._helpers._get_tzinfo_name")
