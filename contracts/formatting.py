"""Sidecar contracts for pendulum/formatting/formatter.py (C08): every numeric token of Formatter._format_token renders the
value the standard calendar arithmetic gives for it, with the documented width."""
import pendulum
from pendulum.formatting.formatter import Formatter
from pendulum.locales.locale import Locale
from pendulum.tz.timezone import FixedTimezone, Timezone

from contracts.dt import fresh_pdt, zone_cases
from pyvc import spec, stdlib, strings, sym, zones
from pyvc.contract import contract, transparent
from pyvc.engine import Obj
from pyvc.spec import M
from pyvc.sym import And, If, Implies, Not, Or, eq, ge, gt, le, lt, ne
from pyvc.world import SymStr

_FMT = Formatter()
_EN = Locale.load("en")
EPOCH_US = spec.wall_us_f(1970, 1, 1, 0, 0, 0, 0)


def _digits(v, n):
    """the n decimal digits of v (most significant first), as terms"""
    return [sym.fmod(sym.fdiv(v, 10 ** (n - 1 - i)), 10) for i in range(n)]


def _instant_or_wall(dt):
    """UTC instant of an aware DateTime; a naive one is read as UTC (DateTime.int_timestamp)"""
    return zones.instant(dt) if dt.tzinfo is not None else spec.wall_us(dt)


def _h12(h):
    r = sym.fmod(h, 12)
    return If(eq(r, 0), 12, r)


# token -> ("pad", width, value) | ("num", value) | ("year2", value)
def token_spec(token, dt):
    us = dt.microsecond
    its = sym.fdiv(sym.sub(_instant_or_wall(dt), EPOCH_US), M)
    table = {
        "YYYY": ("num", dt.year), "Y": ("num", dt.year), "YY": ("pad", 2, sym.fmod(dt.year, 100)),
        "Q": ("num", sym.add(sym.fdiv(sym.sub(dt.month, 1), 3), 1)),
        "MM": ("pad", 2, dt.month), "M": ("num", dt.month), "DD": ("pad", 2, dt.day), "D": ("num", dt.day),
        "DDDD": ("pad", 3, spec.doy(dt.year, dt.month, dt.day)), "DDD": ("num", spec.doy(dt.year, dt.month, dt.day)),
        "d": ("num", sym.fmod(spec.iso_weekday(dt.year, dt.month, dt.day), 7)), "E": ("num", spec.iso_weekday(dt.year, dt.month, dt.day)),
        "HH": ("pad", 2, dt.hour), "H": ("num", dt.hour), "hh": ("pad", 2, _h12(dt.hour)), "h": ("num", _h12(dt.hour)),
        "mm": ("pad", 2, dt.minute), "m": ("num", dt.minute), "ss": ("pad", 2, dt.second), "s": ("num", dt.second),
        "X": ("num", its), "x": ("num", sym.add(sym.mul(its, 1000), sym.fdiv(us, 1000))),
    }
    for k in range(1, 7):
        table["S" * k] = ("pad", k, sym.fdiv(us, 10 ** (6 - k)))
    return table.get(token)


NUMERIC_TOKENS = ("YYYY", "YY", "Y", "Q", "MM", "M", "DD", "D", "DDDD", "DDD", "d", "E", "HH", "H", "hh", "h", "mm", "m", "ss", "s",
                  "S", "SS", "SSS", "SSSS", "SSSSS", "SSSSSS", "X", "x")
OFFSET_TOKENS = ("Z", "ZZ")


def rendered_equals(result, kind):
    """the string the code built denotes the specified number with the specified width"""
    if kind[0] == "pad":
        _, n, v = kind
        cs = strings.as_charstr(result)
        if cs is None or len(cs.chars) != n or any(isinstance(c, str) and not c.isdigit() for c in cs.chars):
            return False
        # n characters, each a decimal digit, whose value is v: by uniqueness of the decimal expansion these ARE the n digits
        # of v, zero padded (stated without div/mod so that the obligation stays linear)
        digs = [int(c) if isinstance(c, str) else c for c in cs.chars]
        val = 0
        for d in digs:
            val = sym.add(sym.mul(val, 10), d)
        return And(eq(val, v), *[sym.between(0, d, 9) for d in digs if not isinstance(d, int)])
    _, v = kind
    # unpadded decimal rendering: the abstract string str(<int>) of the right value (or the digits themselves when the width is known)
    if isinstance(result, SymStr) and len(result.parts) == 1 and not isinstance(result.parts[0], str) and result.parts[0][0] == "fmt" and result.parts[0][2] in ("d", ""):
        return eq(result.parts[0][1], v)
    if isinstance(result, strings.CharStr) and result.chars and all(not isinstance(c, str) for c in result.chars):
        # fixed-width expansion of a value known to have exactly len digits: most significant digit non-zero
        return And(eq(result.int_value(), v), Or(len(result.chars) == 1, ne(result.chars[0], 0)))
    if isinstance(result, str) and result.isdigit():
        return eq(int(result), v)
    return False


def _token_case(token, zname, mk):
    class case:
        def applies(self, dt, token, locale, _t=token, _z=zname):
            # the offset tokens have two shapes (sign): callers execute them from the source instead (transparent fallback)
            return token == _t and _kind(dt) == _z and token not in OFFSET_TOKENS

        def args(F):
            tz, zc = mk(F)
            o, inv = fresh_pdt(F, tz, "dt")
            return dict(self=Obj(Formatter), dt=o, token=token, locale=_EN), [zc, inv]

        def requires(self, dt, token, locale):
            r = [("years_1000_to_9999", sym.between(1000, dt.year, 9999))]
            if token in OFFSET_TOKENS and dt.tzinfo is not None:
                r.append(("whole_minute_offset", eq(sym.fmod(zones.offset_of(dt), 60), 0)))
            return r

        def result(F, self, dt, token, locale):
            return expected_rendering(token, dt)

        def ensures(result, self, dt, token, locale):
            if token in OFFSET_TOKENS:
                if dt.tzinfo is None:
                    return [("naive_has_no_offset", result == "")]
                off = zones.offset_of(dt)
                mins = sym.fdiv(sym.absv(off), 60)
                sep = ":" if token == "Z" else ""
                n = 6 if token == "Z" else 5
                cs = strings.as_charstr(result)
                ok = cs is not None and len(cs.chars) == n and isinstance(cs.chars[0], str)
                if not ok:
                    return [("offset_shape", False)]
                ch = cs.chars
                hh = strings.CharStr(ch[1:3])
                mm = strings.CharStr(ch[-2:])
                out = [("sign_minus_iff_negative", Implies(lt(off, 0), ch[0] == "-")), ("sign_plus_otherwise", Implies(ge(off, 0), ch[0] == "+")),
                       ("separator", (ch[3] == ":") if token == "Z" else True),
                       ("hours", rendered_equals(hh, ("pad", 2, sym.fdiv(mins, 60)))), ("minutes", rendered_equals(mm, ("pad", 2, sym.fmod(mins, 60))))]
                return out
            return [("renders_the_specified_value", rendered_equals(result, token_spec(token, dt)))]

    case.__name__ = f"{token}.{zname}"
    return case


def _kind(dt):
    return "naive" if dt.tzinfo is None else ("fixed" if zones.is_fixed(dt.tzinfo) else "zone")


def expected_rendering(token, dt):
    """the specified rendering as a string object of the verification world: CharStr of digit terms (padded tokens, offsets),
    abstract decimal string (unpadded tokens)"""
    if token in OFFSET_TOKENS:
        if dt.tzinfo is None:
            return ""
        off = zones.offset_of(dt)
        mins = sym.fdiv(sym.absv(off), 60)
        if not sym.is_sym(off):
            sign = "-" if off < 0 else "+"
            return sign + f"{mins // 60:02d}" + (":" if token == "Z" else "") + f"{mins % 60:02d}"
        return ("offset", token, off)   # two shapes (sign): expanded by the caller
    kind = token_spec(token, dt)
    if kind[0] == "pad":
        return strings.CharStr(_digits(kind[2], kind[1]))
    return SymStr([("fmt", kind[1], "d")])


def _token_cases():
    cases = {}
    for token in NUMERIC_TOKENS + OFFSET_TOKENS:
        for zname, mk in zone_cases(k=1).items():
            if zname == "naive" and token in ("X", "x"):
                continue   # a naive DateTime has no timestamp (int_timestamp subtracts an aware epoch: TypeError); aware values only
            c = _token_case(token, zname, mk)
            cases[c.__name__] = c
    return cases


transparent("pendulum.formatting.formatter.Formatter._format_token", "pendulum.formatting.formatter.Formatter._format_localizable_token",
            why="tokens without a single-shape contract (Z, ZZ, A, names) are executed from the source at call sites")


@contract("pendulum.formatting.formatter.Formatter._format_token", props=["C08"])
class format_token:
    cases = _token_cases()


# =========================================================================================== format(): composition (C08)
DOCUMENTED_TOKENS = ("YYYY", "YY", "Y", "Q", "Qo", "MMMM", "MMM", "MM", "M", "Mo", "DDDD", "DDD", "DD", "D", "Do", "dddd", "ddd", "dd", "d", "E",
                     "HH", "H", "hh", "h", "mm", "m", "ss", "s", "SSSSSS", "SSSSS", "SSSS", "SSS", "SS", "S", "A", "ZZ", "Z", "zz", "z", "X", "x",
                     "LTS", "LT", "LLLL", "LLL", "LL", "L")


def tokenize(fmt):
    """independent reading of a format string (documentation, 'Tokens' and 'Escaping characters'): [text] and \\c are literal,
    otherwise the longest documented token at each position, anything else stands for itself"""
    out = []
    i = 0
    toks = sorted(DOCUMENTED_TOKENS, key=len, reverse=True)
    while i < len(fmt):
        c = fmt[i]
        if c == "[" and "]" in fmt[i + 1:]:
            j = fmt.index("]", i + 1)
            out.append(("lit", fmt[i + 1:j]))
            i = j + 1
        elif c == "\\" and i + 1 < len(fmt):
            out.append(("lit", fmt[i + 1]))
            i += 2
        else:
            for t in toks:
                if fmt.startswith(t, i):
                    out.append(("tok", t))
                    i += len(t)
                    break
            else:
                out.append(("lit", c))
                i += 1
    return out


def pieces(x):
    """normal form of a string object: a list of atoms - single literal characters, ('digit', term), ('fmt', value)"""
    out = []
    if isinstance(x, str):
        out.extend(x)
    elif isinstance(x, strings.CharStr):
        for c in x.chars:
            out.append(c if isinstance(c, str) else ("digit", c))
    elif isinstance(x, SymStr):
        for p in x.parts:
            if isinstance(p, (str, strings.CharStr, SymStr)):
                out.extend(pieces(p))
            elif p[0] == "fmt" and p[2] in ("d", ""):
                out.append(("fmt", p[1]))
            else:
                out.append(("other", p))
    else:
        out.append(("other", x))
    return out


def pieces_equal(a, b):
    pa, pb = pieces(a), pieces(b)
    if len(pa) != len(pb):
        return False
    cl = []
    for x, y in zip(pa, pb):
        if isinstance(x, str) and isinstance(y, str):
            if x != y:
                return False
        elif isinstance(x, str) or isinstance(y, str):
            c, t = (x, y) if isinstance(x, str) else (y, x)
            if t[0] != "digit" or not c.isdigit():
                return False
            cl.append(eq(t[1], int(c)))
        elif x[0] != y[0] or x[0] == "other":
            return False
        else:
            cl.append(eq(x[1], y[1]))
    return And(*cl) if cl else True


FORMATS = ("YYYY-MM-DDTHH:mm:ssZ", "YYYY-MM-DDTHH:mm:ss.SSSSSSZ", "YYYY-MM-DD HH:mm:ss", "HH:mm:ss", "[Day] D [of] YYYY [at] h:m:s", "YY/M/D \\Y\\M[D]",
           "DDDD/DDD Q E d", "X x SSS SS S", "YYYYMMDD[T]HHmmssZZ", "[YYYY] YYYY [MM]", "hh.mm A|H", "SSSSS-SSSS")


def _format_case(fmt, zname, mk):
    class case:
        def applies(self, dt, fmt, locale=None):
            return False

        def args(F):
            tz, zc = mk(F)
            o, inv = fresh_pdt(F, tz, "dt")
            return dict(self=Obj(Formatter), dt=o, fmt=fmt, locale=_EN), [zc, inv]

        def requires(self, dt, fmt, locale):
            r = [("years_1000_to_9999", sym.between(1000, dt.year, 9999))]
            if dt.tzinfo is not None and "Z" in fmt.replace("[Z]", ""):
                r.append(("whole_minute_offset", eq(sym.fmod(zones.offset_of(dt), 60), 0)))
            return r

        def result(F, self, dt, fmt, locale):
            raise NotImplementedError

        def ensures(result, self, dt, fmt, locale):
            out = []
            exp = []
            for kind, text in tokenize(fmt):
                if kind == "lit":
                    exp.append(text)
                elif text == "A":
                    exp.append(("ampm", dt.hour))
                else:
                    exp.append(expected_rendering(text, dt))
            # offsets and AM/PM have two shapes: resolve them against the sign / the half of the day on this path
            variants = [[]]
            conds = [[]]
            for e in exp:
                if isinstance(e, tuple) and e[0] == "offset":
                    _, token, off = e
                    mins = sym.fdiv(sym.absv(off), 60)
                    body = [strings.CharStr(_digits(sym.fdiv(mins, 60), 2))] + ([":"] if token == "Z" else []) + [strings.CharStr(_digits(sym.fmod(mins, 60), 2))]
                    nv, nc = [], []
                    for v, c in zip(variants, conds):
                        nv.append(v + ["+"] + body)
                        nc.append(c + [ge(off, 0)])
                        nv.append(v + ["-"] + body)
                        nc.append(c + [lt(off, 0)])
                    variants, conds = nv, nc
                elif isinstance(e, tuple) and e[0] == "ampm":
                    nv, nc = [], []
                    for v, c in zip(variants, conds):
                        nv.append(v + ["AM"])
                        nc.append(c + [lt(e[1], 12)])
                        nv.append(v + ["PM"])
                        nc.append(c + [ge(e[1], 12)])
                    variants, conds = nv, nc
                else:
                    variants = [v + [e] for v in variants]
            alts = []
            for v, c in zip(variants, conds):
                same = pieces_equal(result, SymStr(v))
                if same is not False:
                    alts.append(And(*(c + [same])))
            out.append(("concatenation_of_token_renderings_and_literals", Or(*alts) if alts else False))
            return out

    case.__name__ = f"{fmt!r}.{zname}"
    return case


def _format_cases():
    cases = {}
    for fmt in FORMATS:
        for zname, mk in zone_cases(k=1).items():
            if zname == "naive" and any(k == "tok" and t in ("X", "x") for k, t in tokenize(fmt)):
                continue
            if zname == "zone" and fmt not in FORMATS[:2]:
                continue
            c = _format_case(fmt, zname, mk)
            cases[c.__name__] = c
    return cases


@contract("pendulum.formatting.formatter.Formatter.format", props=["C08"])
class formatter_format:
    cases = _format_cases()


# =========================================================================================== from_format pieces (C08)
# Formatter.parse threads one mutable dict through regex callbacks and is bounded only (DESIGN 12.6); its two pure pieces
# are proved: what ONE token/value pair writes into that dict, and how the collected fields are completed from 'now'.
_PARSED_KEYS = ("year", "month", "day", "hour", "minute", "second", "microsecond", "tz", "quarter", "day_of_week", "day_of_year", "meridiem", "timestamp")

# token -> (value template ('#' = digit), field written, value as a function of the integer the digits denote)
PARSE_RULES = {
    "YYYY": ("####", "year", lambda v: v),
    "YY": ("##", "year", lambda v: If(le(v, 68), sym.add(v, 2000), sym.add(v, 1900))),
    "Q": ("#", "quarter", lambda v: v),
    "MM": ("##", "month", lambda v: v), "M": ("#", "month", lambda v: v),
    "DDDD": ("###", "day_of_year", lambda v: v), "DDD": ("##", "day_of_year", lambda v: v),
    "DD": ("##", "day", lambda v: v), "D": ("#", "day", lambda v: v),
    "HH": ("##", "hour", lambda v: v), "H": ("#", "hour", lambda v: v),
    "hh": ("##", "hour", lambda v: v), "h": ("#", "hour", lambda v: v),
    "mm": ("##", "minute", lambda v: v), "m": ("#", "minute", lambda v: v),
    "ss": ("##", "second", lambda v: v), "s": ("#", "second", lambda v: v),
    "S": ("#", "microsecond", lambda v: sym.mul(v, 100000)), "SS": ("##", "microsecond", lambda v: sym.mul(v, 10000)),
    "SSS": ("###", "microsecond", lambda v: sym.mul(v, 1000)), "SSSS": ("####", "microsecond", lambda v: sym.mul(v, 100)),
    "SSSSS": ("#####", "microsecond", lambda v: sym.mul(v, 10)), "SSSSSS": ("######", "microsecond", lambda v: v),
    "d": ("#", "day_of_week", lambda v: v), "E": ("#", "day_of_week", lambda v: sym.sub(v, 1)),
}
OFFSET_VALUE_SHAPES = {"Z": ("+##:##", "-##:##", "+####", "-####"), "ZZ": ("+##:##", "-####", "+##", "-##")}


def _parsed_value_case(token, tmpl):
    from contracts.parsing import template_text

    class case:
        options = {"returns_param": "parsed"}

        def applies(self, token, value, parsed, now):
            return False

        def args(F):
            value, cons = template_text(F, tmpl, "v")
            case._value = value
            return dict(self=Obj(Formatter), token=token, value=value, parsed={k: None for k in _PARSED_KEYS}, now=None), cons

        if token in ("hh", "h"):
            raises = [(ValueError, "twelve_hour_clock", lambda self, token, value, parsed, now: gt(case._value.int_value(), 12))]
        if token in OFFSET_VALUE_SHAPES:
            @staticmethod
            def _hm():
                digs = [c for c in case._value.chars if not isinstance(c, str)]
                return sym.add(sym.mul(digs[0], 10), digs[1]), (sym.add(sym.mul(digs[2], 10), digs[3]) if len(digs) == 4 else 0)

            raises = [(ValueError, "offset_out_of_range", lambda self, token, value, parsed, now: Or(gt(case._hm()[0], 23), gt(case._hm()[1], 59)))]

        def result(F, **a):
            raise NotImplementedError

        def ensures(result, self, token, value, parsed, now):
            if not isinstance(result, dict) or set(result) != set(_PARSED_KEYS):
                return [("returns_the_updated_dict", False)]
            out = []
            if token in OFFSET_VALUE_SHAPES:
                tz = result["tz"]
                digs = [c for c in value.chars if not isinstance(c, str)]
                hh = sym.add(sym.mul(digs[0], 10), digs[1])
                mm = sym.add(sym.mul(digs[2], 10), digs[3]) if len(digs) == 4 else 0
                off = sym.mul(sym.add(sym.mul(hh, 60), mm), 60)
                off = sym.neg(off) if value.chars[0] == "-" else off
                ok = isinstance(tz, Obj) and "_offset" in tz.f
                out.append(("tz_is_the_fixed_offset_written", eq(tz.f["_offset"], off) if ok else False))
                field = "tz"
            else:
                _, field, f = PARSE_RULES[token]
                out.append(("field_value", eq(result[field], f(value.int_value())) if result[field] is not None else False))
            out.append(("nothing_else_written", all(result[k] is None for k in _PARSED_KEYS if k != field)))
            return out

    case.__name__ = f"{token}<-{tmpl!r}"
    return case


def _parsed_value_cases():
    cases = {}
    for token, (tmpl, _, _) in PARSE_RULES.items():
        c = _parsed_value_case(token, tmpl)
        cases[c.__name__] = c
    for token, shapes in OFFSET_VALUE_SHAPES.items():
        for tmpl in shapes:
            c = _parsed_value_case(token, tmpl)
            cases[c.__name__] = c
    return cases


@contract("pendulum.formatting.formatter.Formatter._get_parsed_value", props=["C08"])
class get_parsed_value:
    cases = _parsed_value_cases()


_SEVEN = ("year", "month", "day", "hour", "minute", "second", "microsecond")


def _check_parsed_case(mask, meridiem):
    present = [k for i, k in enumerate(_SEVEN) if mask >> i & 1]

    class case:
        def applies(self, parsed, now):
            return False

        def args(F):
            from contracts.dt import fresh_pdt

            parsed = {k: None for k in _PARSED_KEYS}
            cons = []
            for k in present:
                parsed[k] = F.int(f"p_{k}")
                cons.append(ge(parsed[k], 0))   # digit strings denote non-negative integers
            parsed["meridiem"] = meridiem
            now, inv = fresh_pdt(F, None, "now")
            case._parsed = parsed
            return dict(self=Obj(Formatter), parsed=parsed, now=now), cons + [inv]

        if meridiem is not None:
            # "If the time is greater than 13:00:00 this is not valid" - and a meridiem needs an hour
            raises = [(ValueError, "meridiem_without_hour_or_past_12",
                       lambda self, parsed, now: True if parsed["hour"] is None else ge(parsed["hour"], 13))]

        def result(F, **a):
            raise NotImplementedError

        def ensures(result, self, parsed, now):
            p = parsed
            if not isinstance(result, dict):
                return [("returns_a_dict", False)]
            year = p["year"] if p["year"] is not None else now.year
            if p["month"] is not None:
                month = p["month"]
            else:
                month = 1 if p["year"] is not None else now.month
            if p["day"] is not None:
                day = p["day"]
            else:
                day = 1 if (p["year"] is not None or p["month"] is not None) else now.day
            hour = p["hour"] if p["hour"] is not None else 0
            if meridiem is not None:
                hour = sym.add(sym.fmod(hour, 12), 12 if meridiem == "pm" else 0)
            exp = dict(year=year, month=month, day=day, hour=hour, minute=p["minute"] if p["minute"] is not None else 0,
                       second=p["second"] if p["second"] is not None else 0, microsecond=p["microsecond"] if p["microsecond"] is not None else 0)
            out = [(f"{k}_given_or_defaulted", eq(result[k], v) if result.get(k) is not None else False) for k, v in exp.items()]
            out.append(("tz_passed_through", result.get("tz") is p["tz"]))
            return out

    case.__name__ = ("+".join(present) or "nothing") + (f"+{meridiem}" if meridiem else "")
    return case


def _check_parsed_cases():
    cases = {}
    for mask in range(128):
        for mer in (None, "am", "pm"):
            c = _check_parsed_case(mask, mer)
            cases[c.__name__] = c
    return cases


@contract("pendulum.formatting.formatter.Formatter._check_parsed", props=["C08"])
class check_parsed:
    cases = _check_parsed_cases()
