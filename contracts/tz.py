"""Sidecar contracts for pendulum/tz/timezone.py and pendulum/tz/__init__.py (C01, C02)."""
import datetime as _dt

import pendulum
from pendulum.tz.exceptions import AmbiguousTime, NonExistingTime
from pendulum.tz.timezone import FixedTimezone, Timezone

from pyvc import spec, stdlib, sym, zones
from pyvc.contract import Loop, contract, transparent
from pyvc.engine import Obj
from pyvc.spec import D, DUS, M
from pyvc.sym import And, If, Implies, Not, Or, absv, b2i, eq, ge, gt, le, lt, ne

transparent("pendulum.tz.timezone.Timezone.name", "pendulum.tz.timezone.FixedTimezone.name",
            "pendulum.tz.timezone.FixedTimezone.offset", "pendulum.tz.timezone.FixedTimezone.utcoffset",
            "pendulum.tz.timezone.FixedTimezone.dst", "pendulum.tz.timezone.FixedTimezone.tzname",
            "pendulum.tz.local_timezone", why="one-line accessor / delegation")


def is_naive_dt(dt):
    return isinstance(dt, Obj) and issubclass(dt.cls, _dt.datetime) and dt.f.get("tzinfo") is None


def is_aware_dt(dt):
    return isinstance(dt, Obj) and issubclass(dt.cls, _dt.datetime) and dt.f.get("tzinfo") is not None


def fresh_fixed(F, hint="ftz"):
    off = F.int(f"{hint}_offset")
    name = pendulum.tz.timezone.__dict__.get("_unused") or __import__("pyvc.world", fromlist=["SymName"]).SymName(F.int(f"{hint}_name"))
    return stdlib.fixed_zone(FixedTimezone, off, name), And(gt(off, -D), lt(off, D))


def result_dt(F, cls, tz, hint):
    o, valid = stdlib.fresh_datetime(F, cls, hint, tzinfo=tz)
    return o, valid


class _convert_naive:
    """C02: a naive wall time is normalised by the documented DST rules"""

    def applies(self, dt, raise_on_unknown_times):
        return is_naive_dt(dt) and dt.cls is _dt.datetime

    def requires(self, dt, raise_on_unknown_times):
        return [("valid_input", stdlib.valid_dt(dt))]

    raises = [
        (NonExistingTime, "skipped", lambda self, dt, raise_on_unknown_times:
            And(raise_on_unknown_times, eq(zones.n_preimages(self, spec.wall_us(dt)), 0))),
        (AmbiguousTime, "repeated", lambda self, dt, raise_on_unknown_times:
            And(raise_on_unknown_times, eq(zones.n_preimages(self, spec.wall_us(dt)), 2))),
        (OverflowError, "shifted_out_of_range", lambda self, dt, raise_on_unknown_times:
            And(Not(raise_on_unknown_times), Not(stdlib.in_dt_range(zones.normalised(self, spec.wall_us(dt), dt.fold)[0])))),
    ]

    def result(F, self, dt, raise_on_unknown_times):
        o, _ = result_dt(F, dt.cls, self, "conv")
        return o

    def ensures(result, self, dt, raise_on_unknown_times):
        w2, f2 = zones.normalised(self, spec.wall_us(dt), dt.fold)
        return [("valid_fields", stdlib.valid_dt(result)),
                ("class_and_zone", result.cls is dt.cls and zones.same_zone(result.tzinfo, self)),
                ("wall_clock_by_dst_rules", eq(spec.wall_us(result), w2)),
                # a fixed offset has no folds: FixedTimezone always builds fold=0
                ("fold", eq(result.fold, 0 if zones.is_fixed(self) else f2))]


class _convert_aware:
    """C01: an aware value is re-rendered in the zone: same instant, the tz database's fields and fold"""

    def applies(self, dt, raise_on_unknown_times):
        return is_aware_dt(dt)

    def requires(self, dt, raise_on_unknown_times):
        return [("valid_input", stdlib.valid_dt(dt)), ("input_is_a_rendering", zones.is_rendering(dt))]

    raises = [(OverflowError, "out_of_range", lambda self, dt, raise_on_unknown_times:
               And(Not(zones.same_zone(dt.tzinfo, self)),
                   Or(Not(stdlib.in_dt_range(zones.instant(dt))), Not(stdlib.in_dt_range(zones.render_wall(self, zones.instant(dt)))))))]

    def result(F, self, dt, raise_on_unknown_times):
        o, _ = result_dt(F, dt.cls, self, "conv")
        return o

    def ensures(result, self, dt, raise_on_unknown_times):
        u = zones.instant(dt)
        return [("valid_fields", stdlib.valid_dt(result)),
                ("class_and_zone", result.cls is dt.cls and zones.same_zone(result.tzinfo, self)),
                ("same_instant", eq(zones.instant(result), u)),
                ("rendering_fields", eq(spec.wall_us(result), zones.render_wall(self, u))),
                ("rendering_offset", eq(zones.offset_of(result), zones.off_utc(self, u))),
                # (a value already in this very zone object is returned as it is, with its own fold)
                ("rendering_fold", Or(zones.same_zone(dt.tzinfo, self), eq(result.fold, zones.fold_of(self, u))))]


def _naive_args(zone_maker):
    def args(F):
        zone, zc = zone_maker(F)
        dt, dc = stdlib.fresh_datetime(F, _dt.datetime, "dt", tzinfo=None)
        return dict(self=zone, dt=dt, raise_on_unknown_times=F.bool("roe")), [zc, dc]

    return args


def _aware_args(zone_maker, same=False):
    def args(F):
        zone, zc = zone_maker(F)
        if same:
            src, sc = zone, True
        else:
            src, sc = stdlib.fresh_zone(F, Timezone, "src", k=1)
        dt, dc = stdlib.fresh_datetime(F, _dt.datetime, "dt", tzinfo=src)
        return dict(self=zone, dt=dt, raise_on_unknown_times=F.bool("roe")), [zc, sc, dc]

    return args


def _tz1(F):
    return stdlib.fresh_zone(F, Timezone, "tz", k=1)


@contract("pendulum.tz.timezone.Timezone.convert", props=["C01", "C02", "C03"])
class tz_convert:
    class naive(_convert_naive):
        args = _naive_args(_tz1)

    class aware(_convert_aware):
        args = _aware_args(_tz1)

    class aware_same_zone(_convert_aware):
        """the source is already in this very zone object: astimezone returns it unchanged"""
        args = _aware_args(_tz1, same=True)

        def applies(self, dt, raise_on_unknown_times):
            return False  # verification-only case (call sites are served by `aware`)

    class aware_pendulum(_convert_aware):
        """a pendulum DateTime operand (in_timezone): goes through DateTime.astimezone"""

        def applies(self, dt, raise_on_unknown_times):
            return False

        def args(F):
            import pendulum as _p

            zone, zc = _tz1(F)
            src, sc = stdlib.fresh_zone(F, Timezone, "src", k=1)
            dt, dc = stdlib.fresh_datetime(F, _p.DateTime, "dt", tzinfo=src)
            return dict(self=zone, dt=dt, raise_on_unknown_times=False), [zc, sc, dc]

    cases = {"naive": naive, "aware": aware, "aware_same_zone": aware_same_zone, "aware_pendulum": aware_pendulum}


@contract("pendulum.tz.timezone.FixedTimezone.convert", props=["C01", "C02", "C03"])
class fixed_convert:
    class naive(_convert_naive):
        args = _naive_args(fresh_fixed)
        raises = []

    class aware(_convert_aware):
        args = _aware_args(fresh_fixed)

    cases = {"naive": naive, "aware": aware}


@contract("pendulum.tz.timezone.FixedTimezone.fromutc", props=["C01"])
class fixed_fromutc:
    def args(F):
        zone, zc = fresh_fixed(F)
        dt, dc = stdlib.fresh_datetime(F, _dt.datetime, "dt", tzinfo=zone)
        return dict(self=zone, dt=dt), [zc, dc]

    raises = [(OverflowError, "out_of_range", lambda self, dt: Not(stdlib.in_dt_range(sym.add(spec.wall_us(dt), sym.mul(self._offset, M)))))]

    def result(F, self, dt):
        o, _ = result_dt(F, dt.cls, self, "fromutc")
        return o

    def ensures(result, self, dt):
        return [("valid_fields", stdlib.valid_dt(result)), ("zone", zones.same_zone(result.tzinfo, self)),
                ("wall", eq(spec.wall_us(result), sym.add(spec.wall_us(dt), sym.mul(self._offset, M)))),
                ("fold", eq(result.fold, 0))]


def _datetime_contract(qualname, zone_maker):
    @contract(qualname, props=["C02"])
    class tz_datetime:
        def args(F):
            zone, zc = zone_maker(F)
            a = dict(self=zone)
            for n in ("year", "month", "day", "hour", "minute", "second", "microsecond"):
                a[n] = F.int(n)
            return a, [zc]

        raises = [(ValueError, "invalid_fields", lambda self, year, month, day, hour, minute, second, microsecond:
                   Not(And(spec.valid_date(year, month, day), spec.valid_time(hour, minute, second, microsecond)))),
                  (OverflowError, "shifted_out_of_range", lambda self, year, month, day, hour, minute, second, microsecond:
                   And(spec.valid_date(year, month, day), spec.valid_time(hour, minute, second, microsecond),
                       Not(stdlib.in_dt_range(zones.normalised(self, spec.wall_us_f(year, month, day, hour, minute, second, microsecond), 1)[0]))))]

        def result(F, self, **a):
            o, _ = result_dt(F, _dt.datetime, self, "tzdt")
            return o

        def ensures(result, self, year, month, day, hour, minute, second, microsecond):
            w2, f2 = zones.normalised(self, spec.wall_us_f(year, month, day, hour, minute, second, microsecond), 1)
            return [("valid_fields", stdlib.valid_dt(result)), ("zone", zones.same_zone(result.tzinfo, self)),
                    ("wall_clock_by_dst_rules", eq(spec.wall_us(result), w2)),
                    ("fold", eq(result.fold, 0 if zones.is_fixed(self) else f2))]

    return tz_datetime


_datetime_contract("pendulum.tz.timezone.Timezone.datetime", _tz1)
_datetime_contract("pendulum.tz.timezone.FixedTimezone.datetime", fresh_fixed)


# ========================================================================================== zone construction (C01)
from pyvc.world import SymName


def zone_named(F, name_holder):
    """the pendulum Timezone for the same tz-database entry as `name_holder` (a zone object): same rules"""
    return Obj(Timezone, key=name_holder.key, T=name_holder.T, o=name_holder.o)


@contract("pendulum.timezone", props=["C01"], assumed=True)
class timezone_fn:
    """pendulum.timezone(name): assumed for symbolic names - the returned zone has the tz-database rules of that
    name (ZoneInfo lookup is data, not code); proved for integer offsets through fixed_timezone"""

    class by_name:
        applies = staticmethod(lambda name: isinstance(name, SymName))

        def value(name):
            if getattr(name, "model", None) is None:
                raise ValueError("symbolic zone name without rules")
            T, o = name.model
            return Obj(Timezone, key=name, T=T, o=o)

    class by_offset:
        applies = staticmethod(lambda name: sym.is_intlike(name))

        def args(F):
            return dict(name=F.int("offset"))

        def requires(name):
            return [("offset_range", And(gt(name, -D), lt(name, D)))]

        def value(name):
            return stdlib.fixed_zone(FixedTimezone, name, None)

    cases = {"by_name": by_name, "by_offset": by_offset}


@contract("pendulum.tz.fixed_timezone", props=["C01"], assumed=True)
class fixed_timezone_fn:
    """memoised constructor (A-PURE): an object equal to FixedTimezone(offset)"""

    def value(offset):
        return stdlib.fixed_zone(FixedTimezone, offset, None)


@contract("pendulum.tz.timezone.FixedTimezone.__init__", props=["C01"])
class fixed_init:
    options = {"returns_self": True}

    def args(F):
        return dict(self=Obj(FixedTimezone), offset=F.int("offset"), name=None), [And(gt(F.named_int("offset!0"), -D * 400), True)]

    def requires(self, offset, name):
        return [("offset_is_int", sym.is_intlike(offset))]

    raises = [(OverflowError, "timedelta_range", lambda self, offset, name: Not(stdlib.td_in_range(sym.mul(offset, M))))]

    def result(F, self, offset, name):
        from pyvc.world import SymStr

        # without a name __init__ renders one from the offset ("+hh:mm"): an abstract, non-None string
        return stdlib.fixed_zone(FixedTimezone, offset, name if name is not None else SymStr([("fmt", offset, "utc-offset-name")]))

    def ensures(result, self, offset, name):
        return [("offset_recorded", eq(result._offset, offset)), ("utcoffset_is_that_many_seconds", eq(result._utcoffset.us, sym.mul(offset, M))),
                ("has_a_name", result._name is not None)]
