"""Declarations for the pickle / copy support methods (C14): small methods, re-executed where they are used."""
from pyvc.contract import transparent

transparent("pendulum.datetime.DateTime._getstate", "pendulum.datetime.DateTime.__reduce__", "pendulum.datetime.DateTime.__reduce_ex__",
            "pendulum.datetime.DateTime.__getnewargs__", "pendulum.datetime.DateTime.__deepcopy__",
            "pendulum.time.Time._get_state", "pendulum.time.Time.__reduce__", "pendulum.time.Time.__reduce_ex__", "pendulum.time.Time.__getnewargs__",
            "pendulum.interval.Interval._getstate", "pendulum.interval.Interval.__reduce__", "pendulum.interval.Interval.__reduce_ex__",
            "pendulum.duration.Duration.__deepcopy__", "pendulum.tz.timezone.FixedTimezone.__getinitargs__",
            why="pickle/copy support method: a few lines building the reconstruction arguments; verified through the C14 harness lemmas")
