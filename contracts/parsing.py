"""Sidecar contracts for pendulum/parsing/iso8601.py (C07, C13, C17): proof per string *shape*.

A shape fixes which syntactic options of ISO 8601 are used and how long each digit run is; the digits are
symbolic.  The expected value is constructive: the shape's digit runs ARE the fields of the value it denotes.
"""
import datetime as _dt
import itertools
import os

import pendulum
from pendulum.parsing.exceptions import ParserError
from pendulum.tz.timezone import FixedTimezone, Timezone

from pyvc import spec, stdlib, strings, sym
from pyvc.contract import contract, transparent
from pyvc.engine import Obj
from pyvc.spec import M
from pyvc.sym import And, If, Implies, Not, Or, eq, ge, gt, le, lt, ne

DATE_FORMS = ("none", "Y", "Y-M", "Y-M-D", "YMD", "Y-O", "YO", "Y-Ww", "YWw", "Y-Ww-D", "YWwD")
TIME_STRUCTS = ("hh", "hh:mm", "hh:mm:ss", "hhmm", "hhmmss")
TZ_FORMS = ("", "Z", "+hh", "-hh", "+hhmm", "-hhmm", "+hh:mm", "-hh:mm")


# times without the 'T' designator: the extended forms are covered by sep == "" above; of the basic forms only
# 'hh' and 'hhmmss' can be told from a date (a bare 'hhmm' IS a year), and a suffix after six bare digits is
# read as part of a date, so these two shapes are the whole bare-basic family the grammar can serve
BARE = [("none", "", "hh", None, ""), ("none", "", "hhmmss", None, "")]


class Builder:
    def __init__(self, F):
        self.F, self.chars, self.cons, self.n = F, [], [], 0

    def digits(self, k, hint):
        ds, cs = strings.fresh_digits(self.F, k, f"{hint}{self.n}_")
        self.n += 1
        self.chars += ds
        self.cons += cs
        v = 0
        for d in ds:
            v = sym.add(sym.mul(v, 10), d)
        return v, ds

    def lit(self, s):
        self.chars += list(s)


def build(F, date_form, sep, tstruct, frac, tz):
    """(CharStr, fields dict, digit constraints) of one well-formed ISO 8601 shape"""
    b = Builder(F)
    f = {}
    if date_form != "none":
        f["year"], _ = b.digits(4, "y")
        ext = "-" in date_form
        if date_form in ("Y-M", "Y-M-D", "YMD"):
            if ext:
                b.lit("-")
            f["month"], _ = b.digits(2, "mo")
            if date_form != "Y-M":
                if ext:
                    b.lit("-")
                f["day"], _ = b.digits(2, "d")
        elif date_form in ("Y-O", "YO"):
            if ext:
                b.lit("-")
            f["ordinal"], _ = b.digits(3, "o")
        elif "W" in date_form:
            if ext:
                b.lit("-")
            b.lit("W")
            f["isoweek"], _ = b.digits(2, "w")
            if date_form.endswith("D"):
                if ext:
                    b.lit("-")
                f["isoweekday"], _ = b.digits(1, "wd")
    if tstruct is not None:
        b.lit(sep)
        colon = ":" in tstruct
        f["hour"], _ = b.digits(2, "h")
        if tstruct != "hh":
            if colon:
                b.lit(":")
            f["minute"], _ = b.digits(2, "mi")
            if tstruct in ("hh:mm:ss", "hhmmss"):
                if colon:
                    b.lit(":")
                f["second"], _ = b.digits(2, "s")
        if frac:
            b.lit(frac[0])
            _, ds = b.digits(frac[1], "f")
            f["frac"] = ds
        if tz:
            if tz == "Z":
                b.lit("Z")
                f["tz"] = ("Z",)
            else:
                b.lit(tz[0])
                hh, _ = b.digits(2, "zh")
                mm = 0
                if "mm" in tz:
                    if ":" in tz:
                        b.lit(":")
                    mm, _ = b.digits(2, "zm")
                f["tz"] = (tz[0], hh, mm)
    return strings.CharStr(b.chars), f, b.cons


def micro(frac):
    """microseconds denoted by the fraction digits: the first six, extra digits truncated"""
    us = 0
    for i in range(6):
        us = sym.add(sym.mul(us, 10), frac[i] if i < len(frac) else 0)
    return us


def denoted(f):
    """validity and value of the fields of a shape: (valid, date triple or None, time quadruple or None, tz)"""
    date = None
    valid = True
    if "year" in f:
        y = f["year"]
        if "isoweek" in f:
            w, wd = f["isoweek"], f.get("isoweekday", 1)
            o = sym.add(spec.iso_week1_monday(y), sym.add(sym.mul(7, sym.sub(w, 1)), sym.sub(wd, 1)))
            # week 1 of year 0001 starts on 0001-01-01 itself; the last days of ISO year 9999 fall into calendar year
            # 10000, which no date object can hold: those strings are well formed but not representable
            valid = And(spec.valid_year(y), sym.between(1, w, 53), Or(le(w, 52), spec.iso_long_year(y)), sym.between(1, wd, 7),
                        sym.between(1, o, spec.MAXORD))
            date = ("ordinal", o)
        elif "ordinal" in f:
            valid = And(spec.valid_year(y), ge(f["ordinal"], 1), le(f["ordinal"], spec.diy(y)))
            date = ("ordinal", sym.add(spec.dby(y), f["ordinal"]))
        else:
            mo, d = f.get("month", 1), f.get("day", 1)
            valid = spec.valid_date(y, mo, d)
            date = ("ymd", y, mo, d)
    time = None
    if "hour" in f:
        h, mi, s = f["hour"], f.get("minute", 0), f.get("second", 0)
        us = micro(f["frac"]) if "frac" in f else 0
        valid = And(valid, spec.valid_time(h, mi, s, us))
        time = (h, mi, s, us)
    tz = f.get("tz")
    if tz is not None and tz != ("Z",):
        sign, hh, mm = tz
        off = sym.mul(sym.add(sym.mul(hh, 60), mm), 60)
        off = sym.neg(off) if sign == "-" else off
        # -23:59 .. +23:59: a tzinfo cannot hold 24 h or more, and minutes above 59 are not a time of day
        valid = And(valid, le(hh, 23), le(mm, 59))
        tz = ("offset", off)
    return valid, date, time, tz


def date_matches(result, date):
    if date[0] == "ymd":
        return And(eq(result.year, date[1]), eq(result.month, date[2]), eq(result.day, date[3]))
    return And(spec.valid_date(result.year, result.month, result.day), eq(spec.date_ord(result), date[1]))


def tz_matches(result, tz):
    t = result.f.get("tzinfo")
    if tz is None:
        return t is None
    if t is None:
        return False
    if tz == ("Z",):
        return t.f.get("key") == "UTC"
    return eq(t.f["_offset"], tz[1]) if "_offset" in t.f else False


def shape_name(date_form, sep, tstruct, frac, tz):
    return "|".join([date_form, {"T": "T", " ": "sp", "": "-", None: "-"}[sep], tstruct or "-", (f"{frac[0]}{frac[1]}" if frac else "-"), tz or "-"])


def shapes(tier):
    """covering family in the quick tier (every option of every group appears, adjacent groups in all combinations
    that change control flow); the full product of well-formed shapes in the thorough tier"""
    out = []
    fracs = [None] + [(c, k) for c in ".," for k in range(1, 10)]
    if tier == "thorough":
        # the full product of groups; fraction lengths 1, 2, 3, 6, 7, 9 with '.', and 1, 7 with ',' (the separator and the length
        # are handled by independent code: each length with one separator, each separator with a short and a long fraction)
        fracs = [None] + [(".", k) for k in (1, 2, 3, 6, 7, 9)] + [(",", 1), (",", 7)]
        for df in DATE_FORMS:
            if df != "none":
                out.append((df, None, None, None, ""))
            for sep in (("T", " ") if df != "none" else ("", "T")):
                for ts in TIME_STRUCTS:
                    if df == "none" and sep == "" and ":" not in ts:
                        continue   # without the T designator only the extended structures are times (bare hh / hhmmss: BARE)
                    for fr in (fracs if ts in ("hh:mm:ss", "hhmmss") else [None]):
                        for tz in TZ_FORMS:
                            out.append((df, sep, ts, fr, tz))
        out += BARE
        return out
    for df in DATE_FORMS:
        if df != "none":
            out.append((df, None, None, None, ""))
            out.append((df, "T", "hh:mm:ss", None, "Z"))
            out.append((df, " ", "hhmmss", (".", 6), "+hh:mm"))
    for ts in TIME_STRUCTS:
        for tz in TZ_FORMS:
            out.append(("Y-M-D", "T", ts, None, tz))
        out.append(("none", "T", ts, None, ""))
        out.append(("none", "", ts, None, "-hhmm") if ":" in ts else ("none", "T", ts, None, "-hhmm"))
    for fr in fracs[1:]:
        out.append(("Y-M-D", "T", "hh:mm:ss", fr, "" if fr[1] % 2 else "+hh"))
        if fr[1] in (1, 6, 7, 9):
            out.append(("none", "T", "hhmmss", fr, "Z"))
    out += BARE
    seen, uniq = set(), []
    for s in out:
        if s not in seen:
            seen.add(s)
            uniq.append(s)
    return uniq


def _shape_case(sh):
    date_form, sep, tstruct, frac, tz = sh

    class case:
        def applies(text):
            return False  # verification cases (call sites pass concrete strings or are served per shape)

        def args(F):
            text, f, cons = build(F, date_form, sep, tstruct, frac, tz)
            case._fields = f
            return dict(text=text), cons

        raises = [(ValueError, "impossible_date_time_or_offset", lambda text: Not(denoted(case._fields)[0]))]

        def result(F, text):
            raise NotImplementedError

        def ensures(result, text):
            valid, date, time, tzv = denoted(case._fields)
            out = []
            if date is not None and time is None:
                if not (isinstance(result, Obj) and result.cls is _dt.date):
                    return [("returns_a_date", False)]
                out.append(("returns_a_date", True))
                out.append(("the_date_it_denotes", date_matches(result, date)))
            elif date is None:
                if not (isinstance(result, Obj) and result.cls is _dt.time):
                    return [("returns_a_time", False)]
                out.append(("returns_a_time", True))
                out.append(("the_time_it_denotes", And(eq(result.hour, time[0]), eq(result.minute, time[1]), eq(result.second, time[2]), eq(result.microsecond, time[3]))))
                out.append(("the_offset_it_denotes", tz_matches(result, tzv)))
            else:
                if not (isinstance(result, Obj) and result.cls is _dt.datetime):
                    return [("returns_a_datetime", False)]
                out.append(("returns_a_datetime", True))
                out.append(("the_date_it_denotes", date_matches(result, date)))
                out.append(("the_time_it_denotes", And(eq(result.hour, time[0]), eq(result.minute, time[1]), eq(result.second, time[2]), eq(result.microsecond, time[3]))))
                out.append(("the_offset_it_denotes", tz_matches(result, tzv)))
            return out

        def replay(conc, model, o):
            """run the real parser on the model's string and compare with the value the shape denotes"""
            from pyvc.runner import model_value
            from pyvc.verify import resolve

            text = conc["text"]
            f = {k: model_value(v, model) for k, v in case._fields.items()}
            valid, date, time, tzv = denoted(f)
            fn, _ = resolve("pendulum.parsing.iso8601.parse_iso8601")
            try:
                got = ("ok", fn(text))
            except Exception as e:  # noqa: BLE001
                got = ("raise", e)
            exp = None
            if valid:
                if date is not None:
                    d = _dt.date(date[1], date[2], date[3]) if date[0] == "ymd" else _dt.date.fromordinal(date[1])
                tzo = None if tzv is None else (_dt.timezone.utc if tzv == ("Z",) else _dt.timezone(_dt.timedelta(seconds=tzv[1])))
                if date is not None and time is None:
                    exp = d
                elif date is None:
                    exp = _dt.time(*time, tzinfo=tzo)
                else:
                    exp = _dt.datetime(d.year, d.month, d.day, *time, tzinfo=tzo)
            if got[0] == "raise":
                bad = bool(valid) or not isinstance(got[1], ValueError)
                obs = f"raised {type(got[1]).__name__}: {got[1]}"
            else:
                r = got[1]
                obs = repr(r)
                if not valid:
                    bad = True
                else:
                    same_off = (getattr(r, "tzinfo", None) is None) == (getattr(exp, "tzinfo", None) is None) and (
                        getattr(r, "tzinfo", None) is None or r.utcoffset() == exp.utcoffset())
                    bad = not (type(r) is type(exp) and r.replace(tzinfo=None) == exp.replace(tzinfo=None) and same_off) if not isinstance(exp, _dt.date) or isinstance(exp, _dt.datetime) else r != exp
            return {"confirmed": bool(bad), "call": {"function": "pendulum.parsing.iso8601.parse_iso8601", "args": {"text": repr(text)}}, "observed": obs,
                    "expected": repr(exp) if valid else "ValueError (impossible date/time)", "failed_clauses": [o.id.split("#")[1].split("@")[0]] if bad else [],
                    "detail": "real parser disagrees with the value the string denotes" if bad else "real parser agrees on this input"}

    case.__name__ = shape_name(*sh)
    return case


def _all_cases():
    tier = os.environ.get("VERIF_TIER", "quick")
    return {shape_name(*sh): _shape_case(sh) for sh in shapes(tier)}


@contract("pendulum.parsing.iso8601.parse_iso8601", props=["C07", "C17"])
class parse_iso8601:
    cases = _all_cases()


transparent("pendulum.parsing.iso8601._get_iso_8601_week", "pendulum.parsing.iso8601._parse_iso8601_duration",
            why="helper of parse_iso8601: executed from its source inside the per-shape proofs")


# =========================================================================================== durations (C13)
from contracts import duration as _cd  # noqa: E402
from pendulum.duration import Duration  # noqa: E402
from pyvc.spec import DUS  # noqa: E402

UNITS = ("Y", "Mo", "W", "D", "H", "Mi", "S")
_LETTER = {"Y": "Y", "Mo": "M", "W": "W", "D": "D", "H": "H", "Mi": "M", "S": "S"}
_SCALE_US = {"W": 7 * DUS, "D": DUS, "H": 3600 * M, "Mi": 60 * M, "S": M}


def dur_build(F, comps, fsep="."):
    """comps: sequence of (unit, integer digits, fraction digits or 0) in the order written.
    returns (CharStr, {unit: (int value, fraction digit list)}, constraints)"""
    b = Builder(F)
    b.lit("P")
    vals = {}
    seen_t = False
    for unit, nd, nf in comps:
        if unit in ("H", "Mi", "S") and not seen_t:
            b.lit("T")
            seen_t = True
        v, _ = b.digits(nd, unit.lower())
        fr = []
        if nf:
            b.lit(fsep)
            _, fr = b.digits(nf, unit.lower() + "f")
        b.lit(_LETTER[unit])
        vals[unit] = (v, fr)
    return strings.CharStr(b.chars), vals, b.cons


def dur_wellformed(comps):
    """ISO 8601: designators in order, W alone, a fraction only on the last (smallest) component and never on years
    or months"""
    units = [u for u, _, _ in comps]
    order = [UNITS.index(u) for u in units]
    if order != sorted(set(order)):
        return False
    if "W" in units and len(units) > 1:
        return False
    for i, (u, _, nf) in enumerate(comps):
        if nf and (i != len(comps) - 1 or u in ("Y", "Mo")):
            return False
    return len(comps) > 0


def dur_exact_us(vals):
    """exact rational length in microseconds of the W/D/H/M/S components (a Real when there is a fraction)"""
    tot = 0
    for u, (v, fr) in vals.items():
        if u in ("Y", "Mo"):
            continue
        tot = sym.add(tot, sym.mul(v, _SCALE_US[u]))
        if fr:
            n = 0
            for d in fr:
                n = sym.add(sym.mul(n, 10), d)
            tot = sym.add(tot, sym.truediv(sym.mul(n, _SCALE_US[u]), 10 ** len(fr)))
    return tot


def dur_shape_name(comps, fsep="."):
    return "P:" + "".join(f"{u}{nd}" + (f"{fsep}{nf}" if nf else "") for u, nd, nf in comps)


def dur_shapes(tier):
    out = []
    time_units = ("H", "Mi", "S")
    ymd = ("Y", "Mo", "D")
    # every subset of the six designators, two digits each
    for mask in range(1, 64):
        comps = [(u, 2, 0) for i, u in enumerate(ymd + time_units) if mask >> i & 1]
        out.append((tuple(comps), "."))
    out.append(((("W", 2, 0),), "."))
    # integer widths 1..10 for every designator on its own
    for u in UNITS:
        for nd in (range(1, 11) if tier == "thorough" else (1, 3, 9, 10)):
            out.append((((u, nd, 0),), "."))
    # a fraction of 1..9 digits on the smallest component, alone and after a larger one
    for u, before in (("W", None), ("D", "Mo"), ("H", "D"), ("Mi", "H"), ("S", "Mi")):
        for nf in range(1, 10):
            for fsep in ((".", ",") if tier == "thorough" or nf in (1, 2) else (".",)):
                out.append((((u, 1, nf),), fsep))
                if before is not None and (tier == "thorough" or nf in (1, 2, 6, 7, 9)):
                    out.append((((before, 2, 0), (u, 2, nf)), fsep))
    out.append(((("Y", 4, 0), ("Mo", 2, 0), ("D", 2, 0), ("H", 2, 0), ("Mi", 2, 0), ("S", 2, 3)), "."))
    out.append(((("D", 10, 0), ("S", 10, 9)), ","))
    # not well formed: must be rejected
    for comps in ([("Y", 1, 1)], [("Mo", 1, 1)], [("Y", 1, 1), ("D", 1, 0)], [("Y", 1, 0), ("Mo", 1, 2)], [("D", 1, 1), ("H", 1, 0)], [("H", 1, 1), ("Mi", 1, 0)],
                  [("Mi", 1, 1), ("S", 1, 0)], [("D", 1, 1), ("S", 1, 0)], [("H", 1, 1), ("S", 1, 1)], [("W", 1, 0), ("D", 1, 0)], [("W", 1, 0), ("H", 1, 0)],
                  [("W", 1, 1), ("D", 1, 0)]):
        out.append((tuple(comps), "."))
    seen, uniq = set(), []
    for s in out:
        if s not in seen:
            seen.add(s)
            uniq.append(s)
    return uniq


def _dur_case(sh):
    comps, fsep = sh
    ok_form = dur_wellformed(comps)

    class case:
        def applies(text, **options):
            return False

        def args(F):
            text, vals, cons = dur_build(F, comps, fsep)
            case._vals = vals
            return dict(text=text, options={}), cons

        @staticmethod
        def _expected():
            vals = case._vals
            years = vals.get("Y", (0, []))[0]
            months = vals.get("Mo", (0, []))[0]
            R = dur_exact_us(vals)
            return years, months, R

        if ok_form:
            # representable: the native value (years = 365 d, months = 30 d) fits a timedelta
            raises = [(ValueError, "too_large_to_represent",
                       lambda text, options: Not(stdlib.td_in_range(sym.rhe(sym.toreal(sym.add(_cd.ym_us(case._expected()[0], case._expected()[1]), case._expected()[2]))))))]
        else:
            raises = [(ValueError, "not_well_formed", lambda text, options: True)]

        def result(F, text, options):
            raise NotImplementedError

        def ensures(result, text, options):
            years, months, R = case._expected()
            if not (isinstance(result, Obj) and issubclass(result.cls, Duration)):
                return [("returns_a_duration", False)]
            rem = sym.sub(sym.toreal(result.us), sym.toreal(sym.add(_cd.ym_us(years, months), R)))
            return [("returns_a_duration", True),
                    ("years_and_months_as_written", And(eq(result._years, years), eq(result._months, months))),
                    ("exact_value_rounded_to_the_microsecond", And(le(sym.mul(2, rem), 1), ge(sym.mul(2, rem), -1)))]

        def replay(conc, model, o):
            from fractions import Fraction

            from pyvc.verify import resolve

            text = conc["text"]
            fn, _ = resolve("pendulum.parsing.iso8601._parse_iso8601_duration")
            try:
                got = ("ok", fn(text))
            except Exception as e:  # noqa: BLE001
                got = ("raise", e)
            exp = dur_oracle(text)
            if got[0] == "raise":
                bad = not isinstance(got[1], ValueError) or exp is not None
                obs = f"raised {type(got[1]).__name__}: {got[1]}"
            else:
                r = got[1]
                obs = repr(r)
                if exp is None or r is None:
                    bad = True
                else:
                    native = Fraction(_dt.timedelta.total_seconds(r)).limit_denominator(10 ** 6) * 10 ** 6 if False else \
                        (_dt.timedelta.__sub__(r, _dt.timedelta(0)) // _dt.timedelta(microseconds=1))
                    want = exp[2] + (exp[0] * 365 + exp[1] * 30) * DUS
                    bad = not (r.years == exp[0] and r.months == exp[1] and abs(native - want) * 2 <= 1)
            return {"confirmed": bool(bad), "call": {"function": "pendulum.parsing.iso8601._parse_iso8601_duration", "args": {"text": repr(text)}}, "observed": obs,
                    "expected": ("ValueError (not well formed or too large)" if exp is None else f"years={exp[0]} months={exp[1]} remaining={exp[2]} us (exact)"),
                    "failed_clauses": [o.id.split("#")[1].split("@")[0]] if bad else [],
                    "detail": "real parser disagrees with the exact value of the string" if bad else "real parser agrees on this input"}

    case.__name__ = dur_shape_name(comps, fsep)
    return case


from bounded.isogen import dur_oracle  # noqa: E402  (independent native oracle, shared with the bounded sweeps)


def _dur_cases():
    tier = os.environ.get("VERIF_TIER", "quick")
    return {dur_shape_name(*sh): _dur_case(sh) for sh in dur_shapes(tier)}


@contract("pendulum.parsing.iso8601._parse_iso8601_duration", props=["C13", "C17"])
class parse_duration:
    cases = _dur_cases()


# =========================================================================================== totality (C17)
import datetime as _dtm  # noqa: E402

ALPHABET = "#:TZW/P+-., YMDHS"   # '#' stands for a digit (symbolic)

SEED_TEMPLATES = (
    # dates
    "####-##-##", "########", "####-###", "#######", "####-W##-#", "####W###", "####-W##", "####W##", "####-##", "####", "######", "##",
    # times
    "##:##:##", "T##:##:##", "T######", "##:##", "T####", "T##", "##:##:##.######", "##:##:##,###Z", "##:##:##+##:##", "##:##-####",
    # date-times
    "####-##-##T##:##:##", "####-##-## ##:##:##.######", "####-##-##T##:##:##Z", "####-##-##T##:##:##+##:##", "########T######-####", "####-###T##:##", "####-W##-#T##",
    # durations
    "P#Y#M#DT#H#M#S", "P#W", "PT#.#S", "P#.#D", "P##Y", "PT##H", "P#.##W", "P##########D", "P", "PT",
    # intervals
    "####-##-##T##:##:##Z/####-##-##T##:##:##Z", "####-##-##T##:##:##Z/P#Y#M", "P#DT#H/####-##-##T##:##:##Z", "####-##-##/####-##-##", "####-##-##/P#D",
    "P#D/####-##-##", "##:##/##:##", "P#D/P#D", "/", "####-##-##/", "/P#D",
    # common (non ISO) forms
    "####/##/##", "####:##:## #:#:#", "#:#", "#:", "####/##/## ##:##:##.###", "##:##:##|###", "",
)


def template_text(F, tmpl, hint="c"):
    chars, cons = [], []
    k = 0
    for ch in tmpl:
        if ch == "#":
            d = F.int(f"{hint}{k}")
            k += 1
            chars.append(d)
            cons.append(And(ge(d, 0), le(d, 9)))
        else:
            chars.append(ch)
    return strings.CharStr(chars), cons


def mutations(tmpl):
    """every single-character edit of the template over ALPHABET"""
    out = []
    for i in range(len(tmpl) + 1):
        for c in ALPHABET:
            out.append(tmpl[:i] + c + tmpl[i:])
            if i < len(tmpl) and c != tmpl[i]:
                out.append(tmpl[:i] + c + tmpl[i + 1:])
        if i < len(tmpl):
            out.append(tmpl[:i] + tmpl[i + 1:])
    for i in range(1, len(tmpl)):
        out.append(tmpl[:i])
    return out


def totality_templates(tier, seed=0):
    import random

    out = list(SEED_TEMPLATES)
    allm = []
    for t in SEED_TEMPLATES:
        allm += mutations(t)
    if tier == "thorough":
        out += allm
    else:
        rng = random.Random(1000 + seed)
        # every edit of a few short seeds + a seeded sample of the rest
        for t in ("####-##", "##:##", "P#W", "#:", "P#D/P#D", "T##"):
            out += mutations(t)
        out += rng.sample(allm, 900)
    seen, uniq = set(), []
    for t in out:
        if t not in seen:
            seen.add(t)
            uniq.append(t)
    return uniq


_RESULT_CLASSES = None


def _total_case(tmpl, exact, tz_none=False):
    class case:
        options = {"may_raise": (ValueError,)}

        def applies(text, **options):
            return False

        def args(F):
            text, cons = template_text(F, tmpl)
            a = dict(text=text, exact=exact)
            if tz_none:
                a["tz"] = None
            return a, cons

        def result(F, text, **options):
            raise NotImplementedError

        def ensures(result, text, **options):
            import pendulum as _pd

            ok = isinstance(result, Obj) and any(issubclass(result.cls, c) for c in (_pd.DateTime, _pd.Date, _pd.Time, _pd.Duration, _pd.Interval))
            return [("returns_a_supported_value", ok)]

        def replay(conc, model, o):
            from pyvc.verify import resolve

            text = conc["text"]
            import pendulum as _pd

            fn, _ = resolve("pendulum.parser.parse")
            try:
                r = fn(text, exact=exact, **({"tz": None} if tz_none else {}))
                obs, bad = repr(r), not isinstance(r, (_pd.DateTime, _pd.Date, _pd.Time, _pd.Duration, _pd.Interval))
            except ValueError as e:
                obs, bad = f"raised {type(e).__name__}: {e}", False
            except BaseException as e:  # noqa: BLE001
                obs, bad = f"raised {type(e).__name__}: {e}", True
            return {"confirmed": bool(bad), "call": {"function": "pendulum.parser.parse", "args": {"text": repr(text), "exact": exact}}, "observed": obs,
                    "expected": "a DateTime/Date/Time/Duration/Interval, or a ValueError", "failed_clauses": [o.id.split("#")[1].split("@")[0]] if bad else [],
                    "detail": "an exception other than ValueError escapes" if bad else "on this input the real function stays within the contract"}

    case.__name__ = f"{tmpl!r}" + (",exact" if exact else "") + (",tz=None" if tz_none else "")
    return case


def _total_cases():
    tier = os.environ.get("VERIF_TIER", "quick")
    out = {}
    for t in totality_templates(tier):
        c = _total_case(t, False)
        out[c.__name__] = c
    for t in SEED_TEMPLATES:
        c = _total_case(t, True)
        out[c.__name__] = c
    # tz=None (naive results): date-times and the interval forms, where naive and aware endpoints can meet
    for t in SEED_TEMPLATES:
        if "/" in t or ("T" in t and t[:1] == "#"):
            c = _total_case(t, False, tz_none=True)
            out[c.__name__] = c
    for t in ("####-##-##T##:##:##Z/####-##-##T##:##:##", "####-##-##T##:##:##/####-##-##T##:##:##+##:##", "####-##-##/####-##-##T##:##:##Z", "####-##-##T##:##:##/P#D"):
        c = _total_case(t, False, tz_none=True)
        out[c.__name__] = c
    return out


@contract("pendulum.parser.parse", props=["C17"])
class parser_parse:
    cases = _total_cases()


transparent("pendulum.interval.Interval.__new__", "pendulum.interval.Interval.__init__",
            why="fallback for endpoint pairs no Interval case covers (one named zone, one fixed offset): executed from the source in the totality proofs")
transparent("pendulum.date", "pendulum.time", "pendulum.duration", "pendulum.interval", "pendulum.instance", "pendulum.datetime.DateTime.instance",
            why="one-line factories of the public namespace")
transparent("pendulum.parser._parse", "pendulum.parsing.parse", "pendulum.parsing.iso8601.parse_iso8601", "pendulum.parsing._parse", "pendulum.parsing._normalize", "pendulum.parsing._parse_common", "pendulum.parsing._parse_iso8601_interval",
            "pendulum.parsing._interval_endpoint", "pendulum.parsing._Interval.__init__",
            why="parse(): the fallback chain is executed from its source inside the per-shape totality proofs")
