"""Sidecar contracts for pendulum/date.py (getters: C15; arithmetic: C04; navigation: C16; start/end: C12)."""
import pendulum

from pyvc import spec, stdlib, sym
from pyvc.contract import Loop, contract, transparent
from pyvc.sym import And, If, Implies, Not, Or, b2i, eq, ge, gt, le, lt, ne


def _self_date(F):
    o, c = stdlib.fresh_date(F, pendulum.Date, "self")
    return dict(self=o), [c]


@contract("pendulum.date.Date.day_of_week", props=["C15", "C16", "C12"])
class day_of_week:
    args = _self_date

    def value(self):
        return spec.weekday0(self.year, self.month, self.day)


@contract("pendulum.date.Date.day_of_year", props=["C15"])
class day_of_year:
    args = _self_date

    def value(self):
        return spec.doy(self.year, self.month, self.day)


@contract("pendulum.date.Date.week_of_year", props=["C15"])
class week_of_year:
    args = _self_date

    def result(F, self):
        return F.int("woy")

    def ensures(result, self):
        # ISO 8601 week number: there is an ISO year iy (y-1, y or y+1) whose week `result` contains the date
        # (stated through the Monday of ISO week 1, i.e. the week containing 4 January)
        o = spec.ordinal(self.year, self.month, self.day)
        y = self.year
        cands = []
        for iy in (sym.sub(y, 1), y, sym.add(y, 1)):
            w1 = spec.iso_week1_monday(iy)
            cands.append(And(le(w1, o), lt(o, spec.iso_week1_monday(sym.add(iy, 1))),
                             eq(result, sym.add(sym.fdiv(sym.sub(o, w1), 7), 1))))
        return [("iso_week", Or(*cands)), ("range", sym.between(1, result, 53))]


@contract("pendulum.date.Date.days_in_month", props=["C15", "C12"])
class days_in_month:
    args = _self_date

    def value(self):
        return spec.dim(self.year, self.month)


@contract("pendulum.date.Date.quarter", props=["C15", "C16"])
class quarter:
    args = _self_date

    def value(self):
        return spec.quarter(self.month)


@contract("pendulum.date.Date.is_leap_year", props=["C15"])
class is_leap_year:
    args = _self_date

    def value(self):
        return spec.leap(self.year)


@contract("pendulum.date.Date.is_long_year", props=["C15"])
class is_long_year:
    args = _self_date

    def value(self):
        return spec.iso_long_year(self.year)


# ========================================================================================== Date arithmetic (C04)
import datetime as _dt

from contracts import duration as _dur
from contracts.helpers import _add_duration_base
from pendulum.duration import Duration
from pyvc.engine import Obj
from pyvc.spec import DUS

_DU = ("years", "months", "weeks", "days")


def date_add_spec(self, u):
    """ordinal of self.add(**u): shift years/months, clamp the day, then whole days; and representability"""
    full = dict(u, hours=0, minutes=0, seconds=0, microseconds=0)
    ty, tmo, w = _add_duration_base._target(self, full)
    o = sym.fdiv(w, DUS)
    days_us = sym.mul(sym.add(sym.mul(u["weeks"], 7), u["days"]), DUS)
    return o, And(spec.valid_year(ty), stdlib.td_in_range(days_us), ge(o, 1), le(o, spec.MAXORD))


class _date_add_base:
    def requires(self, **u):
        return [("result_representable", date_add_spec(self, u)[1])]

    def result(F, self, **u):
        o, _ = stdlib.fresh_date(F, self.cls, "dsum")
        return o

    def ensures(result, self, **u):
        return [("valid_fields", spec.valid_date(result.year, result.month, result.day)), ("class", result.cls is self.cls),
                ("calendar_shift_clamp_then_days", eq(spec.date_ord(result), date_add_spec(self, u)[0]))]


def _date_args(F):
    o, c = stdlib.fresh_date(F, pendulum.Date, "self")
    a = dict(self=o)
    for n in _DU:
        a[n] = F.int(n)
    return a, [c]


def _is_pdate(x):
    return isinstance(x, Obj) and issubclass(x.cls, pendulum.Date) and not issubclass(x.cls, _dt.datetime)


@contract("pendulum.date.Date.add", props=["C04", "C16", "C19"])
class date_add(_date_add_base):
    args = _date_args

    def applies(self, **u):
        return _is_pdate(self)


def _neg(u):
    return {k: sym.neg(v) for k, v in u.items()}


def _date_delegation(units_of):
    class base:
        def requires(self, **a):
            return _date_add_base.requires(self, **units_of(**a))

        def result(F, self, **a):
            return _date_add_base.result(F, self, **units_of(**a))

        def ensures(result, self, **a):
            return _date_add_base.ensures(result, self, **units_of(**a))

    return base


@contract("pendulum.date.Date.subtract", props=["C04", "C16", "C19"])
class date_subtract(_date_delegation(lambda **u: _neg(u))):
    args = _date_args


def _date_with(kind, pname):
    def args(F):
        o, c = stdlib.fresh_date(F, pendulum.Date, "self")
        if kind == "duration":
            d, dc = _dur.fresh_duration(F, Duration, pname)
        else:
            d, dc = stdlib.fresh_td(F, _dt.timedelta, pname)
        return {"self": o, pname: d}, [c, dc]

    return args


def _dur_date_units(d, sign=1):
    return dict(years=sym.mul(d._years, sign), months=sym.mul(d._months, sign), weeks=sym.mul(d._weeks, sign), days=sym.mul(d._remaining_days, sign))


def _td_date_units(d, sign=1):
    # a plain timedelta moves a date by its (floor) day count
    return dict(years=0, months=0, weeks=0, days=sym.mul(sym.fdiv(d.us, DUS), sign))


def _date_td_contract(qualname, pname, sign):
    class on_duration(_date_delegation(lambda **a: _dur_date_units(a[pname], sign))):
        args = _date_with("duration", pname)
        applies = staticmethod(lambda **a: isinstance(a[pname], Obj) and a[pname].cls is Duration)

    class on_timedelta(_date_delegation(lambda **a: _td_date_units(a[pname], sign))):
        args = _date_with("timedelta", pname)
        applies = staticmethod(lambda **a: isinstance(a[pname], Obj) and a[pname].cls is _dt.timedelta)

    ns = type("date_td", (), {"cases": {"duration": on_duration, "timedelta": on_timedelta}})
    contract(qualname, props=["C04"])(ns)


_date_td_contract("pendulum.date.Date._add_timedelta", "delta", 1)
_date_td_contract("pendulum.date.Date._subtract_timedelta", "delta", -1)
_date_td_contract("pendulum.date.Date.__add__", "other", 1)
_date_td_contract("pendulum.date.Date.__sub__", "other", -1)


# ---- Date + Interval: the interval's calendar components (C06) ---------------------------------------------
def _iv_date_units(iv, sign=1):
    from pyvc.sym import absv

    dd = iv._delta.days
    sg = lambda ref, x: If(lt(ref, 0), sym.neg(x), x)
    weeks = sg(dd, sym.fdiv(absv(dd), 7))
    rdays = sg(iv._days, sym.fmod(absv(dd), 7))
    return dict(years=sym.mul(iv._delta.years, sign), months=sym.mul(iv._delta.months, sign), weeks=sym.mul(weeks, sign), days=sym.mul(rdays, sign))


def _add_interval_case(qualname, pname, sign):
    from pyvc.contract import REGISTRY, Case
    from pendulum.interval import Interval

    class on_interval(_date_delegation(lambda **a: _iv_date_units(a[pname], sign))):
        applies = staticmethod(lambda **a: isinstance(a[pname], Obj) and a[pname].cls is Interval)

    REGISTRY[qualname].cases.append(Case(qualname, "interval", on_interval, None))


_add_interval_case("pendulum.date.Date.__add__", "other", 1)
_add_interval_case("pendulum.date.Date._add_timedelta", "delta", 1)
