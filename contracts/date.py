"""Sidecar contracts for pendulum/date.py (getters: C15; arithmetic: C04; navigation: C16; start/end: C12)."""
import pendulum

from pyvc import spec, stdlib, sym
from pyvc.contract import Loop, contract, transparent
from pyvc.sym import And, If, Implies, Not, Or, b2i, eq, ge, gt, le, lt, ne


def _self_date(F):
    o, c = stdlib.fresh_date(F, pendulum.Date, "self")
    return dict(self=o), [c]


@contract("pendulum.date.Date.day_of_week", props=["C15", "C16", "C12"])
class day_of_week:
    args = _self_date

    def value(self):
        return spec.weekday0(self.year, self.month, self.day)


@contract("pendulum.date.Date.day_of_year", props=["C15"])
class day_of_year:
    args = _self_date

    def value(self):
        return spec.doy(self.year, self.month, self.day)


@contract("pendulum.date.Date.week_of_year", props=["C15"])
class week_of_year:
    args = _self_date

    def result(F, self):
        return F.int("woy")

    def ensures(result, self):
        # ISO 8601 week number: there is an ISO year iy (y-1, y or y+1) whose week `result` contains the date
        # (stated through the Monday of ISO week 1, i.e. the week containing 4 January)
        o = spec.ordinal(self.year, self.month, self.day)
        y = self.year
        cands = []
        for iy in (sym.sub(y, 1), y, sym.add(y, 1)):
            w1 = spec.iso_week1_monday(iy)
            cands.append(And(le(w1, o), lt(o, spec.iso_week1_monday(sym.add(iy, 1))),
                             eq(result, sym.add(sym.fdiv(sym.sub(o, w1), 7), 1))))
        return [("iso_week", Or(*cands)), ("range", sym.between(1, result, 53))]


@contract("pendulum.date.Date.days_in_month", props=["C15", "C12"])
class days_in_month:
    args = _self_date

    def value(self):
        return spec.dim(self.year, self.month)


@contract("pendulum.date.Date.quarter", props=["C15", "C16"])
class quarter:
    args = _self_date

    def value(self):
        return spec.quarter(self.month)


@contract("pendulum.date.Date.is_leap_year", props=["C15"])
class is_leap_year:
    args = _self_date

    def value(self):
        return spec.leap(self.year)


@contract("pendulum.date.Date.is_long_year", props=["C15"])
class is_long_year:
    args = _self_date

    def value(self):
        return spec.iso_long_year(self.year)
