"""Sidecar contracts for pendulum/date.py (getters: C15; arithmetic: C04; navigation: C16; start/end: C12)."""
import pendulum

from pyvc import spec, stdlib, sym
from pyvc.contract import Loop, contract, transparent
from pyvc.sym import And, If, Implies, Not, Or, b2i, eq, ge, gt, le, lt, ne


def _self_date(F):
    o, c = stdlib.fresh_date(F, pendulum.Date, "self")
    return dict(self=o), [c]


@contract("pendulum.date.Date.day_of_week", props=["C15", "C16", "C12"])
class day_of_week:
    args = _self_date

    def value(self):
        return spec.weekday0(self.year, self.month, self.day)


@contract("pendulum.date.Date.day_of_year", props=["C15"])
class day_of_year:
    args = _self_date

    def value(self):
        return spec.doy(self.year, self.month, self.day)


@contract("pendulum.date.Date.week_of_year", props=["C15"])
class week_of_year:
    args = _self_date

    def result(F, self):
        return F.int("woy")

    def ensures(result, self):
        # ISO 8601 week number: there is an ISO year iy (y-1, y or y+1) whose week `result` contains the date
        # (stated through the Monday of ISO week 1, i.e. the week containing 4 January)
        o = spec.ordinal(self.year, self.month, self.day)
        y = self.year
        cands = []
        for iy in (sym.sub(y, 1), y, sym.add(y, 1)):
            w1 = spec.iso_week1_monday(iy)
            cands.append(And(le(w1, o), lt(o, spec.iso_week1_monday(sym.add(iy, 1))),
                             eq(result, sym.add(sym.fdiv(sym.sub(o, w1), 7), 1))))
        return [("iso_week", Or(*cands)), ("range", sym.between(1, result, 53))]


@contract("pendulum.date.Date.days_in_month", props=["C15", "C12"])
class days_in_month:
    args = _self_date

    def value(self):
        return spec.dim(self.year, self.month)


@contract("pendulum.date.Date.quarter", props=["C15", "C16"])
class quarter:
    args = _self_date

    def value(self):
        return spec.quarter(self.month)


@contract("pendulum.date.Date.is_leap_year", props=["C15"])
class is_leap_year:
    args = _self_date

    def value(self):
        return spec.leap(self.year)


@contract("pendulum.date.Date.is_long_year", props=["C15"])
class is_long_year:
    args = _self_date

    def value(self):
        return spec.iso_long_year(self.year)


# ========================================================================================== Date arithmetic (C04)
import datetime as _dt

from contracts import duration as _dur
from contracts.helpers import _add_duration_base
from pendulum.duration import Duration
from pyvc.engine import Obj
from pyvc.spec import DUS

_DU = ("years", "months", "weeks", "days")


def date_add_spec(self, u):
    """ordinal of self.add(**u): shift years/months, clamp the day, then whole days; and representability"""
    full = dict(u, hours=0, minutes=0, seconds=0, microseconds=0)
    ty, tmo, w = _add_duration_base._target(self, full)
    o = sym.fdiv(w, DUS)
    days_us = sym.mul(sym.add(sym.mul(u["weeks"], 7), u["days"]), DUS)
    return o, And(spec.valid_year(ty), stdlib.td_in_range(days_us), ge(o, 1), le(o, spec.MAXORD))


class _date_add_base:
    def requires(self, **u):
        return [("result_representable", date_add_spec(self, u)[1])]

    def result(F, self, **u):
        o, _ = stdlib.fresh_date(F, self.cls, "dsum")
        return o

    def ensures(result, self, **u):
        return [("valid_fields", spec.valid_date(result.year, result.month, result.day)), ("class", result.cls is self.cls),
                ("calendar_shift_clamp_then_days", eq(spec.date_ord(result), date_add_spec(self, u)[0]))]


def _date_args(F):
    o, c = stdlib.fresh_date(F, pendulum.Date, "self")
    a = dict(self=o)
    for n in _DU:
        a[n] = F.int(n)
    return a, [c]


def _is_pdate(x):
    return isinstance(x, Obj) and issubclass(x.cls, pendulum.Date) and not issubclass(x.cls, _dt.datetime)


@contract("pendulum.date.Date.add", props=["C04", "C16", "C19"])
class date_add(_date_add_base):
    args = _date_args

    def applies(self, **u):
        return _is_pdate(self)


def _neg(u):
    return {k: sym.neg(v) for k, v in u.items()}


def _date_delegation(units_of):
    class base:
        def requires(self, **a):
            return _date_add_base.requires(self, **units_of(**a))

        def result(F, self, **a):
            return _date_add_base.result(F, self, **units_of(**a))

        def ensures(result, self, **a):
            return _date_add_base.ensures(result, self, **units_of(**a))

    return base


@contract("pendulum.date.Date.subtract", props=["C04", "C16", "C19"])
class date_subtract(_date_delegation(lambda **u: _neg(u))):
    args = _date_args


def _date_with(kind, pname):
    def args(F):
        o, c = stdlib.fresh_date(F, pendulum.Date, "self")
        if kind == "duration":
            d, dc = _dur.fresh_duration(F, Duration, pname)
        else:
            d, dc = stdlib.fresh_td(F, _dt.timedelta, pname)
        return {"self": o, pname: d}, [c, dc]

    return args


def _dur_date_units(d, sign=1):
    return dict(years=sym.mul(d._years, sign), months=sym.mul(d._months, sign), weeks=sym.mul(d._weeks, sign), days=sym.mul(d._remaining_days, sign))


def _td_date_units(d, sign=1):
    # a plain timedelta moves a date by its (floor) day count
    return dict(years=0, months=0, weeks=0, days=sym.mul(sym.fdiv(d.us, DUS), sign))


def _date_td_contract(qualname, pname, sign):
    class on_duration(_date_delegation(lambda **a: _dur_date_units(a[pname], sign))):
        args = _date_with("duration", pname)
        applies = staticmethod(lambda **a: isinstance(a[pname], Obj) and a[pname].cls is Duration)

    class on_timedelta(_date_delegation(lambda **a: _td_date_units(a[pname], sign))):
        args = _date_with("timedelta", pname)
        applies = staticmethod(lambda **a: isinstance(a[pname], Obj) and a[pname].cls is _dt.timedelta)

    ns = type("date_td", (), {"cases": {"duration": on_duration, "timedelta": on_timedelta}})
    contract(qualname, props=["C04"])(ns)


_date_td_contract("pendulum.date.Date._add_timedelta", "delta", 1)
_date_td_contract("pendulum.date.Date._subtract_timedelta", "delta", -1)
_date_td_contract("pendulum.date.Date.__add__", "other", 1)
_date_td_contract("pendulum.date.Date.__sub__", "other", -1)


# ---- Date + Interval: the interval's calendar components (C06) ---------------------------------------------
def _iv_date_units(iv, sign=1):
    from pyvc.sym import absv

    dd = iv._delta.days
    sg = lambda ref, x: If(lt(ref, 0), sym.neg(x), x)
    weeks = sg(dd, sym.fdiv(absv(dd), 7))
    rdays = sg(iv._days, sym.fmod(absv(dd), 7))
    return dict(years=sym.mul(iv._delta.years, sign), months=sym.mul(iv._delta.months, sign), weeks=sym.mul(weeks, sign), days=sym.mul(rdays, sign))


def _add_interval_case(qualname, pname, sign):
    from pyvc.contract import REGISTRY, Case
    from pendulum.interval import Interval

    class on_interval(_date_delegation(lambda **a: _iv_date_units(a[pname], sign))):
        applies = staticmethod(lambda **a: isinstance(a[pname], Obj) and a[pname].cls is Interval)

    REGISTRY[qualname].cases.append(Case(qualname, "interval", on_interval, None))


_add_interval_case("pendulum.date.Date.__add__", "other", 1)
_add_interval_case("pendulum.date.Date._add_timedelta", "delta", 1)


# ========================================================================================== weekday navigation (C16)
from pendulum.day import WeekDay


def dist_next(self, dow):
    """days to the nearest strictly later date that falls on weekday dow (Monday = 0): 1..7"""
    return sym.add(sym.fmod(sym.sub(sym.sub(dow, spec.weekday0(self.year, self.month, self.day)), 1), 7), 1)


def dist_prev(self, dow):
    return sym.add(sym.fmod(sym.sub(sym.sub(spec.weekday0(self.year, self.month, self.day), dow), 1), 7), 1)


def _nav_args(F):
    o, c = stdlib.fresh_date(F, pendulum.Date, "self")
    return dict(self=o, day_of_week=F.int("day_of_week")), [c]


def _nav_contract(qualname, sign):
    dist = dist_next if sign > 0 else dist_prev

    def _inv(e, en, a):
        j = sym.mul(sym.sub(spec.date_ord(e.dt), spec.date_ord(a.self)), sign)
        return [("steps", And(ge(j, 1), le(j, dist(a.self, e.day_of_week)))),
                ("valid", spec.valid_date(e.dt.year, e.dt.month, e.dt.day)),
                ("weekday_argument", And(eq(e.day_of_week, a.day_of_week), sym.between(0, e.day_of_week, 6))),
                ("class", e.dt.cls is a.self.cls)]

    @contract(qualname, props=["C16", "C12"])
    class nav:
        args = _nav_args

        def applies(self, day_of_week=None):
            return _is_pdate(self) and day_of_week is not None

        def requires(self, day_of_week):
            o = sym.add(spec.date_ord(self), sym.mul(7, sign))
            return [("within_the_calendar", And(ge(o, 1), le(o, spec.MAXORD)))]

        raises = [(ValueError, "invalid_weekday", lambda self, day_of_week: Not(sym.between(0, day_of_week, 6)))]

        def result(F, self, day_of_week):
            o, _ = stdlib.fresh_date(F, self.cls, "nav")
            return o

        def ensures(result, self, day_of_week):
            return [("valid_fields", spec.valid_date(result.year, result.month, result.day)), ("class", result.cls is self.cls),
                    ("falls_on_the_weekday", eq(spec.weekday0(result.year, result.month, result.day), day_of_week)),
                    ("nearest_strictly_later_or_earlier_1_to_7_days", eq(spec.date_ord(result), sym.add(spec.date_ord(self), sym.mul(dist(self, day_of_week), sign))))]

        loops = {0: Loop(_inv, variant=lambda e, en, a: sym.sub(dist(a.self, e.day_of_week), sym.mul(sym.sub(spec.date_ord(e.dt), spec.date_ord(a.self)), sign)))}

    return nav


_nav_contract("pendulum.date.Date.next", 1)
_nav_contract("pendulum.date.Date.previous", -1)

transparent("pendulum.date.Date.set", "pendulum.date.Date.replace", "pendulum.date.Date._first_of_month", "pendulum.date.Date._last_of_month",
            "pendulum.date.Date._first_of_quarter", "pendulum.date.Date._last_of_quarter", "pendulum.date.Date._first_of_year",
            "pendulum.date.Date._last_of_year", "pendulum.date.Date._start_of_day", "pendulum.date.Date._end_of_day",
            why="small helper: its real body is re-executed where it is called (first_of / last_of / start_of are the contracted entry points)")


def unit_months(self, unit):
    """(first month, last month) of the month / quarter / year that contains the date"""
    if unit == "month":
        return self.month, self.month
    if unit == "quarter":
        q = spec.quarter(self.month)
        return sym.sub(sym.mul(q, 3), 2), sym.mul(q, 3)
    return 1, 12


def first_wd(y, m, dow):
    return sym.add(1, sym.fmod(sym.sub(dow, spec.weekday0(y, m, 1)), 7))


def last_wd(y, m, dow):
    last = spec.dim(y, m)
    return sym.sub(last, sym.fmod(sym.sub(spec.weekday0(y, m, last), dow), 7))


def _of_contract(qualname, first):
    def mkcase(unit, with_dow):
        class case:
            def applies(self, unit, day_of_week=None, _u=unit, _w=with_dow):
                return _is_pdate(self) and unit == _u and (day_of_week is not None) == _w

            def args(F):
                o, c = stdlib.fresh_date(F, pendulum.Date, "self")
                return dict(self=o, unit=unit, day_of_week=F.int("day_of_week") if with_dow else None), [c]

            def requires(self, unit, day_of_week):
                return [("weekday_0_to_6", True if day_of_week is None else sym.between(0, day_of_week, 6))]

            def result(F, self, unit, day_of_week):
                o, _ = stdlib.fresh_date(F, self.cls, "of")
                return o

            def ensures(result, self, unit, day_of_week):
                m1, m2 = unit_months(self, unit)
                mth = m1 if first else m2
                if day_of_week is None:
                    day = 1 if first else spec.dim(self.year, mth)
                else:
                    day = first_wd(self.year, mth, day_of_week) if first else last_wd(self.year, mth, day_of_week)
                out = [("valid_fields", spec.valid_date(result.year, result.month, result.day)), ("class", result.cls is self.cls),
                       ("inside_the_unit", And(eq(result.year, self.year), eq(result.month, mth))),
                       ("the_first_or_last_such_day", eq(result.day, day))]
                if day_of_week is not None:
                    out.append(("falls_on_the_weekday", eq(spec.weekday0(result.year, result.month, result.day), day_of_week)))
                return out

        return case

    cases = {}
    for unit in ("month", "quarter", "year"):
        cases[f"{unit}.weekday"] = mkcase(unit, True)
        cases[f"{unit}.plain"] = mkcase(unit, False)
    ns = type("of", (), {"cases": cases})
    contract(qualname, props=["C16", "C15", "C12"])(ns)


_of_contract("pendulum.date.Date.first_of", True)
_of_contract("pendulum.date.Date.last_of", False)


@contract("pendulum.date.Date.week_of_month", props=["C15"])
class week_of_month:
    args = _self_date

    def value(self):
        # row (1-based) of calendar.monthcalendar that holds the day: Monday-first weeks
        return sym.add(sym.fdiv(sym.sub(sym.add(self.day, spec.weekday0(self.year, self.month, 1)), 1), 7), 1)

from pendulum.exceptions import PendulumException


def _nth_inv(e, en, a):
    """after i iterations dt is the i-th step from the first day of the month towards the n-th weekday"""
    y, m = a.self.year, a.self.month
    first_ord = spec.ordinal(y, m, 1)
    f = first_wd(y, m, a.day_of_week)
    on_first = eq(spec.weekday0(y, m, 1), a.day_of_week)
    i = e["__i__"]
    off = If(eq(i, 0), 0, sym.add(sym.sub(f, 1), sym.mul(7, sym.add(sym.sub(i, 1), sym.b2i(on_first)))))
    return [("position", eq(spec.date_ord(e.dt), sym.add(first_ord, off))), ("valid", spec.valid_date(e.dt.year, e.dt.month, e.dt.day)),
            ("class", e.dt.cls is a.self.cls), ("bound", le(i, en["__n__"])),
            ("check_is_the_instance_month", And(eq(e.check.year, y), eq(e.check.month, m)))]


@contract("pendulum.date.Date._nth_of_month", props=["C16"])
class nth_of_month:
    def args(F):
        o, c = stdlib.fresh_date(F, pendulum.Date, "self")
        return dict(self=o, nth=F.int("nth"), day_of_week=F.int("day_of_week")), [c]

    def requires(self, nth, day_of_week):
        return [("n_and_weekday_in_range", And(sym.between(1, nth, 54), sym.between(0, day_of_week, 6))),
                ("within_the_calendar", le(sym.add(spec.ordinal(self.year, self.month, 1), sym.mul(7, 55)), spec.MAXORD))]

    @staticmethod
    def _day(self, nth, day_of_week):
        return sym.add(first_wd(self.year, self.month, day_of_week), sym.mul(7, sym.sub(nth, 1)))

    def result(F, self, nth, day_of_week):
        raise NotImplementedError("result is an object or None: used through nth_of only")

    def ensures(result, self, nth, day_of_week):
        d = nth_of_month._day(self, nth, day_of_week)
        fits = le(d, spec.dim(self.year, self.month))
        if result is None:
            return [("none_exactly_when_the_month_has_fewer", Not(fits))]
        return [("n_th_weekday_inside_the_month", And(fits, eq(result.year, self.year), eq(result.month, self.month), eq(result.day, d))),
                ("class", result.cls is self.cls)]

    loops = {0: Loop(_nth_inv)}
