#!/bin/sh
# Builds /verif/.venv offline: python 3.12 (the interpreter the repository runs on) with the
# solver / contract wheels from the offline wheelhouse, plus a .pth that exposes /venv's
# site-packages (pendulum's editable install and its third-party deps).
set -e
cd "$(dirname "$0")"
if [ -x .venv/bin/python ] && .venv/bin/python -c "import z3, jsonschema, pendulum" 2>/dev/null; then
  echo "setup: .venv already usable"; exit 0
fi
rm -rf .venv
/venv/bin/python -m venv .venv
PIP_NO_INDEX=1 .venv/bin/python -m pip install -q --no-index --find-links /opt/veriftools/wheels \
   z3-solver cvc5 jsonschema deal icontract crosshair-tool >/dev/null
SP=$(.venv/bin/python -c "import sysconfig; print(sysconfig.get_paths()['purelib'])")
echo "import site; site.addsitedir('/venv/lib/python3.12/site-packages')" > "$SP/_repo_deps.pth"
.venv/bin/python -c "import z3, jsonschema, pendulum; print('setup ok: z3', z3.get_version_string(), 'pendulum from', pendulum.__file__)"
