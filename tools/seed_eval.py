#!/usr/bin/env python3
"""Confirms a seeded change (patch + demo) in its scratch worktree, runs the named check against it applied to
/repo, undoes it, and files it under /verif/seeded/<prop>-<n>/.  Usage: seed_eval.py <PROP> <worktree> <n> [check ids...]"""
import json, os, re, shutil, subprocess, sys, time
prop, wt, n = sys.argv[1], sys.argv[2], sys.argv[3]
checks = sys.argv[4:] or [prop]
mdir = os.path.join(wt, "mutations", n)
patch = os.path.join(mdir, "patch.diff")
def sh(cmd, cwd=None, env=None, timeout=3000):
    p = subprocess.run(cmd, shell=True, cwd=cwd, capture_output=True, text=True, env=env, timeout=timeout)
    return p.returncode, p.stdout + p.stderr
meta = {"property": prop, "source": f"sub-agent in scratch worktree {wt}", "n": n}
notes = open(os.path.join(mdir, "notes.md")).read() if os.path.exists(os.path.join(mdir, "notes.md")) else ""
rust = "rust/" in open(patch).read()
env = dict(os.environ, PYTHONPATH=f"{wt}/src", PENDULUM_EXTENSIONS="1" if rust else "0")
sh("git checkout -- .", cwd=wt)
rc0, _ = sh(f"/venv/bin/python mutations/{n}/demo.py", cwd=wt, env=env)
rc, out = sh(f"git apply {patch}", cwd=wt)
assert rc == 0, out
if rust:
    rcb, outb = sh(f"cd {wt}/rust && PYO3_PYTHON=/venv/bin/python cargo build --release --offline --target-dir /tmp/seed_target && cp /tmp/seed_target/release/lib_pendulum.so {wt}/src/pendulum/_pendulum.cpython-312-x86_64-linux-gnu.so")
    assert rcb == 0, outb[-500:]
rc1, demo_out = sh(f"/venv/bin/python mutations/{n}/demo.py", cwd=wt, env=env)
rct, tout = sh("/venv/bin/python -m pytest -q -p no:cacheprovider --timeout=900 2>&1 | tail -1", cwd=wt, env=dict(os.environ, PYTHONPATH=f"{wt}/src"))
sh("git checkout -- .", cwd=wt)
if rust:
    shutil.copy("/repo/src/pendulum/_pendulum.cpython-312-x86_64-linux-gnu.so", f"{wt}/src/pendulum/")
    shutil.rmtree("/tmp/seed_target", ignore_errors=True)
meta.update(demo_without_change_exit=rc0, demo_with_change_exit=rc1, suite_with_change=tout.strip().splitlines()[-1] if tout.strip() else "",
            confirmed=(rc0 == 0 and rc1 != 0 and "1606 passed" in tout))
# run my checks against /repo with the change (evidence files of the unchanged tree are preserved)
res = {}
import tempfile
_ev_backup = tempfile.mkdtemp(prefix="evbak_")
for f in os.listdir("/verif/evidence"):
    shutil.copy(os.path.join("/verif/evidence", f), _ev_backup)
# the change is applied in the scratch worktree and the checks are pointed at it (--repo): same generator, same contracts,
# nothing written to /verif/evidence, and /repo stays untouched so that other runs are not disturbed
rc, out = sh(f"git apply {patch}", cwd=wt)
assert rc == 0, out
try:
    for c in checks:
        t0 = time.time()
        rcc, outc = sh(f"./check {c} --tier quick --repo {wt}", cwd="/verif")
        viol = [l for l in outc.splitlines() if l.startswith(("VIOLATION", "UNDECIDED", "CHECKER-ERROR"))]
        res[c] = {"exit": rcc, "lines": [v[:300] for v in viol[:6]], "n_lines": len(viol), "wall_s": round(time.time() - t0)}
finally:
    sh("git checkout -- .", cwd=wt)
    for f in os.listdir(_ev_backup):
        shutil.copy(os.path.join(_ev_backup, f), "/verif/evidence")
    shutil.rmtree(_ev_backup, ignore_errors=True)
meta["checks"] = res
meta["detected"] = any(r["exit"] == 1 for r in res.values())
meta["needs"] = notes[:1500]
meta["ran"] = f"git apply patch in scratch worktree; demo.py with/without; full pytest with the change; then the patch applied in the worktree and ./check {' '.join(checks)} --tier quick --repo <worktree>; git checkout -- ."
dst = f"/verif/seeded/{prop}-{n}"
os.makedirs(dst, exist_ok=True)
shutil.copy(patch, dst + "/patch.diff"); shutil.copy(os.path.join(mdir, "demo.py"), dst + "/demo.py")
json.dump(meta, open(dst + "/meta.json", "w"), indent=1)
print(prop, n, "confirmed" if meta["confirmed"] else "NOT-CONFIRMED", "detected" if meta["detected"] else "MISSED", {c: (r["exit"], r["wall_s"]) for c, r in res.items()})
for c, r in res.items():
    for l in r["lines"][:3]: print("   ", l[:220])
