"""debug: verify one case of one contract serially: tools/onecase.py <prop> <qualname> <case-regex>  (run through ./check's env)"""
import importlib, os, re, sys, time
from pyvc import main as _m
_m.load_contracts()
pid, qn, rx = sys.argv[1], sys.argv[2], sys.argv[3]
P = importlib.import_module(f"props.{pid}")
from pyvc import verify, runner
from pyvc.contract import REGISTRY
run = runner.Run(pid, "quick", 0, None, time.time())
entry = REGISTRY[qn]
for case in entry.cases:
    if not re.search(rx, case.name):
        continue
    t = time.time()
    rep = verify.verify_case(run.world, entry, case)
    print(case.name, "paths", getattr(rep, "paths", None), "obls", len(rep.obligations), "err", rep.error, f"{time.time()-t:.1f}s")
    for o in rep.obligations[:40]:
        print("   ", o.id)
    if os.environ.get("SOLVE"):
        import z3
        from pyvc import solve
        for o in rep.obligations:
            hints = run.world.hints_for(o.hyps + [o.goal])
            smt = solve.to_smt2(o.hyps, o.goal, hints)
            s = z3.Solver(); s.set("timeout", int(os.environ.get("SOLVE")) * 1000)
            s.from_string(smt)
            t1 = time.time(); r = s.check()
            print(f"      {r} {time.time()-t1:.1f}s {o.id}")
