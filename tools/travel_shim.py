"""pytest plugin (-p travel_shim): the sandbox has no time_machine, so pendulum.travel_to() is replaced by a context manager
that freezes pendulum.now() - enough for the from_format tests of the repository's suite, which only read 'now'."""
import contextlib

import pytest


@pytest.fixture(autouse=True)
def _travel_shim(monkeypatch):
    import pendulum

    @contextlib.contextmanager
    def travel_to(dt, freeze=False):
        real_now = pendulum.now

        def now(tz=None):
            return dt.in_timezone(tz) if tz is not None and tz != "local" else dt

        pendulum.now = now
        try:
            yield
        finally:
            pendulum.now = real_now

    monkeypatch.setattr(pendulum, "travel_to", travel_to)
    yield
