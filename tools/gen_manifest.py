#!/usr/bin/env python3
"""Regenerates MANIFEST.json from props/*.py (MANIFEST_ENTRY dicts) - keeps the manifest valid at all times."""
import importlib, json, os, sys
ROOT = os.path.dirname(os.path.dirname(os.path.abspath(__file__)))
sys.path.insert(0, ROOT)
props = [json.loads(l)["id"] for l in open(os.path.join(ROOT, "properties.jsonl"))]
checks, na = [], []
for pid in props:
    path = os.path.join(ROOT, "props", f"{pid}.py")
    entry = None
    if os.path.exists(path):
        src = open(path).read()
        ns = {}
        # MANIFEST_ENTRY is a literal dict at the end of the module, evaluated without importing pyvc
        if "MANIFEST_ENTRY" in src:
            seg = src[src.index("MANIFEST_ENTRY"):]
            exec(seg, ns)
            entry = ns["MANIFEST_ENTRY"]
    if entry is None or entry.get("not_applicable"):
        na.append({"property_id": pid, "reason": (entry or {}).get("not_applicable", "check not built yet in this round (see DESIGN.md section 11 build order)")})
        continue
    checks.append({
        "property_id": pid,
        "quick_cmd": f"./check {pid} --tier quick",
        "thorough_cmd": f"./check {pid} --tier thorough",
        "evidence_file": f"/verif/evidence/{pid}.json",
        "replay_cmd_template": f"./check {pid} --replay {{path}}",
        "engine": "pyvc",
        "level_claimed": {"category": "proof", "text": entry["text"], "design_ref": entry.get("design_ref", "DESIGN.md section 8")},
        "level_note": entry["note"],
        "technique": entry["technique"],
    })
man = {
    "version": 1,
    "setup_cmd": "./setup.sh",
    "hooks": {"guard": "PENDULUM_VERIF", "enable": "no source hooks are needed: contracts are sidecar files under /verif/contracts and the verified text is re-read from /repo/src on every run",
              "baseline_off_cmd": "cd /repo && /venv/bin/python -m pytest -ra -q -p no:cacheprovider --timeout=900 --continue-on-collection-errors",
              "source_commits": [], "add_only": True},
    "engines": [{"name": "pyvc", "path": "/verif/pyvc", "serves_properties": [c["property_id"] for c in checks],
                 "kind_free_text": "own verification-condition generator: Python ast of the real functions -> symbolic execution against sidecar contracts (modular calls, loop invariants) -> z3 / cvc5; counterexamples replayed on the real code; bounded run-time stand-ins labelled as such"}],
    "checks": checks,
    "not_applicable": na,
    "notes": "Contract-based deductive verification of the real Python source (see DESIGN.md). Exit codes: 0 held, 1 violation, 2 undecided, 3 checker error.",
}
json.dump(man, open(os.path.join(ROOT, "MANIFEST.json"), "w"), indent=1)
print("checks:", [c["property_id"] for c in checks], "n/a:", len(na))
