"""World: how the executor sees objects, classes, calls and loops.

* names/classes/methods are resolved through the *real* imported modules and the *real* MRO;
* repo functions -> sidecar contract, or transparent re-execution when explicitly declared;
* stdlib functions -> assumed contracts (stdlib.py), listed in evidence;
* loops -> invariants of the contract under verification, keyed by source-order ordinal.
"""
from __future__ import annotations

import ast
import builtins
import datetime as _dt
import enum
import inspect
import math
import types
import zoneinfo
from fractions import Fraction

import z3

from . import sym, spec
from .contract import REGISTRY, TRANSPARENT
from .engine import (BoundMethod, Closure, ExcVal, Executor, Fresh, NeedsContract, Obj, PartialVar, State, SuperProxy,
                     Unsupported, function_node)
from .sym import is_sym, z

M = 10 ** 6


class SymName:
    """a symbolic string identified by an integer token (time-zone names)"""

    _symstr = True

    def __init__(self, tok, model=None):
        self.tok = tok
        self.model = model  # (T, o) of the zone this name denotes, when known

    def __repr__(self):
        return f"SymName({self.tok})"


class SymStr:
    """an abstract string: a sequence of literal pieces and formatted symbolic values (never inspected)"""

    _symstr = True

    def __init__(self, parts):
        self.parts = list(parts)

    def __repr__(self):
        return f"SymStr({self.parts})"


class SymRange:
    def __init__(self, n):
        self.n = n


def qualname_of(fn):
    mod = getattr(fn, "__module__", None)
    qn = getattr(fn, "__qualname__", None)
    if mod is None or qn is None:
        return None
    return f"{mod}.{qn}"


def is_repo_module(modname):
    return modname is not None and (modname == "pendulum" or modname.startswith("pendulum."))


MISSING = type('Missing', (), {'__repr__': lambda s: 'MISSING', '__bool__': lambda s: False})()


class World:
    _instances = []

    def __init__(self):
        World._instances.append(self)
        self.stdlib = {}        # native callable (by id) -> handler
        self.stdlib_obj = {}    # keep the natives alive
        self.new_handlers = {}  # class -> __new__ handler
        self.c_fields = {}      # (owner class, attr) -> reader
        self.truth_handlers = []
        self.binop_handlers = {}
        self.overrides = {}
        self._lift_cache = {}
        self._hint_cache = {}
        self._term_cache = {}
        self._keep = []
        self.assumed_used = set()
        self.transparent_used = set()
        self.contracts_used = set()
        self.case = None        # contract case under verification (for loops)
        self.case_fn = None
        self.loop_order = {}
        from . import stdlib

        stdlib.install(self)

    # ------------------------------------------------------------------ registration helpers
    def reg(self, native, handler, label=None):
        self.stdlib[id(native)] = (handler, label or getattr(native, "__qualname__", repr(native)))
        self.stdlib_obj[id(native)] = native

    # ------------------------------------------------------------------ lifting native values
    def lift(self, v):
        if v is None or isinstance(v, (bool, str, bytes)):
            return v
        if isinstance(v, enum.IntEnum):
            return int(v)
        if isinstance(v, int):
            return v
        if isinstance(v, float):
            if v != v or v in (math.inf, -math.inf):
                return v
            return Fraction(v)
        if isinstance(v, tuple) and hasattr(v, "_fields"):
            return Obj(type(v), **{k: self.lift(getattr(v, k)) for k in v._fields})
        if isinstance(v, tuple):
            return tuple(self.lift(x) for x in v)
        if isinstance(v, list):
            return [self.lift(x) for x in v]
        if isinstance(v, dict):
            return {k: self.lift(x) for k, x in v.items()}
        if isinstance(v, (types.ModuleType, type, types.FunctionType, types.BuiltinFunctionType,
                          types.MethodDescriptorType, types.WrapperDescriptorType, classmethod, staticmethod,
                          property, types.MethodType, Obj, Closure, BoundMethod)):
            return v
        key = id(v)
        if key in self._lift_cache:
            return self._lift_cache[key][1]
        o = self._lift_instance(v)
        self._lift_cache[key] = (v, o)
        return o

    def _lift_instance(self, v):
        oid = ("native", id(v))
        pyattrs = {}
        d = getattr(v, "__dict__", None)
        if isinstance(d, dict):
            for k, x in d.items():
                try:
                    pyattrs[k] = self.lift(x)
                except Unsupported:
                    pass
        if isinstance(v, _dt.datetime):
            return Obj(type(v), oid=oid, year=v.year, month=v.month, day=v.day, hour=v.hour, minute=v.minute,
                       second=v.second, microsecond=v.microsecond, tzinfo=self.lift(v.tzinfo), fold=v.fold, **pyattrs)
        if isinstance(v, _dt.date):
            return Obj(type(v), oid=oid, year=v.year, month=v.month, day=v.day, **pyattrs)
        if isinstance(v, _dt.time):
            return Obj(type(v), oid=oid, hour=v.hour, minute=v.minute, second=v.second, microsecond=v.microsecond,
                       tzinfo=self.lift(v.tzinfo), fold=v.fold, **pyattrs)
        if isinstance(v, _dt.timedelta):
            us = (v.days * 86400 + _dt.timedelta.seconds.__get__(v)) * M + _dt.timedelta.microseconds.__get__(v)
            return Obj(type(v), oid=oid, us=us, **pyattrs)
        if isinstance(v, zoneinfo.ZoneInfo):
            if v.key in ("UTC", "Etc/UTC"):
                return Obj(type(v), oid=oid, key=v.key, T=(), o=(0,), **pyattrs)
            # a concrete zone: answered by the real object (native evaluation of contracts, replay)
            return Obj(type(v), oid=oid, key=v.key, native=v, **pyattrs)
        if isinstance(v, _dt.tzinfo) and hasattr(v, "_offset"):
            return Obj(type(v), oid=oid, **pyattrs)
        if isinstance(v, _dt.timezone):
            off = v.utcoffset(None)
            return Obj(type(v), oid=oid, off=int(off.total_seconds()))
        if isinstance(v, (set, frozenset)):
            return v
        # opaque native object (formatter instances, locale objects, ...): kept as is
        return v

    def global_override(self, modname, name):
        return self.overrides.get((modname, name))

    # ------------------------------------------------------------------ solver hints
    def hints_for(self, formulas):
        """Gregorian decomposition hints for every term that occurs under div/mod by 4, 100 or 400"""
        terms = {}
        cache = self._term_cache

        def collect(e):
            """ids of year-like terms under e (memoised per sub-formula)"""
            key = e.get_id()
            if key in cache:
                return cache[key]
            found = {}
            if z3.is_app(e):
                k = e.decl().kind()
                if k in (z3.Z3_OP_IDIV, z3.Z3_OP_MOD) and z3.is_int_value(e.arg(1)) and e.arg(1).as_long() in (4, 100, 400):
                    if not z3.is_int_value(e.arg(0)):
                        t = e.arg(0)
                        found[t.get_id()] = t
                for c in e.children():
                    found.update(collect(c))
            cache[key] = found
            self._keep.append(e)
            return found

        for f in formulas:
            if is_sym(f):
                terms.update(collect(f))
        hints = []
        for tid, t in terms.items():
            if tid not in self._hint_cache:
                self._hint_cache[tid] = spec.greg_hint(t, str(tid))
            hints.extend(self._hint_cache[tid])
        return hints

    # ------------------------------------------------------------------ objects
    def obj_truth(self, o):
        for pred, h in self.truth_handlers:
            if pred(o):
                return h(o)
        # an instance of a class defining neither __bool__ nor __len__ is truthy
        for c in o.cls.__mro__:
            if "__bool__" in c.__dict__ or "__len__" in c.__dict__:
                raise Unsupported(f"truthiness of {o.cls.__name__}")
        return True

    def mro_find(self, cls, attr, after=None):
        mro = cls.__mro__
        if after is not None:
            mro = mro[mro.index(after) + 1:]
        for c in mro:
            if attr in c.__dict__:
                return c.__dict__[attr], c
        return MISSING, None

    def obj_getattr(self, ex, st, o, attr, line):
        d, owner = self.mro_find(o.cls, attr)
        if attr == "__class__":
            yield st, o.cls
            return
        if d is MISSING:
            if attr in o.f:
                yield st, o.f[attr]
                return
            if attr == "__dict__":
                raise Unsupported(f"__dict__ access at line {line}")
            ex.pending_raise(st, ExcVal(AttributeError, line=line))
            return
        if isinstance(d, property):
            yield from self.call(ex, st, d.fget, [o], {}, line, owner=owner)
            return
        if isinstance(d, (types.GetSetDescriptorType, types.MemberDescriptorType)):
            rd = self.c_fields.get((owner, attr))
            if rd is None:
                raise Unsupported(f"C-level attribute {owner.__name__}.{attr} at line {line}")
            yield st, rd(o)
            return
        if attr in o.f and not attr.startswith("__"):
            yield st, o.f[attr]
            return
        yield st, self._bind(o, d, owner)

    def _bind(self, o, d, owner):
        if isinstance(d, types.FunctionType):
            return BoundMethod(o, d, owner)
        if isinstance(d, classmethod):
            return BoundMethod(o.cls if isinstance(o, Obj) else o, d.__func__, owner)
        if isinstance(d, staticmethod):
            return d.__func__
        if isinstance(d, (types.MethodDescriptorType, types.WrapperDescriptorType)):
            return BoundMethod(o, d, owner)
        if isinstance(d, types.ClassMethodDescriptorType):
            return BoundMethod(o.cls if isinstance(o, Obj) else o, d, owner)
        return self.lift(d)

    def obj_method(self, ex, o, name, line):
        d, owner = self.mro_find(o.cls, name)
        if d is MISSING:
            return None
        return self._bind(o, d, owner)

    def obj_setattr(self, ex, st, o, attr, v, line):
        d, owner = self.mro_find(o.cls, attr)
        if isinstance(d, property) or isinstance(d, (types.GetSetDescriptorType, types.MemberDescriptorType)):
            raise Unsupported(f"assignment to descriptor {attr} at line {line}")
        return o.with_fields(**{attr: v})

    def class_getattr(self, cls, attr, line):
        d, owner = self.mro_find(cls, attr)
        if d is MISSING:
            # metaclass attributes (__name__, ...)
            if hasattr(cls, attr):
                return self.lift(getattr(cls, attr))
            raise Unsupported(f"class attribute {cls.__name__}.{attr} at line {line}")
        if isinstance(d, classmethod):
            return BoundMethod(cls, d.__func__, owner)
        if isinstance(d, staticmethod):
            return d.__func__
        if isinstance(d, types.ClassMethodDescriptorType):
            return BoundMethod(cls, d, owner)
        if isinstance(d, (types.FunctionType, property, types.MethodDescriptorType, types.WrapperDescriptorType,
                          types.BuiltinFunctionType, types.GetSetDescriptorType)):
            if attr == "__new__" and not isinstance(d, types.FunctionType):
                return NewOf(owner)
            return d
        ov = self.overrides.get((f"{cls.__module__}.{cls.__qualname__}", attr))
        if ov is not None:
            return ov
        return self.lift(d)

    def super_lookup(self, ex, sp, attr, line):
        sv = sp.self_val
        cls = sv if isinstance(sv, type) else sv.cls
        d, owner = self.mro_find(cls, attr, after=sp.after_cls)
        if d is MISSING:
            raise Unsupported(f"super().{attr} not found at line {line}")
        if attr == "__new__":
            if isinstance(d, (types.FunctionType,)):
                return d
            if isinstance(d, staticmethod):
                return d.__func__
            return NewOf(owner)
        if isinstance(sv, type):
            if isinstance(d, classmethod):
                return BoundMethod(sv, d.__func__, owner)
            if isinstance(d, types.ClassMethodDescriptorType):
                return BoundMethod(sv, d, owner)
            return d
        return self._bind(sv, d, owner)

    def num_getattr(self, ex, v, attr, line):
        if attr == "as_integer_ratio" and sym.is_reallike(v):
            return BoundMethod(v, float.as_integer_ratio, float)
        if attr == "as_integer_ratio":
            return BoundMethod(v, int.as_integer_ratio, int)
        if attr == "real":
            return v
        raise Unsupported(f"attribute {attr} of number at line {line}")

    def special_getattr(self, ex, st, base, attr, line):
        import re as _re

        if isinstance(base, _re.Pattern) and attr in ("match", "fullmatch", "search", "sub"):
            return PatternMethod(base, attr)
        if isinstance(base, ExcVal):
            return NotImplemented
        if isinstance(base, types.FunctionType) or isinstance(base, BoundMethod):
            return NotImplemented
        # opaque native instance: plain getattr
        try:
            return self.lift(getattr(base, attr))
        except AttributeError:
            return NotImplemented

    def identical(self, a, b):
        if isinstance(a, Obj) and isinstance(b, Obj):
            return a.oid == b.oid
        if isinstance(a, Obj) or isinstance(b, Obj):
            return False
        if is_sym(a) or is_sym(b):
            if a is None or b is None or isinstance(a, bool) or isinstance(b, bool):
                # `x is True` / `x is None` with a symbolic number: an int/float is never None/True/False
                # (a z3 Bool stands for a Python bool: identity with True/False is equality)
                if is_sym(a) and z3.is_bool(a) and isinstance(b, bool):
                    return a if b else z3.Not(a)
                if is_sym(b) and z3.is_bool(b) and isinstance(a, bool):
                    return b if a else z3.Not(b)
                return False
            raise Unsupported("identity of symbolic numbers")
        if isinstance(a, (int, str, Fraction)) and not isinstance(a, bool) and not isinstance(b, bool) and type(a) is type(b):
            if isinstance(a, int) and not (-5 <= a <= 256):
                raise Unsupported("identity of large ints")
            return a == b
        return a is b

    # binary operator protocol on objects
    def obj_binop(self, ex, st, name, a, b, line):
        fwd, rev = f"__{name}__", f"__r{name}__"
        tried = False
        order = []
        if isinstance(a, Obj):
            order.append((a, fwd, b))
        if isinstance(b, Obj):
            # reflected first when type(b) is a proper subclass of type(a) overriding the reflected method
            first = False
            if isinstance(a, Obj) and b.cls is not a.cls and issubclass(b.cls, a.cls):
                d, owner = self.mro_find(b.cls, rev)
                da, _ = self.mro_find(a.cls, rev)
                first = d is not MISSING and d is not da
            if first:
                order.insert(0, (b, rev, a))
            else:
                order.append((b, rev, a))

        def go(s, i):
            if i == len(order):
                ex.pending_raise(s, ExcVal(TypeError, line=line))
                return
            recv, mname, other = order[i]
            m = self.obj_method(ex, recv, mname, line)
            if m is None:
                yield from go(s, i + 1)
                return
            for s1, r in ex.call_value(s, m, [other], {}, line):
                if r is NotImplemented:
                    yield from go(s1, i + 1)
                else:
                    yield s1, r

        yield from go(st, 0)

    _cmp_names = {ast.Eq: ("__eq__", "__eq__"), ast.NotEq: ("__ne__", "__ne__"), ast.Lt: ("__lt__", "__gt__"),
                  ast.LtE: ("__le__", "__ge__"), ast.Gt: ("__gt__", "__lt__"), ast.GtE: ("__ge__", "__le__")}

    def obj_compare(self, ex, st, op, a, b, line):
        fwd, rev = self._cmp_names[type(op)]
        order = []
        if isinstance(a, Obj):
            order.append((a, fwd, b))
        if isinstance(b, Obj):
            if isinstance(a, Obj) and b.cls is not a.cls and issubclass(b.cls, a.cls):
                order.insert(0, (b, rev, a))
            else:
                order.append((b, rev, a))

        def go(s, i):
            if i == len(order):
                if isinstance(op, ast.Eq):
                    yield s, self.identical(a, b)
                elif isinstance(op, ast.NotEq):
                    yield s, sym.Not(self.identical(a, b))
                else:
                    ex.pending_raise(s, ExcVal(TypeError, line=line))
                return
            recv, mname, other = order[i]
            m = self.obj_method(ex, recv, mname, line)
            if m is None:
                yield from go(s, i + 1)
                return
            for s1, r in ex.call_value(s, m, [other], {}, line):
                if r is NotImplemented:
                    yield from go(s1, i + 1)
                else:
                    yield s1, r

        yield from go(st, 0)

    def obj_subscript(self, ex, st, o, idx, line):
        m = self.obj_method(ex, o, "__getitem__", line)
        if m is None:
            ex.pending_raise(st, ExcVal(TypeError, line=line))
            return
        yield from ex.call_value(st, m, [idx], {}, line)

    # ------------------------------------------------------------------ calls
    def call(self, ex, st, fn, args, kw, line, owner=None):
        if isinstance(fn, PatternMethod) and fn.kind == "sub":
            # pattern.sub(repl, text) on a CONCRETE text: the real engine finds the matches, the replacement callable is
            # executed symbolically for each of them, the pieces are concatenated
            repl, text = args[0], args[1]
            if not isinstance(text, str) or kw or len(args) != 2:
                raise Unsupported(f"regex sub on {type(text).__name__} at line {line}")
            if isinstance(repl, str):
                yield st, fn.pattern.sub(repl, text)
                return
            matches = list(fn.pattern.finditer(text))

            def rec(s0, i, pos, acc):
                if i == len(matches):
                    yield s0, self.sym_concat(acc + [text[pos:]]) if any(not isinstance(a, str) for a in acc) else "".join(acc) + text[pos:]
                    return
                mo = matches[i]
                for s1, piece in ex.call_value(s0, repl, [mo], {}, line):
                    yield from rec(s1, i + 1, mo.end(), acc + [text[pos:mo.start()], piece])

            yield from rec(st, 0, 0, [])
            return
        if isinstance(fn, PatternMethod):
            from . import strings

            text = args[0]
            if isinstance(text, strings.CharStr):
                self.assumed_used.add("re (A-RE: match structure depends only on the shape; real engine run on a representative)")
                yield from strings.do_match(ex, st, fn.pattern, text, line, fn.kind)
                return
            if isinstance(text, str):
                yield st, getattr(fn.pattern, fn.kind)(text)
                return
            raise Unsupported(f"regex match on {type(text).__name__} at line {line}")
        if isinstance(fn, types.MethodType) and type(fn.__self__).__module__.startswith("pyvc."):
            yield st, fn(*args, **kw)
            return
        if isinstance(fn, NewOf):
            h = self.new_handlers.get(fn.owner)
            if h is None:
                raise Unsupported(f"{fn.owner.__name__}.__new__ at line {line}")
            self.assumed_used.add(f"{fn.owner.__module__}.{fn.owner.__name__}.__new__")
            yield from h(ex, st, args, kw, line)
            return
        if isinstance(fn, type):
            yield from self.instantiate(ex, st, fn, args, kw, line)
            return
        if id(fn) in self.stdlib:
            h, label = self.stdlib[id(fn)]
            self.assumed_used.add(label)
            yield from h(ex, st, args, kw, line)
            return
        if isinstance(fn, types.FunctionType):
            if is_repo_module(fn.__module__):
                yield from self.call_repo(ex, st, fn, args, kw, line, owner)
                return
            raise NeedsContract(f"call to non-repo python function {qualname_of(fn)} at line {line}")
        if isinstance(fn, types.MethodType):
            yield from self.call(ex, st, fn.__func__, [self.lift(fn.__self__)] + list(args), kw, line)
            return
        import re as _re

        if isinstance(fn, types.BuiltinMethodType) and isinstance(getattr(fn, "__self__", None), _re.Match) and not _has_sym(list(args) + list(kw.values())):
            # a real match object of a real regex on a concrete string: its accessors are run natively
            try:
                yield st, fn(*args, **kw)
            except Exception as e:  # noqa: BLE001
                ex.pending_raise(st, ExcVal(type(e), line=line))
            return
        raise NeedsContract(f"call to {fn!r} ({type(fn).__name__}) at line {line}: no stdlib contract")

    def bind_native(self, fn, args, kw, line):
        """bind arguments using the real signature; defaults are lifted native values"""
        try:
            sig = inspect.signature(fn)
        except (TypeError, ValueError):
            raise Unsupported(f"no signature for {fn!r}")
        try:
            ba = sig.bind(*args, **kw)
        except TypeError:
            return None
        out = {}
        for name, p in sig.parameters.items():
            if name in ba.arguments:
                out[name] = ba.arguments[name]
            elif p.kind == p.VAR_POSITIONAL:
                out[name] = ()
            elif p.kind == p.VAR_KEYWORD:
                out[name] = {}
            else:
                out[name] = self.lift(p.default)
        return out

    def call_repo(self, ex, st, fn, args, kw, line, owner=None):
        qn = qualname_of(fn)
        from .contract import NATIVE

        if qn in NATIVE and not _has_sym(list(args) + list(kw.values())):
            # pure function on concrete arguments: the real code is run (exact semantics, nothing modelled)
            self.transparent_used.add(qn + " (run natively on concrete arguments)")
            try:
                r = fn(*args, **kw)
            except Exception as e:  # noqa: BLE001
                ex.pending_raise(st, ExcVal(type(e), line=line))
                return
            post = NATIVE[qn]
            yield st, self.lift(post(r, args, kw) if post else r)
            return
        if fn.__module__ == "pendulum.formatting.formatter" and fn.__name__ == "<lambda>":
            # the token tables (_TOKENS_RULES, _PARSE_TOKENS, _LOCALIZABLE_TOKENS) are data made of lambdas: executed from their source
            self.transparent_used.add(f"{fn.__module__}.<lambda>@L{fn.__code__.co_firstlineno}")
            yield from ex.call_function_source(st, fn, args, kw, line)
            return
        if fn.__module__.startswith("pendulum.locales.") and fn.__module__ != "pendulum.locales.locale":
            # plural / ordinal rules are lambdas in the locale data files: executed from their source
            self.transparent_used.add(f"{fn.__module__}.{fn.__qualname__}")
            yield from ex.call_function_source(st, fn, args, kw, line)
            return
        entry = REGISTRY.get(qn)
        force_inline = ex.case is not None and qn in (ex.case.options().get("transparent") or ())
        if force_inline:
            self.transparent_used.add(qn)
            yield from ex.call_function_source(st, fn, args, kw, line, defclass=owner)
            return
        if entry is not None:  # (a recursive call is served by the function's own contract: partial correctness)
            a_ = self.bind_native(fn, args, kw, line)
            if a_ is None or entry.select(a_) is not None or qn not in TRANSPARENT:
                yield from self.call_contract(ex, st, entry, fn, args, kw, line)
                return
            # no declared case fits these operands, and the function is also declared transparent: re-execute it
        if qn in TRANSPARENT:
            self.transparent_used.add(qn)
            defclass = owner
            if defclass is None and "." in fn.__qualname__:
                defclass = self._defclass(fn)
            yield from ex.call_function_source(st, fn, args, kw, line, defclass=defclass)
            return
        raise NeedsContract(f"repo function {qn} called at line {line} has neither a contract nor a transparent declaration")

    def _defclass(self, fn):
        mod = inspect.getmodule(fn)
        obj = mod
        for part in fn.__qualname__.split(".")[:-1]:
            obj = getattr(obj, part, None)
            if obj is None:
                return None
        return obj if isinstance(obj, type) else None

    def call_contract(self, ex, st, entry, fn, args, kw, line):
        a = self.bind_native(fn, args, kw, line)
        if a is None:
            ex.pending_raise(st, ExcVal(TypeError, line=line))
            return
        case = entry.select(a)
        if case is None:
            raise NeedsContract(f"call to {entry.qualname} at line {line} matches no declared case: "
                                f"{ {k: _tname(v) for k, v in a.items()} }")
        self.contracts_used.add(f"{entry.qualname}[{case.name}]")
        outside = case.options().get("outside_domain_raises", {})
        totality = bool(ex.case is not None and ex.case.options().get("may_raise"))
        for label, f in case.requires(a):
            if totality and label in outside and f is not True:
                # totality proofs only: outside this part of its domain the callee is ASSUMED (recorded, bounded-checked)
                # to raise one of the listed exception types and nothing else
                self.assumed_used.add(f"outside-domain: {entry.qualname} raises only {'/'.join(e.__name__ for e in outside[label])} when `{label}` fails")
                for exc in outside[label]:
                    s_r = st.fork(sym.Not(f) if f is not False else None, f"L{line}!{exc.__name__}")
                    if ex.feasible(s_r):
                        ex.pending_raise(s_r, ExcVal(exc, line=line))
                if f is False:
                    return
                st.assume(f)
                if not ex.feasible(st):
                    return
                continue
            ex.oblige(st, f, "pre", f"{entry.qualname}.{label}", line=line)
            if f is False:
                return
            st.assume(f)
        conds = []
        for exc, label, cond in case.raises(a):
            if cond is False:
                continue
            s_r = st.fork(cond if cond is not True else None, f"L{line}!{exc.__name__}")
            if ex.feasible(s_r):
                ex.pending_raise(s_r, ExcVal(exc, line=line))
            conds.append(cond)
            if cond is True:
                return
        for c in conds:
            st.assume(sym.Not(c))
        if conds and not ex.feasible(st):
            return
        if case.has_value():
            yield st, case.value(a)
            return
        r = case.result(ex.fresh, a)
        for label, f in case.assume(ex.fresh, r, a):
            if f is False:
                # the abstract result contradicts the contract's own postcondition: assuming it would silently kill the
                # path (and make everything after the call vacuously true)
                raise Unsupported(f"contract {entry.qualname}[{case.name}]: result() violates its own clause `{label}` at line {line}")
            st.assume(f)
        yield st, r

    def instantiate(self, ex, st, cls, args, kw, line):
        if issubclass(cls, BaseException):
            yield st, ExcVal(cls, line=line)
            return
        if issubclass(cls, enum.Enum):
            yield from self.stdlib[id(enum.Enum)][0](ex, st, [cls] + list(args), kw, line)
            return
        h = self.stdlib.get(id(cls))
        if h is not None:
            self.assumed_used.add(h[1])
            yield from h[0](ex, st, args, kw, line)
            return
        if issubclass(cls, tuple) and hasattr(cls, "_fields"):
            # typing.NamedTuple: a record with the declared fields
            fields = cls._fields
            if len(args) + len(kw) != len(fields) or any(k not in fields for k in kw):
                ex.pending_raise(st, ExcVal(TypeError, line=line))
                return
            vals = dict(zip(fields, args))
            vals.update(kw)
            yield st, Obj(cls, **vals)
            return
        new, nowner = self.mro_find(cls, "__new__")
        if isinstance(new, staticmethod):
            new = new.__func__
        if isinstance(new, types.FunctionType):
            gen = self.call(ex, st, new, [cls] + list(args), kw, line, owner=nowner)
        else:
            gen = self.call(ex, st, NewOf(nowner), [cls] + list(args), kw, line)
        for s1, o in gen:
            if not (isinstance(o, Obj) and issubclass(o.cls, cls)):
                yield s1, o
                continue
            init, iowner = self.mro_find(cls, "__init__")
            if isinstance(init, types.FunctionType):
                qn = qualname_of(init)
                if qn in REGISTRY:
                    for s2, o2 in self.call(ex, s1, init, [o] + list(args), kw, line, owner=iowner):
                        yield s2, o2 if isinstance(o2, Obj) else o
                elif qn in TRANSPARENT:
                    self.transparent_used.add(qn)
                    for s2, (rv, selfv) in ex.call_function_source(s1, init, [o] + list(args), kw, line, defclass=iowner, want_self=True):
                        yield s2, selfv
                else:
                    raise NeedsContract(f"{qn} (constructor) at line {line}")
            else:
                yield s1, o

    def call_native_method(self, ex, st, bm, args, kw, line):
        recv = bm.self_val
        name = bm.func.__name__
        from .stdlib import KeyedStr

        keyed_format = isinstance(recv, KeyedStr) and name == "format"
        if isinstance(recv, dict) and name == "get" and args and not kw and not (is_sym(args[0]) or isinstance(args[0], Obj) or hasattr(args[0], "_symstr")):
            # concrete key: an ordinary look-up, whatever the values / the default are
            yield st, recv.get(*args)
            return
        if keyed_format or any(is_sym(x) or isinstance(x, Obj) or hasattr(x, "_symstr") for x in list(args) + list(kw.values())):
            h = self.stdlib.get(id(bm.func))
            if h is None:
                raise Unsupported(f"{type(recv).__name__}.{name} with symbolic arguments at line {line}")
            yield from h[0](ex, st, [recv] + list(args), kw, line)
            return
        if isinstance(recv, (list, dict)) and name in ("append", "extend", "update", "pop", "insert", "setdefault",
                                                        "remove", "clear", "sort", "reverse", "popitem"):
            raise Unsupported(f"in-place {type(recv).__name__}.{name} through a non-name at line {line}")
        if isinstance(recv, (list, tuple, dict)) and _has_sym(recv) and name not in ("get", "keys", "values", "items", "index", "count", "copy"):
            raise Unsupported(f"{type(recv).__name__}.{name} on symbolic container at line {line}")
        try:
            r = getattr(recv, name)(*args, **kw)
        except Exception as e:  # noqa: BLE001 - the native method's own exception is the semantics
            ex.pending_raise(st, ExcVal(type(e), line=line))
            return
        if isinstance(r, (types.GeneratorType,)) or type(r).__name__ in ("dict_keys", "dict_values", "dict_items"):
            r = list(r)
        if isinstance(r, float):
            r = Fraction(r)
        yield st, r

    # ------------------------------------------------------------------ loops
    def loop_ordinal(self, ex, node):
        return ex.loop_order.get(id(node))

    def _assigned(self, stmts):
        out = set()
        for n in ast.walk(ast.Module(body=list(stmts), type_ignores=[])):
            tg = []
            if isinstance(n, ast.Assign):
                tg = n.targets
            elif isinstance(n, (ast.AugAssign, ast.AnnAssign)):
                tg = [n.target]
            elif isinstance(n, ast.For):
                tg = [n.target]
            for t in tg:
                for x in ast.walk(t):
                    if isinstance(x, ast.Name):
                        out.add(x.id)
        return out

    def _havoc(self, ex, name, v, k):
        if isinstance(v, bool) or (is_sym(v) and z3.is_bool(v)):
            return ex.fresh.bool(f"{name}_W{k}")
        if sym.is_intlike(v):
            return ex.fresh.int(f"{name}_W{k}")
        if sym.is_reallike(v):
            return ex.fresh.real(f"{name}_W{k}")
        if isinstance(v, tuple):
            return tuple(self._havoc(ex, f"{name}{i}", x, k) for i, x in enumerate(v))
        if isinstance(v, Obj):
            from . import stdlib

            return stdlib.fresh_like(ex.fresh, v, f"{name}_W{k}")
        raise Unsupported(f"cannot havoc loop variable {name} of type {type(v).__name__}")

    def do_while(self, ex, s, st):
        k = ex.loop_order.get(id(s))
        specs = ex.case.loops() if ex.case is not None else {}
        spec_ = specs.get(k) if k is not None else None
        if spec_ is None:
            yield from self._unroll_while(ex, s, st, 0)
            return
        entry = dict(st.env)
        has_yield = any(isinstance(n, (ast.Yield, ast.YieldFrom)) for b in s.body for n in ast.walk(b))

        def envof(state):
            if not has_yield:
                return Env(state.env)
            d = dict(state.env)
            d["__count__"] = state.ghost.get("count", 0)
            return Env(d)

        for label, f in spec_.inv(envof(st), Env(entry), ex.args0):
            ex.oblige(st.fork(tag=f"W{k}init"), f, f"loop{k}", f"init.{label}", line=s.lineno)
        h = st.fork(tag=f"W{k}")
        for name in sorted(self._assigned(s.body)):
            if name in h.env:
                h.env[name] = self._havoc(ex, name, h.env[name], k)
        if has_yield:
            cnt = ex.fresh.int(f"count_W{k}")
            h.ghost["count"] = cnt
            h.assume(cnt >= 0)
        for c in getattr(ex.fresh, "side", []):
            h.assume(c)
        for label, f in spec_.inv(envof(h), Env(entry), ex.args0):
            h.assume(f)
        v0 = spec_.variant(envof(h), Env(entry), ex.args0) if spec_.variant else None
        for s0, c in ex.ev(s.test, h):
            t = ex.truth(c)
            s_body = s0.fork(t if is_sym(t) else None, f"W{k}body")
            if t is not False and ex.feasible(s_body):
                for s2, o in ex.run(s.body, s_body):
                    if o is None or o[0] == "continue":
                        for label, f in spec_.inv(envof(s2), Env(entry), ex.args0):
                            ex.oblige(s2, f, f"loop{k}", f"preserve.{label}", line=s.lineno)
                        if v0 is not None:
                            v1 = spec_.variant(envof(s2), Env(entry), ex.args0)
                            ex.oblige(s2, sym.And(sym.ge(v0, 0), sym.lt(v1, v0)), f"loop{k}", "variant", line=s.lineno)
                    elif o[0] == "break":
                        yield s2, None
                    else:
                        yield s2, o
            s_exit = s0.fork(sym.Not(t) if is_sym(t) else None, f"W{k}exit")
            if t is not True and ex.feasible(s_exit):
                if s.orelse:
                    yield from ex.run(s.orelse, s_exit)
                else:
                    yield s_exit, None

    def _unroll_while(self, ex, s, st, n):
        if n > 400:
            raise Unsupported(f"loop at line {s.lineno} needs an invariant (unrolled 400 times)")
        for s0, c in ex.ev(s.test, st):
            t = ex.truth(c)
            if is_sym(t):
                # decide by the path condition if possible
                sv = z3.Solver()
                sv.set("timeout", ex.feas_timeout)
                for p in s0.pc:
                    sv.add(z(p))
                sv.push()
                sv.add(t)
                can_t = sv.check() != z3.unsat
                sv.pop()
                sv.add(z3.Not(t))
                can_f = sv.check() != z3.unsat
                if can_t and can_f:
                    raise Unsupported(f"loop at line {s.lineno} has a symbolic condition and no invariant")
                t = can_t
            if not t:
                if s.orelse:
                    yield from ex.run(s.orelse, s0)
                else:
                    yield s0, None
                continue
            for s2, o in ex.run(s.body, s0):
                if o is None or o[0] == "continue":
                    yield from self._unroll_while(ex, s, s2, n + 1)
                elif o[0] == "break":
                    yield s2, None
                else:
                    yield s2, o

    def do_for(self, ex, s, st, it):
        if not isinstance(it, SymRange):
            raise Unsupported(f"for over {type(it).__name__} at line {s.lineno}")
        k = ex.loop_order.get(id(s))
        specs = ex.case.loops() if ex.case is not None else {}
        spec_ = specs.get(k) if k is not None else None
        if spec_ is None:
            raise Unsupported(f"for-loop over symbolic range at line {s.lineno} needs an invariant")
        n = it.n
        entry = dict(st.env)
        st.env["__i__"] = 0
        entry["__n__"] = n
        for label, f in spec_.inv(Env(st.env), Env(entry), ex.args0):
            ex.oblige(st.fork(tag=f"F{k}init"), f, f"loop{k}", f"init.{label}", line=s.lineno)
        h = st.fork(tag=f"F{k}")
        for name in sorted(self._assigned(s.body)):
            if name in h.env:
                h.env[name] = self._havoc(ex, name, h.env[name], k)
        i = ex.fresh.int(f"i_F{k}")
        h.env["__i__"] = i
        h.assume(i >= 0)
        for c in getattr(ex.fresh, "side", []):
            h.assume(c)
        for label, f in spec_.inv(Env(h.env), Env(entry), ex.args0):
            h.assume(f)
        s_body = h.fork(sym.lt(i, n), f"F{k}body")
        if ex.feasible(s_body):
            ex.assign(s.target, i, s_body)
            for s2, o in ex.run(s.body, s_body):
                if o is None or o[0] == "continue":
                    s2.env["__i__"] = i + 1
                    for label, f in spec_.inv(Env(s2.env), Env(entry), ex.args0):
                        ex.oblige(s2, f, f"loop{k}", f"preserve.{label}", line=s.lineno)
                elif o[0] == "break":
                    s2.env.pop("__i__", None)
                    yield s2, None
                else:
                    yield s2, o
        s_exit = h.fork(sym.ge(i, n), f"F{k}exit")
        if ex.feasible(s_exit):
            s_exit.env.pop("__i__", None)
            if s.orelse:
                yield from ex.run(s.orelse, s_exit)
            else:
                yield s_exit, None

    def try_merge_if(self, ex, s, st, t):
        """if both arms of `if t:` run to completion on a single path each (no return/raise/break, no pending
        raise) and differ only in scalar variables, continue on ONE merged path (ITE values, path conditions
        guarded by t) instead of two.  Obligations raised inside an arm keep that arm's own path condition."""
        if ex.case is not None and ex.case.options().get("merge_ifs") is False:
            return None
        n_obl = len(ex.obligations)
        outs = []
        ex._raises.append([])
        try:
            try:
                for cond, tag, body in ((t, "T", s.body), (sym.Not(t), "F", s.orelse)):
                    sub = st.fork(cond, f"L{s.lineno}{tag}m")
                    if not ex.feasible(sub):
                        outs.append(None)
                        continue
                    r = ex.run(body, sub) if body else [(sub, None)]
                    outs.append(r)
            finally:
                pend = ex._raises.pop()
        except Unsupported:
            del ex.obligations[n_obl:]
            raise
        ok = not pend and all(r is None or (len(r) == 1 and r[0][1] is None) for r in outs) and any(r is not None for r in outs)
        if ok and all(r is not None for r in outs):
            (sa, _), (sb, _) = outs[0][0], outs[1][0]
            keys = set(sa.env) | set(sb.env)
            merged = {}
            for k in keys:
                if k not in sa.env or k not in sb.env:
                    if k in st.env:
                        ok = False
                        break
                    # bound on one arm only: usable afterwards only under that arm's condition
                    merged[k] = PartialVar(t if k in sa.env else sym.Not(t), sa.env.get(k, sb.env.get(k)))
                    continue
                va, vb = sa.env[k], sb.env[k]
                if va is vb:
                    merged[k] = va
                elif (sym.is_num(va) or sym.is_bool(va)) and (sym.is_num(vb) or sym.is_bool(vb)) and sym.is_bool(va) == sym.is_bool(vb):
                    if not is_sym(va) and not is_sym(vb) and va == vb and type(va) is type(vb):
                        merged[k] = va
                    else:
                        merged[k] = sym.If(t, va, vb)
                else:
                    ok = False
                    break
            if ok and (sa.frames != sb.frames or sa.ghost != sb.ghost):
                ok = False
            if ok:
                base = len(st.pc)
                ea = [z(c) for c in sa.pc[base + 1:]]
                eb = [z(c) for c in sb.pc[base + 1:]]
                st.env = merged
                for c in ea:
                    st.pc.append(z3.Implies(z(t), c))
                for c in eb:
                    st.pc.append(z3.Implies(z3.Not(z(t)), c))
                st.sig.append(f"L{s.lineno}M")
                return [(st, None)]
        if ok and sum(r is not None for r in outs) == 1:
            # one arm is infeasible: continue on the other
            r = outs[0] if outs[0] is not None else outs[1]
            ex.dead.append((ex.owner, s.lineno, "then" if outs[0] is None else "else"))
            return [r[0]]
        # not mergeable: the two arms have been executed exactly as a fork would execute them - hand their
        # outcomes (and pending raises) on instead of executing them a second time
        for s_r, e_r in pend:
            ex.pending_raise(s_r, e_r)
        res = []
        for r in outs:
            if r is not None:
                res.extend(r)
        return res

    def do_cut(self, ex, cut, stmts, i, st):
        """establish the cut assertion on this path; continue (once) from a state that knows only the entry
        assumptions and the assertion"""
        label = cut.name
        for name, f in cut.inv(Env(st.env), Env(ex.entry_env), ex.args0):
            ex.oblige(st, f, "cut", f"{label}.{name}", line=stmts[i].lineno)
        if label in ex.cut_done:
            return None
        ex.cut_done.add(label)
        cont = State(dict(ex.entry_env), list(ex.entry_pc), ["cut:" + label])
        cont.frames = [dict(f) for f in st.frames]
        assigned = self._assigned(stmts[:i])
        for name in sorted(assigned):
            if name in st.env:
                v = st.env[name]
                if isinstance(v, PartialVar):
                    continue
                if name in cut.havoc_real and not sym.is_reallike(v):
                    v = sym.toreal(v)
                cont.env[name] = self._havoc(ex, name, v, "cut")
        for c in ex.fresh.side:
            cont.assume(c)
        for name, f in cut.inv(Env(cont.env), Env(ex.entry_env), ex.args0):
            cont.assume(f)
        return cont

    def on_yield(self, ex, st, v, line):
        pass

    def sym_format(self, x, fv):
        from . import strings

        spec_ = ""
        if fv is not None and getattr(fv, "format_spec", None) is not None:
            spec_ = "".join(c.value for c in fv.format_spec.values if isinstance(c, ast.Constant))
        if isinstance(x, strings.CharStr):
            return strings.format_spec(x, spec_)
        return SymStr([("fmt", x, spec_)])

    def sym_concat(self, parts):
        from . import strings

        c = strings.concat(parts)
        if c is not None:
            return c
        out = []
        for p in parts:
            if isinstance(p, SymStr):
                out.extend(p.parts)
            else:
                out.append(p)
        return SymStr(out)

    def symstr_compare(self, op, a, b, line):
        from . import strings
        from .stdlib import YearMonthStr

        if isinstance(a, strings.CharStr) or isinstance(b, strings.CharStr):
            r = strings.equal(a, b) if (strings.as_charstr(a) is not None and strings.as_charstr(b) is not None) else False
            if isinstance(op, ast.Eq):
                return r
            if isinstance(op, ast.NotEq):
                return sym.Not(r)
            raise Unsupported(f"ordering of symbolic strings at line {line}")
        if isinstance(a, YearMonthStr) and isinstance(b, YearMonthStr):
            r = sym.And(sym.eq(a.year, b.year), sym.eq(a.month, b.month))
            if isinstance(op, ast.Eq):
                return r
            if isinstance(op, ast.NotEq):
                return sym.Not(r)
            raise Unsupported(f"ordering of formatted strings at line {line}")
        if (isinstance(a, SymStr) and isinstance(b, str)) or (isinstance(b, SymStr) and isinstance(a, str)):
            ss, lit_ = (a, b) if isinstance(a, SymStr) else (b, a)
            r = self._symstr_vs_literal(ss, lit_)
            if r is not None:
                if isinstance(op, ast.Eq):
                    return r
                if isinstance(op, ast.NotEq):
                    return not r
        return self._symname_compare(op, a, b, line)

    @staticmethod
    def _symstr_vs_literal(ss, text):
        """equality of an abstract string with a literal when the literal pieces alone decide it: the leading / trailing literal
        pieces must fit, and every formatted piece renders at least one character.  None = cannot tell."""
        parts = list(ss.parts)
        head = ""
        while parts and isinstance(parts[0], str):
            head += parts.pop(0)
        tail = ""
        while parts and isinstance(parts[-1], str):
            tail = parts.pop() + tail
        if not parts:
            return head + tail == text
        if not text.startswith(head) or not text[len(head):].endswith(tail) or len(text) < len(head) + len(tail) + len([p for p in parts if not isinstance(p, str)]):
            return False
        return None

    def _symname_compare(self, op, a, b, line):
        if isinstance(a, SymName) and isinstance(b, SymName):
            r = True if a.tok is b.tok else sym.eq(a.tok, b.tok)
        elif isinstance(a, SymName) or isinstance(b, SymName):
            sn, other = (a, b) if isinstance(a, SymName) else (b, a)
            if other is None:
                r = False
            elif isinstance(other, str):
                r = self.name_is(sn, other)
            else:
                r = False
        else:
            raise Unsupported(f"symbolic string comparison at line {line}")
        if isinstance(op, ast.Eq):
            return r
        if isinstance(op, ast.NotEq):
            return sym.Not(r)
        raise Unsupported(f"ordering of symbolic strings at line {line}")

    _name_tokens = {}

    def name_is(self, sn, s):
        tok = self._name_tokens.setdefault(s, -1 - len(self._name_tokens))
        return sym.eq(sn.tok, tok)


class PatternMethod:
    def __init__(self, pattern, kind):
        self.pattern, self.kind = pattern, kind


class NewOf:
    """the C-level __new__ of a built-in type"""

    def __init__(self, owner):
        self.owner = owner


class Env:
    """read-only attribute view of a local environment, for loop invariants"""

    def __init__(self, d):
        object.__setattr__(self, "_d", d)

    def __getattr__(self, k):
        d = object.__getattribute__(self, "_d")
        if k in d:
            return d[k]
        raise AttributeError(k)

    def __getitem__(self, k):
        return self._d[k]

    def __contains__(self, k):
        return k in self._d


def _tname(v):
    if isinstance(v, Obj):
        return v.cls.__name__
    if is_sym(v):
        return str(v.sort())
    return type(v).__name__


def _has_sym(c):
    it = c.values() if isinstance(c, dict) else c
    for x in it:
        if is_sym(x) or isinstance(x, Obj) or hasattr(x, "_symstr"):
            return True
        if isinstance(x, (list, tuple, dict)) and _has_sym(x):
            return True
    return False
