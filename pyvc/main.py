"""./check <ID> [--tier quick|thorough] [--repo PATH] [--replay FILE]

Exit codes: 0 held; 1 violation (VIOLATION line printed); 2 undecided; 3 checker error.
"""
from __future__ import annotations

import argparse
import importlib
import json
import os
import pkgutil
import random
import re
import sys
import time
import traceback

ROOT = os.path.dirname(os.path.dirname(os.path.abspath(__file__)))


def load_contracts():
    import contracts

    for m in pkgutil.iter_modules(contracts.__path__):
        importlib.import_module(f"contracts.{m.name}")


def main(argv=None):
    ap = argparse.ArgumentParser()
    ap.add_argument("prop")
    ap.add_argument("--tier", default=os.environ.get("VERIF_TIER", "quick"), choices=["quick", "thorough"])
    ap.add_argument("--replay")
    ap.add_argument("--repo", default=os.environ.get("PYVC_REPO", "/repo"))
    ap.add_argument("--only", help="regex on obligation ids (debugging; exit code 2 if used)")
    ap.add_argument("--no-bounded", action="store_true")
    ap.add_argument("--verbose", "-v", action="store_true")
    args = ap.parse_args(argv)
    seed = int(os.environ.get("VERIF_SEED", "0"))
    t0 = time.time()
    try:
        from . import runner

        rc = runner.run_property(args.prop, args.tier, seed, args, t0)
    except SystemExit:
        raise
    except BaseException:  # noqa: BLE001
        traceback.print_exc()
        print(f"CHECKER-ERROR property={args.prop}")
        rc = 3
    finally:
        try:
            from . import solve

            solve.shutdown()
        except Exception:  # noqa: BLE001
            pass
    sys.stdout.flush()
    os._exit(rc)


if __name__ == "__main__":
    main()
