"""Polymorphic value layer: every operator here works both on native Python values (replay,
bounded stand-ins, dual evaluation) and on z3 terms (verification conditions).

Python semantics encoded here (DESIGN.md section 3):
  * int is unbounded  -> SMT Int;  float is treated as an exact real (A-FLOAT) -> SMT Real
  * // and % have floor semantics for either sign of the divisor
  * int(x) truncates, round(x) is half-to-even, math.floor / math.ceil
  * bool is an int in arithmetic
"""
from __future__ import annotations

import math
from fractions import Fraction

import z3


def is_sym(v):
    return isinstance(v, z3.ExprRef)


def is_bool(v):
    return isinstance(v, bool) or (is_sym(v) and z3.is_bool(v))


def is_intlike(v):
    """Python `int` (incl. bool) in either world."""
    if isinstance(v, (bool, int)):
        return True
    return is_sym(v) and (z3.is_int(v) or z3.is_bool(v))


def is_reallike(v):
    if isinstance(v, (float, Fraction)):
        return True
    return is_sym(v) and z3.is_real(v)


def is_num(v):
    return is_intlike(v) or is_reallike(v)


def z(v):
    """lift a native value to a z3 term"""
    if is_sym(v):
        return v
    if isinstance(v, bool):
        return z3.BoolVal(v)
    if isinstance(v, int):
        return z3.IntVal(v)
    if isinstance(v, float):
        if math.isinf(v) or math.isnan(v):
            raise ValueError("non-finite float in formula")
        return z3.RealVal(Fraction(v))
    if isinstance(v, Fraction):
        return z3.RealVal(v)
    raise TypeError(f"cannot lift {v!r} to SMT")


def b2i(v):
    """bool -> int (Python: True == 1)"""
    if isinstance(v, bool):
        return int(v)
    if is_sym(v) and z3.is_bool(v):
        return z3.If(v, z3.IntVal(1), z3.IntVal(0))
    return v


def num(v):
    """numeric view of a value (bools become ints)"""
    return b2i(v)


def toreal(v):
    v = num(v)
    if is_sym(v):
        return z3.ToReal(v) if z3.is_int(v) else v
    if isinstance(v, int):
        return Fraction(v)
    if isinstance(v, float):
        return Fraction(v)
    return v


def _coerce2(a, b):
    """numeric coercion for a binary arithmetic operator: (a', b', is_real)"""
    a, b = num(a), num(b)
    real = is_reallike(a) or is_reallike(b)
    if real:
        a, b = toreal(a), toreal(b)
    if is_sym(a) or is_sym(b):
        a, b = z(a), z(b)
    return a, b, real


def add(a, b):
    a, b, _ = _coerce2(a, b)
    return a + b


def sub(a, b):
    a, b, _ = _coerce2(a, b)
    return a - b


def _const_ite(e):
    """e is an if-then-else tree with numeral leaves"""
    if z3.is_int_value(e) or z3.is_rational_value(e):
        return True
    return z3.is_app(e) and e.decl().kind() == z3.Z3_OP_ITE and _const_ite(e.arg(1)) and _const_ite(e.arg(2))


def _distribute(x, ite):
    if z3.is_int_value(ite) or z3.is_rational_value(ite):
        return x * ite
    return z3.If(ite.arg(0), _distribute(x, ite.arg(1)), _distribute(x, ite.arg(2)))


def mul(a, b):
    a, b, _ = _coerce2(a, b)
    if is_sym(a) and is_sym(b):
        # x * (c ? -1 : 1) stays linear: push the product into the branches
        if _const_ite(b) and not (z3.is_int_value(b) or z3.is_rational_value(b)):
            return _distribute(a, b)
        if _const_ite(a) and not (z3.is_int_value(a) or z3.is_rational_value(a)):
            return _distribute(b, a)
    return a * b


def neg(a):
    a = num(a)
    return -a


def truediv(a, b):
    a, b = toreal(a), toreal(b)
    if is_sym(a) or is_sym(b):
        return z(a) / z(b)
    return a / b  # Fractions: exact (A-FLOAT view of float division)


def _integral(x):
    """Int term equal to the Real term x when x is syntactically integral (sums/products of to_real(int)
    and integral numerals after polynomial normalisation); None otherwise.  Pure algebra: sound."""
    if not (is_sym(x) and z3.is_real(x)):
        return None
    try:
        t = z3.simplify(x, som=True)
    except z3.Z3Exception:
        return None

    def conv(e):
        if z3.is_rational_value(e):
            if e.denominator_as_long() == 1:
                return z3.IntVal(e.numerator_as_long())
            return None
        if not z3.is_app(e):
            return None
        k = e.decl().kind()
        if k == z3.Z3_OP_TO_REAL:
            return e.arg(0)
        if k in (z3.Z3_OP_ADD, z3.Z3_OP_MUL, z3.Z3_OP_SUB):
            parts = [conv(c) for c in e.children()]
            if any(p is None for p in parts):
                return None
            r = parts[0]
            for p in parts[1:]:
                r = r + p if k == z3.Z3_OP_ADD else (r * p if k == z3.Z3_OP_MUL else r - p)
            return r
        if k == z3.Z3_OP_UMINUS:
            p = conv(e.arg(0))
            return None if p is None else -p
        if k == z3.Z3_OP_ITE:
            a, b = conv(e.arg(1)), conv(e.arg(2))
            if a is None or b is None:
                return None
            return z3.If(e.arg(0), a, b)
        return None

    return conv(t)


def floor(x):
    x = num(x)
    if is_sym(x):
        if not z3.is_real(x):
            return x
        i = _integral(x)
        return i if i is not None else z3.ToInt(x)
    return math.floor(x)


def ceil(x):
    x = num(x)
    if is_sym(x):
        if not z3.is_real(x):
            return x
        i = _integral(x)
        return i if i is not None else -z3.ToInt(-x)
    return math.ceil(x)


def trunc(x):
    """int(x)"""
    x = num(x)
    if is_sym(x):
        if z3.is_int(x):
            return x
        i = _integral(x)
        if i is not None:
            return i
        return z3.If(x >= 0, z3.ToInt(x), -z3.ToInt(-x))
    return int(x)


def rhe(x):
    """round(x): half to even"""
    x = num(x)
    if is_sym(x):
        if z3.is_int(x):
            return x
        i = _integral(x)
        if i is not None:
            return i
        f = z3.ToInt(x)
        r = x - z3.ToReal(f)
        half = z3.RealVal(Fraction(1, 2))
        return z3.If(r < half, f, z3.If(r > half, f + 1, z3.If(f % 2 == 0, f, f + 1)))
    if isinstance(x, int):
        return x
    x = Fraction(x)
    f = math.floor(x)
    r = x - f
    if r < Fraction(1, 2):
        return f
    if r > Fraction(1, 2):
        return f + 1
    return f if f % 2 == 0 else f + 1


def fdiv(a, b):
    """Python a // b (ints: floor; reals: floor of quotient, result real)"""
    a, b, real = _coerce2(a, b)
    if not (is_sym(a) or is_sym(b)):
        if real:
            return Fraction(math.floor(a / b))
        return a // b
    if real:
        return z3.ToReal(z3.ToInt(a / b))
    # z3 integer div is Euclidean: floor for positive divisors, ceil for negative divisors
    if z3.is_int_value(b):
        bv = b.as_long()
        if bv > 0:
            return a / b
        if bv < 0:
            return (-a) / (-b)
    return z3.If(b > 0, a / b, (-a) / (-b))


def fmod(a, b):
    """Python a % b (sign of the divisor)"""
    a, b, real = _coerce2(a, b)
    if not (is_sym(a) or is_sym(b)):
        if real:
            return a - b * math.floor(a / b)
        return a % b
    if real:
        return a - b * z3.ToReal(z3.ToInt(a / b))
    if z3.is_int_value(b) and b.as_long() > 0:
        return a % b
    return a - b * fdiv(a, b)


def absv(a):
    a = num(a)
    if is_sym(a):
        return z3.If(a >= 0, a, -a)
    return abs(a)


def If(c, a, b):
    if not is_sym(c):
        return a if c else b
    if is_bool(a) and is_bool(b):
        return z3.If(c, z(a), z(b))
    a2, b2, _ = _coerce2(a, b)
    return z3.If(c, z(a2), z(b2))


def And(*xs):
    xs = [x for x in xs]
    if all(not is_sym(x) for x in xs):
        return all(bool(x) for x in xs)
    out = []
    for x in xs:
        if not is_sym(x):
            if not x:
                return False
            continue
        out.append(x)
    if len(out) == 1:
        return out[0]
    return z3.And(*out)


def Or(*xs):
    if all(not is_sym(x) for x in xs):
        return any(bool(x) for x in xs)
    out = []
    for x in xs:
        if not is_sym(x):
            if x:
                return True
            continue
        out.append(x)
    if len(out) == 1:
        return out[0]
    return z3.Or(*out)


def Not(x):
    if not is_sym(x):
        return not x
    return z3.Not(x)


def Implies(a, b):
    return Or(Not(a), b)


def Iff(a, b):
    if not is_sym(a) and not is_sym(b):
        return bool(a) == bool(b)
    return z(a) == z(b)


def eq(a, b):
    if is_bool(a) and is_bool(b):
        return Iff(a, b)
    a, b, _ = _coerce2(a, b)
    return a == b


def ne(a, b):
    return Not(eq(a, b))


def lt(a, b):
    a, b, _ = _coerce2(a, b)
    return a < b


def le(a, b):
    a, b, _ = _coerce2(a, b)
    return a <= b


def gt(a, b):
    a, b, _ = _coerce2(a, b)
    return a > b


def ge(a, b):
    a, b, _ = _coerce2(a, b)
    return a >= b


def minv(a, b):
    return If(le(a, b), a, b)


def maxv(a, b):
    return If(ge(a, b), a, b)


def sel(seq, idx):
    """seq[idx] for a concrete sequence of scalars and a possibly symbolic, in-range,
    non-negative index (range obligations are the caller's business)."""
    if not is_sym(idx):
        return seq[idx]
    acc = seq[-1]
    for i in range(len(seq) - 2, -1, -1):
        acc = If(idx == i, seq[i], acc)
    return acc


def between(lo, x, hi):
    return And(le(lo, x), le(x, hi))


def sign(x):
    """-1 if x < 0 else 1   (Duration._sign and copysign(1, x) for non-zero / +0 values)"""
    return If(lt(x, 0), -1, 1)


_RATIO_NUM = z3.Function("ratio_num", z3.RealSort(), z3.IntSort())
_RATIO_DEN = z3.Function("ratio_den", z3.RealSort(), z3.IntSort())


def ratio(x):
    """float.as_integer_ratio(): (numerator, denominator) with denominator > 0 and num/den == x.
    SMT: uninterpreted functions of x (the same float has the same ratio everywhere) + ratio_axioms(x)."""
    if is_sym(x):
        x = toreal(x)
        return _RATIO_NUM(x), _RATIO_DEN(x)
    if isinstance(x, int):
        return x, 1
    return Fraction(x).numerator, Fraction(x).denominator


def ratio_axioms(x):
    n, d = ratio(x)
    if not is_sym(n):
        return True
    return z3.And(d > 0, z3.ToReal(d) * toreal(x) == z3.ToReal(n))
