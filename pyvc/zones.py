"""Time-zone specification functions (DESIGN.md 5.1), dual SMT / native.

SMT side: a zone object carries k isolated transitions  T[0] < ... < T[k-1]  (UTC instants, in
microseconds on the wall_us scale) and k+1 offsets o[0..k] (seconds); any finite set of queries
that touches at most k neighbourhoods of a real zone embeds into this model (the isolation side
condition is re-measured on tzdata by the zone sweep).
Native side (replay, bounded): the zone object carries `native`, the real tzinfo, and the same
functions are answered by asking it.
"""
from __future__ import annotations

import datetime as _dt

from . import spec, sym
from .engine import Obj
from .spec import D, DUS, M

_EPOCH_ORD_US = None


def _native_tz(zone):
    return zone.f.get("native") if isinstance(zone, Obj) else None


def is_fixed(zone):
    return isinstance(zone, Obj) and "_offset" in zone.f


def _from_wall(w, tz=None, fold=0):
    o, rem = divmod(w, DUS)
    d = _dt.date.fromordinal(o)
    s, us = divmod(rem, M)
    return _dt.datetime(d.year, d.month, d.day, s // 3600, s // 60 % 60, s % 60, us, tzinfo=tz, fold=fold)


def _wall_of(d):
    return spec.wall_us_f(d.year, d.month, d.day, d.hour, d.minute, d.second, d.microsecond)


def off_utc(zone, u):
    """offset (seconds) in force at UTC instant u"""
    if is_fixed(zone):
        return zone._offset
    nt = _native_tz(zone)
    if nt is not None:
        r = _from_wall(u, _dt.timezone.utc).astimezone(nt)
        return int(r.utcoffset().total_seconds())
    r = zone.o[0]
    for i, Ti in enumerate(zone.T):
        r = sym.If(sym.ge(u, Ti), zone.o[i + 1], r)
    return r


def off_wall(zone, w, fold):
    """PEP 495 utcoffset (seconds) of wall time w with the given fold"""
    if is_fixed(zone):
        return zone._offset
    nt = _native_tz(zone)
    if nt is not None:
        return int(nt.utcoffset(_from_wall(w, None, fold)).total_seconds())
    r = zone.o[0]
    for i, Ti in enumerate(zone.T):
        a, b = zone.o[i], zone.o[i + 1]
        shift = sym.If(sym.eq(fold, 0), sym.maxv(a, b), sym.minv(a, b))
        r = sym.If(sym.ge(w, sym.add(Ti, sym.mul(shift, M))), b, r)
    return r


def fold_of(zone, u):
    """fold of the rendering of instant u (1 exactly in the second pass of a repeated interval)"""
    if is_fixed(zone):
        return 0
    nt = _native_tz(zone)
    if nt is not None:
        return _from_wall(u, _dt.timezone.utc).astimezone(nt).fold
    conds = []
    for i, Ti in enumerate(zone.T):
        a, b = zone.o[i], zone.o[i + 1]
        conds.append(sym.And(sym.gt(a, b), sym.ge(u, Ti), sym.lt(u, sym.add(Ti, sym.mul(sym.sub(a, b), M)))))
    return sym.b2i(sym.Or(*conds)) if conds else 0


def render_wall(zone, u):
    return sym.add(u, sym.mul(off_utc(zone, u), M))


def n_preimages(zone, w):
    """number of UTC instants whose rendering in the zone has wall time w: 0 skipped, 1, 2 repeated"""
    if is_fixed(zone):
        return 1
    nt = _native_tz(zone)
    if nt is not None:
        us = set()
        for fold in (0, 1):
            u = w - off_wall(zone, w, fold) * M
            if render_wall(zone, u) == w:
                us.add(u)
        return len(us)
    n = 0
    segs = len(zone.o)
    for j in range(segs):
        u = sym.sub(w, sym.mul(zone.o[j], M))
        lo = True if j == 0 else sym.ge(u, zone.T[j - 1])
        hi = True if j == segs - 1 else sym.lt(u, zone.T[j])
        n = sym.add(n, sym.b2i(sym.And(lo, hi)))
    return n


def gap_len(zone, w):
    """length (seconds) of the gap that contains wall time w (0 when w is not skipped)"""
    if is_fixed(zone):
        return 0
    nt = _native_tz(zone)
    if nt is not None:
        if n_preimages(zone, w) != 0:
            return 0
        return off_wall(zone, w, 1) - off_wall(zone, w, 0)
    g = 0
    for i, Ti in enumerate(zone.T):
        a, b = zone.o[i], zone.o[i + 1]
        inside = sym.And(sym.lt(a, b), sym.ge(w, sym.add(Ti, sym.mul(a, M))), sym.lt(w, sym.add(Ti, sym.mul(b, M))))
        g = sym.add(g, sym.If(inside, sym.sub(b, a), 0))
    return g


def offset_of(dt):
    """utcoffset in seconds of an aware datetime object (symbolic-world representation)"""
    return off_wall(dt.tzinfo, spec.wall_us(dt), dt.fold)


def instant(dt):
    """UTC instant (microseconds on the wall_us scale) denoted by an aware datetime object"""
    return sym.sub(spec.wall_us(dt), sym.mul(offset_of(dt), M))


def is_rendering(dt):
    """dt is exactly the tz database's rendering of its own instant (valid local time, canonical fold
    up to the observable: fields and offset survive a round trip through UTC)"""
    u = instant(dt)
    return sym.And(sym.eq(render_wall(dt.tzinfo, u), spec.wall_us(dt)), sym.eq(off_utc(dt.tzinfo, u), offset_of(dt)))


def normalised(zone, w, fold):
    """C02 rules: (wall', fold') for wall time w with the given fold in the zone"""
    n = n_preimages(zone, w)
    g = sym.mul(gap_len(zone, w), M)
    w2 = sym.If(sym.eq(n, 0), sym.If(sym.eq(fold, 1), sym.add(w, g), sym.sub(w, g)), w)
    f2 = sym.If(sym.eq(n, 0), 0, fold)
    return w2, f2


def same_zone(a, b):
    if a is None or b is None:
        return a is None and b is None
    return a.oid == b.oid
