"""Replay of solver counterexamples against the real code (native CPython run of the working tree)."""
from __future__ import annotations

import datetime as _dt
from fractions import Fraction

from . import sym
from .engine import Obj
from .verify import resolve

M = 10 ** 6


def to_native(v, ctx=None):
    """concrete symbolic-world value -> real Python object"""
    import pendulum

    if isinstance(v, Fraction):
        return float(v) if v.denominator != 1 else float(v.numerator)
    if isinstance(v, tuple):
        return tuple(to_native(x, ctx) for x in v)
    if isinstance(v, list):
        return [to_native(x, ctx) for x in v]
    if isinstance(v, dict):
        return {k: to_native(x, ctx) for k, x in v.items()}
    if not isinstance(v, Obj):
        return v
    if isinstance(v.oid, tuple) and v.oid[0] == "native":
        import ctypes

        # lifted native object: recover it from the lift cache
        from .world import World

        for w in World._instances:
            if v.oid[1] in w._lift_cache:
                return w._lift_cache[v.oid[1]][0]
    cls = v.cls
    if ctx is not None and v.oid in ctx:
        return ctx[v.oid]
    r = _build(v, cls, ctx)
    if ctx is not None:
        ctx[v.oid] = r
    return r


def _build(v, cls, ctx):
    import zoneinfo

    import pendulum
    from pendulum.tz.timezone import FixedTimezone

    if issubclass(cls, _dt.datetime):
        tz = to_native(v.tzinfo, ctx) if v.tzinfo is not None else None
        return cls(v.year, v.month, v.day, v.hour, v.minute, v.second, v.microsecond, tzinfo=tz, fold=v.fold)
    if issubclass(cls, _dt.date):
        return cls(v.year, v.month, v.day)
    if issubclass(cls, _dt.time):
        tz = to_native(v.tzinfo, ctx) if v.tzinfo is not None else None
        return cls(v.hour, v.minute, v.second, v.microsecond, tzinfo=tz, fold=v.fold)
    if issubclass(cls, pendulum.Duration):
        if "ctor" in v.f:
            return cls(**{k: to_native(x) for k, x in v.f["ctor"].items()})
        y, mo = v.f.get("_years", 0), v.f.get("_months", 0)
        return cls(years=y, months=mo, microseconds=v.us - (365 * y + 30 * mo) * 86400 * M)
    if issubclass(cls, _dt.timedelta):
        return cls(microseconds=v.us)
    if issubclass(cls, FixedTimezone):
        return FixedTimezone(v.f["_offset"], v.f.get("_name"))
    if issubclass(cls, zoneinfo.ZoneInfo):
        if v.f.get("native") is not None:
            return v.f["native"]
        if "concrete_key" in v.f:
            return cls(v.f["concrete_key"])
        if isinstance(v.key, str):
            return cls(v.key)
        raise ValueError("abstract zone (T, o) needs the transition catalogue")
    if cls.__module__.startswith("pendulum.formatting") and not [k for k in v.f if not k.startswith("__")]:
        return cls()   # stateless helper objects (Formatter, DifferenceFormatter)
    raise ValueError(f"cannot build native {cls.__name__}")


def native_truth(x):
    if sym.is_sym(x):
        raise ValueError("clause did not evaluate natively")
    return bool(x)


def call_real(qualname, args, owner_hint=None):
    fn, owner = resolve(qualname)
    import inspect

    try:
        if qualname.endswith(".__new__") and owner is not None:
            return ("ok", fn(**args))
        return ("ok", fn(**args))
    except BaseException as e:  # noqa: BLE001
        return ("raise", e)


def _world():
    from .world import World

    if not World._instances:
        World()
    return World._instances[-1]


def lift_native(v):
    """native value -> symbolic-world value with concrete fields (so that contract clauses, written over the
    symbolic-world representation, can be evaluated on a real run)"""
    if isinstance(v, Obj):
        return v
    w = _world()
    try:
        return w.lift(v)
    except Exception:  # noqa: BLE001
        return v


def eval_contract_natively(case, args, outcome):
    """list of (label, ok) for every clause of the contract on a concrete run"""
    args = {k: lift_native(v) for k, v in args.items()}
    out = []
    reqs = case.requires(args)
    for label, f in reqs:
        out.append((f"requires.{label}", native_truth(f)))
    if not all(ok for _, ok in out):
        return out, False
    raises = case.raises(args)
    if outcome[0] == "raise":
        e = outcome[1]
        match = [native_truth(c) for exc, label, c in raises if isinstance(e, exc)]
        out.append((f"raise.{type(e).__name__}", any(match)))
    else:
        res = lift_native(outcome[1])
        for exc, label, c in raises:
            out.append((f"noraise.{exc.__name__}.{label}", not native_truth(c)))
        if case.has_value():
            exp = case.value(args)
            out.append(("post.value", native_equal(res, exp)))
        for label, f in case.ensures(res, args):
            out.append((f"post.{label}", native_truth(f)))
    return out, True


def native_equal(a, b):
    if isinstance(b, Fraction) or isinstance(a, Fraction):
        return Fraction(a) == Fraction(b)
    if isinstance(a, (tuple, list)) and isinstance(b, (tuple, list)):
        return len(a) == len(b) and all(native_equal(x, y) for x, y in zip(a, b))
    if isinstance(a, Obj) and isinstance(b, Obj):
        from .verify import struct_eq

        return bool(struct_eq(a, b))
    if isinstance(b, Obj):
        return obj_matches(a, b)
    if a is NotImplemented or b is NotImplemented:
        return a is b
    return a == b


def obj_matches(native, o):
    """does a native object have the fields of the (concrete) symbolic-world object?"""
    if not isinstance(native, o.cls) and not issubclass(o.cls, type(native)):
        return False
    for k, v in o.f.items():
        if k in ("tzinfo", "T", "o", "key", "ctor"):
            continue
        if k == "us":
            us = (native.days * 86400 + _dt.timedelta.seconds.__get__(native)) * M + _dt.timedelta.microseconds.__get__(native)
            if us != v:
                return False
            continue
        if not hasattr(native, k):
            return False
        if not native_equal(getattr(native, k), v):
            return False
    return True


def replay(run, o, res, P):
    from .runner import model_value

    case = (o.meta or {}).get("case")
    if case is None or o.inputs is None or res.model is None:
        return {"confirmed": None, "detail": "obligation carries no function inputs (lemma / property-level obligation)"}
    custom = case.replay()
    model = res.model
    conc = {k: model_value(v, model) for k, v in o.inputs.items()}
    if custom is not None:
        return custom(conc, model, o)
    ctx = {}
    args = {k: to_native(v, ctx) for k, v in conc.items()}
    qualname = case.qualname
    outcome = call_real(qualname, args)
    clauses, pre_ok = eval_contract_natively(case, conc, outcome)
    shown = {k: repr(v) for k, v in args.items()}
    obs = repr(outcome[1]) if outcome[0] == "ok" else f"raised {type(outcome[1]).__name__}: {outcome[1]}"
    failed = [l for l, ok in clauses if not ok and not l.startswith("requires.")]
    if not pre_ok:
        return {"confirmed": None, "call": shown, "observed": obs, "clauses": clauses,
                "detail": "model inputs violate the precondition natively (partial model)"}
    return {"confirmed": bool(failed), "call": {"function": qualname, "args": shown}, "observed": obs,
            "clauses": [[l, ok] for l, ok in clauses], "failed_clauses": failed,
            "detail": "real code violates: " + ", ".join(failed) if failed else "real code satisfies every clause of this function's contract on the model input"}
