"""pyvc symbolic executor: real Python source (ast) -> paths -> obligations.

See DESIGN.md sections 2-3.  The executor re-reads the source of every function from the files the
imported package resolves to; names are resolved through the real module namespaces and the real MRO.
Calls are modular: a callee is represented by its contract (contracts/), a stdlib contract
(stdlib.py), a builtin with fixed semantics, or - for functions explicitly declared transparent -
by re-executing its own real source at the call site.
"""
from __future__ import annotations

import ast
import builtins
import enum
import inspect
import itertools
import math
import types
from fractions import Fraction

import z3

from . import sym
from .sym import is_sym, z


class Unsupported(Exception):
    """the function left the supported Python subset (exit 2: undecided, never a pass)"""


class NeedsContract(Unsupported):
    pass


_oid = itertools.count(1)


class Obj:
    """symbolic object: a real Python class + (symbolic or concrete) fields.  Immutable: attribute
    assignment in the executed code rebinds the local name to an updated copy (same identity token)."""

    def __init__(self, cls, oid=None, **f):
        object.__setattr__(self, "cls", cls)
        object.__setattr__(self, "f", dict(f))
        object.__setattr__(self, "oid", oid if oid is not None else next(_oid))

    def __getattr__(self, k):
        f = object.__getattribute__(self, "f")
        if k in f:
            return f[k]
        raise AttributeError(k)

    def __setattr__(self, k, v):
        raise TypeError("Obj is immutable")

    def with_fields(self, **kw):
        o = Obj(self.cls, oid=self.oid, **self.f)
        o.f.update(kw)
        return o

    def with_class(self, cls):
        return Obj(cls, oid=self.oid, **self.f)

    def __repr__(self):
        return f"<{self.cls.__name__}#{self.oid} {self.f}>"

    def isinst(self, c):
        return issubclass(self.cls, c)


class PartialVar:
    """a local bound on only one arm of a merged if-statement"""

    def __init__(self, cond, value):
        self.cond, self.value = cond, value


class Closure:
    def __init__(self, node, env, owner_fn, name):
        self.node, self.env, self.owner_fn, self.name = node, env, owner_fn, name


class BoundMethod:
    def __init__(self, self_val, func, cls=None):
        self.self_val, self.func, self.cls = self_val, func, cls


class SuperProxy:
    def __init__(self, self_val, after_cls):
        self.self_val, self.after_cls = self_val, after_cls


class ExcVal:
    """a raised exception: class + (unevaluated) message"""

    def __init__(self, cls, args=(), line=None):
        self.cls, self.args, self.line = cls, args, line

    def __repr__(self):
        return f"Exc({self.cls.__name__}@{self.line})"


NotImpl = NotImplemented


class State:
    """one path: local environment, path condition, branch signature.  All values are immutable, so a
    fork only copies the dictionaries."""

    def __init__(self, env=None, pc=None, sig=None, ghost=None):
        self.env = env if env is not None else {}
        self.pc = pc if pc is not None else []
        self.sig = sig if sig is not None else []
        self.ghost = ghost if ghost is not None else {}
        self.frames = []

    def fork(self, cond=None, tag=None):
        s = State(dict(self.env), list(self.pc), list(self.sig), {k: (list(v) if isinstance(v, list) else v) for k, v in self.ghost.items()})
        s.frames = [dict(f) for f in self.frames]
        if cond is not None:
            s.pc.append(cond)
        if tag is not None:
            s.sig.append(tag)
        return s

    def assume(self, cond):
        if cond is True:
            return
        self.pc.append(z(cond))


class Obligation:
    def __init__(self, oid, hyps, goal, kind, func, line=None, inputs=None, meta=None):
        self.id, self.hyps, self.goal, self.kind, self.func, self.line = oid, hyps, goal, kind, func, line
        self.inputs = inputs
        self.meta = meta or {}


class Fresh:
    """fresh-variable factory; remembers what it made so that models can be concretised"""

    def __init__(self, prefix=""):
        self.prefix = prefix
        self.n = itertools.count()
        self.made = []

    def _name(self, hint):
        return f"{self.prefix}{hint}!{next(self.n)}"

    def int(self, hint="i"):
        v = z3.Int(self._name(hint))
        self.made.append(v)
        return v

    def real(self, hint="r"):
        v = z3.Real(self._name(hint))
        self.made.append(v)
        return v

    def bool(self, hint="b"):
        v = z3.Bool(self._name(hint))
        self.made.append(v)
        return v

    def named_int(self, name):
        return z3.Int(self.prefix + name)

    def named_real(self, name):
        return z3.Real(self.prefix + name)

    def named_bool(self, name):
        return z3.Bool(self.prefix + name)


# ---------------------------------------------------------------------------------------------
# source access
# ---------------------------------------------------------------------------------------------
_ast_cache = {}


def _file_ast(path):
    if path not in _ast_cache:
        src = open(path).read()
        _ast_cache[path] = (ast.parse(src, path), src)
    return _ast_cache[path]


def function_node(fn):
    """the ast node (FunctionDef or Lambda) of a native function object, read from its file now"""
    code = fn.__code__
    path = inspect.getsourcefile(fn) or code.co_filename
    tree, src = _file_ast(path)
    first = code.co_firstlineno
    cands = []
    for n in ast.walk(tree):
        if isinstance(n, (ast.FunctionDef, ast.AsyncFunctionDef)) and n.name == code.co_name:
            lines = [n.lineno] + [d.lineno for d in n.decorator_list]
            if first in lines:
                cands.append(n)
        elif isinstance(n, ast.Lambda) and code.co_name == "<lambda>" and n.lineno == first:
            cands.append(n)
    if not cands:
        raise Unsupported(f"source of {fn.__qualname__} not found in {path}:{first}")
    if len(cands) > 1 and code.co_name == "<lambda>":
        # disambiguate by column using co_positions of the first instruction
        try:
            pos = next(p for p in code.co_positions() if p[0] is not None)
            cands.sort(key=lambda n: abs(n.body.col_offset - (pos[2] or 0)))
        except Exception:
            pass
    return cands[0], path, src


def source_segment(fn):
    node, path, src = function_node(fn)
    seg = ast.get_source_segment(src, node) or ""
    end = getattr(node, "end_lineno", node.lineno)
    return path, node.lineno, end, seg


# ---------------------------------------------------------------------------------------------
# the executor
# ---------------------------------------------------------------------------------------------
class Executor:
    def __init__(self, world, owner="?", feas_timeout=2000):
        self.world = world  # contracts, stdlib contracts, lifting, overrides
        self.obligations = []
        self.owner = owner
        self.feas_timeout = feas_timeout
        self._raises = []  # stack of pending-raise lists
        self.depth = 0
        self.notes = []
        self.dead = []
        self.fresh = Fresh(prefix="")
        self.calls_seen = set()
        self.transparent_seen = set()
        self.inputs = None
        self._feas_cache = {}
        self.inline_self = False
        self.owner_qualname = None
        self.case = None
        self.args0 = None
        self.loop_order = {}
        self.fresh.side = []
        self.cuts = {}
        self.cut_done = set()
        self.entry_pc = []

    # ------------------------------------------------------------------ helpers
    def feasible(self, st):
        if not st.pc:
            return True
        last = st.pc[-1]
        if not is_sym(last):
            return bool(last)
        s = z3.Solver()
        s.set("timeout", self.feas_timeout)
        for c in st.pc:
            s.add(z(c))
        for h in self.world.hints_for(st.pc):
            s.add(h)
        r = s.check()
        return r != z3.unsat

    def oblige(self, st, goal, kind, label, line=None, meta=None):
        if goal is True:
            return
        oid = f"{self.owner}#{kind}:{label}@{'.'.join(st.sig) or 'entry'}"
        self.obligations.append(Obligation(oid, list(st.pc), z(goal) if not isinstance(goal, bool) else z3.BoolVal(goal),
                                           kind, self.owner, line=line, inputs=self.inputs,
                                           meta=dict(meta or {}, case=self.case)))

    def pending_raise(self, st, exc):
        self._raises[-1].append((st, exc))

    def truth(self, v):
        """Python truthiness as bool or z3 Bool"""
        if isinstance(v, bool):
            return v
        if v is None:
            return False
        if is_sym(v):
            if z3.is_bool(v):
                return v
            return v != 0
        if isinstance(v, (int, float, Fraction)):
            return v != 0
        if isinstance(v, (str, tuple, list, dict, set, frozenset)):
            return len(v) > 0
        if isinstance(v, Obj):
            t = self.world.obj_truth(v)
            return t
        if hasattr(v, "_symmatch"):
            return True
        if hasattr(v, "_symstr"):
            return v.length() > 0 if hasattr(v, "chars") else True
        if v is NotImplemented:
            return True
        if isinstance(v, (types.FunctionType, type, types.ModuleType, BoundMethod, Closure)):
            return True
        return bool(v)

    # ------------------------------------------------------------------ expressions
    def ev(self, e, st):
        """generator of (state, value)"""
        m = getattr(self, "ev_" + type(e).__name__, None)
        if m is None:
            raise Unsupported(f"expression {type(e).__name__} at line {getattr(e, 'lineno', '?')}")
        yield from m(e, st)

    def evs(self, exprs, st):
        """evaluate a list of expressions left to right: yields (state, [values])"""
        if not exprs:
            yield st, []
            return
        for s1, v in self.ev(exprs[0], st):
            for s2, rest in self.evs(exprs[1:], s1):
                yield s2, [v] + rest

    def ev_Constant(self, e, st):
        v = e.value
        if isinstance(v, float):
            v = Fraction(v)
        yield st, v

    def lookup(self, name, st, line=None):
        if name in st.env:
            return st.env[name]
        scope = st.env.get("__closure_env__")
        while scope is not None:
            if name in scope:
                return scope[name]
            scope = scope.get("__closure_env__")
        g = st.env.get("__globals__", {})
        ov = self.world.global_override(g.get("__name__"), name)
        if ov is not None:
            return ov
        if name in g:
            return self.world.lift(g[name])
        if hasattr(builtins, name):
            return getattr(builtins, name)
        raise Unsupported(f"unbound name {name} at line {line}")

    def ev_Name(self, e, st):
        v = self.lookup(e.id, st, e.lineno)
        if isinstance(v, PartialVar):
            # bound on one arm of a merged `if` only: reading it elsewhere would be an UnboundLocalError
            self.oblige(st, v.cond, "safety", f"local-{e.id}-is-bound", line=e.lineno)
            v = v.value
        yield st, v

    def ev_Tuple(self, e, st):
        if any(isinstance(x, ast.Starred) for x in e.elts):
            raise Unsupported(f"starred tuple at line {e.lineno}")
        for s, vs in self.evs(e.elts, st):
            yield s, tuple(vs)

    def ev_List(self, e, st):
        for s, vs in self.evs(e.elts, st):
            yield s, list(vs)

    def ev_Dict(self, e, st):
        if any(k is None for k in e.keys):
            raise Unsupported(f"dict unpacking at line {e.lineno}")
        for s, ks in self.evs(e.keys, st):
            for s2, vs in self.evs(e.values, s):
                yield s2, dict(zip(ks, vs))

    def ev_JoinedStr(self, e, st):
        parts = []
        exprs = [v.value for v in e.values if isinstance(v, ast.FormattedValue)]
        for s, vs in self.evs(exprs, st):
            s = s.fork()  # _format_padded_int adds definitions to the path condition
            it = iter(vs)
            out = []
            ok = True
            for v in e.values:
                if isinstance(v, ast.Constant):
                    out.append(v.value)
                else:
                    x = next(it)
                    if is_sym(x) or isinstance(x, Obj) or hasattr(x, "_symstr"):
                        ok = False
                        dec = self._format_padded_int(s, x, v)
                        out.append(dec if dec is not None else self.world.sym_format(x, v))
                    else:
                        spec = ""
                        if v.format_spec is not None:
                            spec = "".join(c.value for c in v.format_spec.values if isinstance(c, ast.Constant))
                        if v.conversion == ord("r"):
                            x = repr(x)
                        out.append(format(x, spec))
            if ok:
                yield s, "".join(out)
            else:
                yield s, self.world.sym_concat(out)

    def _format_padded_int(self, st, x, fv):
        """f"{x:0Nd}" for a symbolic int that is provably in 0 .. 10**N - 1 on this path: a CharStr of N fresh
        digits d with sum(d[i] * 10**(N-1-i)) == x (the decimal expansion is unique, so this is a definition, not
        an assumption).  Anything else falls back to the abstract string."""
        import re as _re

        if not (is_sym(x) and z3.is_int(x)) or fv.format_spec is None or fv.conversion != -1:
            return None
        spec = "".join(c.value for c in fv.format_spec.values if isinstance(c, ast.Constant))
        m = _re.fullmatch(r"0(\d)d", spec)
        if m is None and spec not in ("d", ""):
            return None
        chk = z3.Solver()
        chk.set("timeout", 5000)
        for c in st.pc:
            chk.add(z(c))
        if m is not None:
            n = int(m.group(1))
            chk.add(z3.Not(z3.And(x >= 0, x < 10 ** n)))
            if chk.check() != z3.unsat:
                return None
        else:
            # unpadded: a CharStr only when the NUMBER OF DIGITS is the same on the whole path (10**(n-1) <= x < 10**n)
            n = None
            for k in (4, 1, 2, 3, 5, 6):
                chk.push()
                chk.add(z3.Not(z3.And(x >= (10 ** (k - 1) if k > 1 else 0), x < 10 ** k)))
                r = chk.check()
                chk.pop()
                if r == z3.unsat:
                    n = k
                    break
            if n is None:
                return None
        from .strings import CharStr

        ds = [self.fresh.int("dec") for _ in range(n)]
        val = 0
        for d in ds:
            st.assume(z3.And(d >= 0, d <= 9))
            val = val * 10 + d
        st.assume(val == x)
        return CharStr(ds)

    def ev_Attribute(self, e, st):
        for s, base in self.ev(e.value, st):
            yield from self.getattr_value(s, base, e.attr, e.lineno)

    def getattr_value(self, st, base, attr, line=None):
        w = self.world
        if isinstance(base, Obj):
            yield from w.obj_getattr(self, st, base, attr, line)
            return
        if isinstance(base, SuperProxy):
            yield st, w.super_lookup(self, base, attr, line)
            return
        if isinstance(base, types.ModuleType):
            ov = w.global_override(base.__name__, attr)
            if ov is not None:
                yield st, ov
                return
            yield st, w.lift(getattr(base, attr))
            return
        if isinstance(base, type):
            yield st, w.class_getattr(base, attr, line)
            return
        if is_sym(base) or isinstance(base, (int, Fraction)) and not isinstance(base, bool):
            yield st, w.num_getattr(self, base, attr, line)
            return
        if isinstance(base, (str, tuple, list, dict, bytes)):
            yield st, BoundMethod(base, getattr(type(base), attr), type(base))
            return
        if hasattr(base, "chars") and hasattr(base, "_symstr"):
            from . import strings

            yield st, strings.Method(base, attr)
            return
        sv = w.special_getattr(self, st, base, attr, line)
        if sv is not NotImplemented:
            yield st, sv
            return
        raise Unsupported(f"attribute {attr} of {type(base).__name__} at line {line}")

    def ev_UnaryOp(self, e, st):
        for s, v in self.ev(e.operand, st):
            if isinstance(e.op, ast.USub):
                if isinstance(v, Obj):
                    yield from self.call_value(s, self.world.obj_method(self, v, "__neg__", e.lineno), [], {}, e.lineno)
                else:
                    yield s, sym.neg(v)
            elif isinstance(e.op, ast.UAdd):
                yield s, sym.num(v)
            elif isinstance(e.op, ast.Not):
                yield s, sym.Not(self.truth(v))
            else:
                raise Unsupported(f"unary {type(e.op).__name__} at line {e.lineno}")

    _binop_names = {ast.Add: "add", ast.Sub: "sub", ast.Mult: "mul", ast.FloorDiv: "floordiv", ast.Mod: "mod",
                    ast.Div: "truediv", ast.Pow: "pow"}

    def binop(self, st, op, a, b, line):
        """generator of (state, value)"""
        name = self._binop_names.get(type(op))
        if name is None:
            raise Unsupported(f"operator {type(op).__name__} at line {line}")
        if isinstance(a, Obj) or isinstance(b, Obj):
            yield from self.world.obj_binop(self, st, name, a, b, line)
            return
        if isinstance(a, str) and isinstance(b, str) and name == "add":
            yield st, a + b
            return
        if isinstance(a, (str, list, tuple)) and not is_sym(b) and not is_sym(a):
            if name == "add":
                yield st, a + b
                return
            if name == "mod" and isinstance(a, str):
                yield st, a % b
                return
            if name == "mul":
                yield st, a * b
                return
        if hasattr(a, "_symstr") or hasattr(b, "_symstr"):
            yield st, self.world.sym_concat([a, b]) if name == "add" else None
            return
        if not (sym.is_num(a) and sym.is_num(b)):
            raise Unsupported(f"binop {name} on {type(a).__name__}, {type(b).__name__} at line {line}")
        if name == "add":
            yield st, sym.add(a, b)
        elif name == "sub":
            yield st, sym.sub(a, b)
        elif name == "mul":
            yield st, sym.mul(a, b)
        elif name in ("floordiv", "mod", "truediv"):
            nz = sym.ne(sym.num(b), 0)
            if nz is not True:
                if nz is False:
                    self.pending_raise(st, ExcVal(ZeroDivisionError, line=line))
                    return
                s_bad = st.fork(sym.Not(nz), f"L{line}zd")
                if self.feasible(s_bad):
                    self.pending_raise(s_bad, ExcVal(ZeroDivisionError, line=line))
                st.assume(nz)
            if name == "floordiv":
                yield st, sym.fdiv(a, b)
            elif name == "mod":
                yield st, sym.fmod(a, b)
            else:
                yield st, sym.truediv(a, b)
        elif name == "pow":
            if is_sym(a) or is_sym(b):
                raise Unsupported(f"symbolic ** at line {line}")
            yield st, a ** b
        else:
            raise Unsupported(name)

    def ev_BinOp(self, e, st):
        for s, (a, b) in self.evs([e.left, e.right], st):
            yield from self.binop(s, e.op, a, b, e.lineno)

    def speculate(self, node, st):
        """evaluate `node` in `st` without committing: returns the value when evaluation is a single, side-effect
        free path (no fork, no pending raise, no new obligation, no state change); otherwise None and every
        effect is rolled back (the caller then forks properly)"""
        n_obl = len(self.obligations)
        env0, pc0, sig0 = dict(st.env), len(st.pc), len(st.sig)
        self._raises.append([])
        try:
            try:
                res = list(self.ev(node, st))
            finally:
                pend = self._raises.pop()
            ok = (len(res) == 1 and res[0][0] is st and not pend and len(self.obligations) == n_obl
                  and len(st.pc) == pc0 and len(st.sig) == sig0 and st.env == env0)
        except Unsupported:
            raise
        if ok:
            return (res[0][1],)
        del self.obligations[n_obl:]
        st.env = env0
        del st.pc[pc0:]
        del st.sig[sig0:]
        return None

    def ev_BoolOp(self, e, st):
        is_and = isinstance(e.op, ast.And)

        def go(i, s):
            for s1, v in self.ev(e.values[i], s):
                if i == len(e.values) - 1:
                    yield s1, v
                    continue
                t = self.truth(v)
                if not is_sym(t):
                    if bool(t) == is_and:
                        yield from go(i + 1, s1)
                    else:
                        yield s1, v
                    continue
                # symbolic truthiness: merge when the rest is a single side-effect free scalar evaluation
                if True:
                    rest_node = e.values[i + 1] if i + 1 == len(e.values) - 1 else ast.copy_location(
                        ast.BoolOp(op=e.op, values=e.values[i + 1:]), e)
                    sp = self.speculate(rest_node, s1)
                    if sp is not None and self._mergeable(v, sp[0]):
                        r = sp[0]
                        if sym.is_bool(v) and sym.is_bool(r):
                            yield s1, (sym.And(v, r) if is_and else sym.Or(v, r))
                        elif is_and:
                            yield s1, sym.If(t, r, v)
                        else:
                            yield s1, sym.If(t, v, r)
                        continue
                # fork
                s_t = s1.fork(t, f"L{e.lineno}b{i}T")
                s_f = s1.fork(sym.Not(t), f"L{e.lineno}b{i}F")
                take_rest, take_v = (s_t, s_f) if is_and else (s_f, s_t)
                if self.feasible(take_rest):
                    yield from go(i + 1, take_rest)
                if self.feasible(take_v):
                    yield take_v, v

        yield from go(0, st)

    def _mergeable(self, a, b):
        ok = lambda v: sym.is_num(v) or sym.is_bool(v)
        return ok(a) and ok(b) and (sym.is_bool(a) == sym.is_bool(b))

    def compare1(self, st, op, a, b, line):
        """generator of (state, truth-value)"""
        if isinstance(op, (ast.Is, ast.IsNot)):
            r = self.world.identical(a, b)
            yield st, (r if isinstance(op, ast.Is) else sym.Not(r))
            return
        if isinstance(op, (ast.In, ast.NotIn)):
            if is_sym(a) or isinstance(a, Obj):
                if isinstance(b, (tuple, list)) and all(not isinstance(x, Obj) for x in b):
                    r = sym.Or(*[sym.eq(a, x) for x in b]) if b else False
                else:
                    raise Unsupported(f"symbolic `in` at line {line}")
            elif isinstance(b, Obj):
                raise Unsupported(f"`in` on object at line {line}")
            elif hasattr(b, "chars") and hasattr(b, "_symstr"):
                from . import strings

                r = strings.contains(a, b, line)
            else:
                r = a in b
            yield st, (r if isinstance(op, ast.In) else sym.Not(r))
            return
        if isinstance(a, Obj) or isinstance(b, Obj):
            yield from self.world.obj_compare(self, st, op, a, b, line)
            return
        if (hasattr(a, "_symstr") or hasattr(b, "_symstr")) and a is not None and b is not None:
            yield st, self.world.symstr_compare(op, a, b, line)
            return
        if a is None or b is None or isinstance(a, str) or isinstance(b, str) or isinstance(a, (tuple, list)):
            if is_sym(a) or is_sym(b):
                if isinstance(op, ast.Eq):
                    yield st, False
                    return
                if isinstance(op, ast.NotEq):
                    yield st, True
                    return
                raise Unsupported(f"ordering between symbolic and {type(b).__name__} at line {line}")
            if isinstance(a, (tuple, list)) and isinstance(b, (tuple, list)) and (
                    any(is_sym(x) for x in a) or any(is_sym(x) for x in b)):
                if len(a) != len(b):
                    eqv = False
                else:
                    eqv = sym.And(*[sym.eq(x, y) for x, y in zip(a, b)]) if a else True
                if isinstance(op, ast.Eq):
                    yield st, eqv
                    return
                if isinstance(op, ast.NotEq):
                    yield st, sym.Not(eqv)
                    return
                # lexicographic ordering, as CPython does it: the first position where the items are not == decides with the
                # operator itself (TypeError when those two items cannot be ordered, e.g. None and an int); equal prefixes
                # fall back on the lengths
                nums = lambda v: sym.is_num(v)
                prefix = []
                for x, y in zip(a, b):
                    both_num = nums(x) and nums(y)
                    if both_num:
                        same = sym.eq(x, y)
                    elif x is None and y is None:
                        same = True
                    elif (x is None) != (y is None) and (nums(x) or nums(y) or x is None or y is None):
                        same = False
                    else:
                        raise Unsupported(f"ordering of tuples with {type(x).__name__}/{type(y).__name__} items at line {line}")
                    differs = sym.And(*(prefix + [sym.Not(same)]))
                    if differs is not False:
                        s_d = st.fork(differs if differs is not True else None, f"L{line}t{len(prefix)}")
                        if self.feasible(s_d):
                            if both_num:
                                g = {ast.Lt: sym.lt, ast.LtE: sym.le, ast.Gt: sym.gt, ast.GtE: sym.ge}[type(op)]
                                yield s_d, g(x, y)
                            else:
                                self.pending_raise(s_d, ExcVal(TypeError, line=line))
                    if same is False:
                        return
                    if same is not True:
                        prefix.append(same)
                s_e = st.fork(sym.And(*prefix) if prefix else None, f"L{line}teq")
                if self.feasible(s_e):
                    la, lb = len(a), len(b)
                    yield s_e, {ast.Lt: la < lb, ast.LtE: la <= lb, ast.Gt: la > lb, ast.GtE: la >= lb}[type(op)]
                return
            f = {ast.Eq: lambda x, y: x == y, ast.NotEq: lambda x, y: x != y, ast.Lt: lambda x, y: x < y,
                 ast.LtE: lambda x, y: x <= y, ast.Gt: lambda x, y: x > y, ast.GtE: lambda x, y: x >= y}[type(op)]
            yield st, f(a, b)
            return
        if hasattr(a, "_symstr") or hasattr(b, "_symstr"):
            yield st, self.world.symstr_compare(op, a, b, line)
            return
        f = {ast.Eq: sym.eq, ast.NotEq: sym.ne, ast.Lt: sym.lt, ast.LtE: sym.le, ast.Gt: sym.gt, ast.GtE: sym.ge}[type(op)]
        if not (sym.is_num(a) and sym.is_num(b)):
            if isinstance(op, ast.Eq):
                yield st, a == b
                return
            if isinstance(op, ast.NotEq):
                yield st, a != b
                return
            raise Unsupported(f"compare {type(a).__name__} with {type(b).__name__} at line {line}")
        yield st, f(a, b)

    def ev_Compare(self, e, st):
        def go(s, left, i, acc):
            if i == len(e.ops):
                yield s, sym.And(*acc) if acc else True
                return
            for s1, r in self.ev(e.comparators[i], s):
                for s2, t in self.compare1(s1, e.ops[i], left, r, e.lineno):
                    if t is False:
                        yield s2, False
                        continue
                    if i + 1 < len(e.ops) and is_sym(t):
                        # Python stops at the first false comparison; the remaining comparators here are
                        # side-effect free expressions, so conjoining is equivalent
                        pass
                    yield from go(s2, r, i + 1, acc + [t])

        for s0, left in self.ev(e.left, st):
            yield from go(s0, left, 0, [])

    def ev_IfExp(self, e, st):
        for s, c in self.ev(e.test, st):
            t = self.truth(c)
            if not is_sym(t):
                yield from self.ev(e.body if t else e.orelse, s)
                continue
            sa = self.speculate(e.body, s)
            if sa is not None:
                sb = self.speculate(e.orelse, s)
                if sb is not None and self._mergeable(sa[0], sb[0]):
                    yield s, sym.If(t, sa[0], sb[0])
                    continue
            s_t = s.fork(t, f"L{e.lineno}eT")
            if self.feasible(s_t):
                yield from self.ev(e.body, s_t)
            s_f = s.fork(sym.Not(t), f"L{e.lineno}eF")
            if self.feasible(s_f):
                yield from self.ev(e.orelse, s_f)

    def ev_Subscript(self, e, st):
        for s, (base, idx) in self.evs([e.value, e.slice], st):
            yield from self.subscript(s, base, idx, e.lineno)

    def ev_Slice(self, e, st):
        parts = [x if x is not None else ast.Constant(value=None) for x in (e.lower, e.upper, e.step)]
        for s, vs in self.evs(parts, st):
            if any(is_sym(v) for v in vs):
                raise Unsupported(f"symbolic slice at line {getattr(e, 'lineno', '?')}")
            yield s, slice(*vs)

    def subscript(self, st, base, idx, line):
        if isinstance(base, Obj):
            yield from self.world.obj_subscript(self, st, base, idx, line)
            return
        if hasattr(base, "_symseq"):
            yield from base.getitem(self, st, idx, line)
            return
        if isinstance(base, dict):
            if is_sym(idx):
                raise Unsupported(f"symbolic dict key at line {line}")
            if idx not in base:
                self.pending_raise(st, ExcVal(KeyError, line=line))
                return
            yield st, base[idx]
            return
        if isinstance(base, (tuple, list, str)):
            if isinstance(idx, slice):
                yield st, base[idx]
                return
            idx = sym.num(idx)
            if not is_sym(idx):
                if not isinstance(idx, int):
                    self.pending_raise(st, ExcVal(TypeError, line=line))
                    return
                if not -len(base) <= idx < len(base):
                    self.pending_raise(st, ExcVal(IndexError, line=line))
                    return
                yield st, base[idx]
                return
            n = len(base)
            inr = sym.And(idx >= -n, idx < n)
            s_bad = st.fork(sym.Not(inr), f"L{line}ix")
            if self.feasible(s_bad):
                self.pending_raise(s_bad, ExcVal(IndexError, line=line))
            st.assume(inr)
            pos = z3.If(idx < 0, idx + n, idx)
            yield st, self._select(list(base), pos, line)
            return
        raise Unsupported(f"subscript of {type(base).__name__} at line {line}")

    def _select(self, items, pos, line):
        if all(isinstance(x, (tuple, list)) for x in items) and len({len(x) for x in items}) == 1:
            width = len(items[0])
            return tuple(self._select([row[j] for row in items], pos, line) for j in range(width))
        if all(sym.is_num(x) or sym.is_bool(x) for x in items):
            return sym.sel(items, pos)
        raise Unsupported(f"symbolic index into heterogeneous sequence at line {line}")

    def ev_Lambda(self, e, st):
        yield st, Closure(e, st.env, None, "<lambda>")

    def ev_ListComp(self, e, st):
        yield from self._comp(e, st, list)

    def ev_GeneratorExp(self, e, st):
        yield from self._comp(e, st, list)

    def _comp(self, e, st, ctor):
        if len(e.generators) != 1 or e.generators[0].ifs:
            raise Unsupported(f"comprehension shape at line {e.lineno}")
        g = e.generators[0]
        for s, it in self.ev(g.iter, st):
            if not isinstance(it, (list, tuple)):
                raise Unsupported(f"comprehension over {type(it).__name__} at line {e.lineno}")

            def go(s1, i, acc):
                if i == len(it):
                    yield s1, ctor(acc)
                    return
                self.assign(g.target, it[i], s1)
                for s2, v in self.ev(e.elt, s1):
                    yield from go(s2, i + 1, acc + [v])

            yield from go(s, 0, [])

    def ev_Starred(self, e, st):
        raise Unsupported(f"starred at line {e.lineno}")

    # ------------------------------------------------------------------ calls
    def ev_Call(self, e, st):
        # super() special form
        if isinstance(e.func, ast.Name) and e.func.id == "super" and not e.args:
            cls = st.env.get("__defclass__")
            selfv = st.env.get(st.env.get("__first_arg__"))
            yield st, SuperProxy(selfv, cls)
            return
        if isinstance(e.func, ast.Name) and e.func.id == "cast" and len(e.args) == 2 and not e.keywords:
            import typing

            try:
                is_cast = self.lookup("cast", st, e.lineno) is typing.cast
            except Unsupported:
                is_cast = False
            if is_cast:
                # typing.cast(T, v) is the identity; the type expression is dropped (DESIGN.md section 3)
                yield from self.ev(e.args[1], st)
                return
        if (isinstance(e.func, ast.Attribute) and e.func.attr in _MUTATORS and isinstance(e.func.value, ast.Name)
                and isinstance(st.env.get(e.func.value.id), (list, dict))):
            yield from self._mutator_call(e, st)
            return
        pos = []
        starred = []
        for i, a in enumerate(e.args):
            if isinstance(a, ast.Starred):
                starred.append(i)
                pos.append(a.value)
            else:
                pos.append(a)
        kwnames = [k.arg for k in e.keywords]
        for s, vals in self.evs([e.func] + pos + [k.value for k in e.keywords], st):
            fn = vals[0]
            args = []
            for i, v in enumerate(vals[1:1 + len(pos)]):
                if i in starred:
                    if not isinstance(v, (tuple, list)):
                        raise Unsupported(f"*args of a non-sequence at line {e.lineno}")
                    args.extend(v)
                else:
                    args.append(v)
            kw = {}
            for name, v in zip(kwnames, vals[1 + len(pos):]):
                if name is None:
                    if not isinstance(v, dict):
                        raise Unsupported(f"**kwargs of non-dict at line {e.lineno}")
                    kw.update(v)
                else:
                    kw[name] = v
            yield from self.call_value(s, fn, args, kw, e.lineno)

    def _mutator_call(self, e, st):
        """list/dict mutation through a local name: functional update + rebinding"""
        name = e.func.value.id
        if e.keywords:
            raise Unsupported(f"mutator with keywords at line {e.lineno}")
        for s, args in self.evs(list(e.args), st):
            cur = s.env[name]
            m = e.func.attr
            if isinstance(cur, list):
                if m == "append":
                    s.env[name] = cur + [args[0]]
                    yield s, None
                elif m == "extend":
                    s.env[name] = cur + list(args[0])
                    yield s, None
                elif m == "insert" and not is_sym(args[0]):
                    n = list(cur)
                    n.insert(args[0], args[1])
                    s.env[name] = n
                    yield s, None
                elif m == "pop":
                    n = list(cur)
                    r = n.pop(*args)
                    s.env[name] = n
                    yield s, r
                else:
                    raise Unsupported(f"list.{m} at line {e.lineno}")
            else:
                if m == "update" and isinstance(args[0], dict):
                    n = dict(cur)
                    n.update(args[0])
                    s.env[name] = n
                    yield s, None
                elif m == "pop" and not is_sym(args[0]):
                    n = dict(cur)
                    if args[0] not in n and len(args) == 1:
                        self.pending_raise(s, ExcVal(KeyError, line=e.lineno))
                        continue
                    r = n.pop(*args)
                    s.env[name] = n
                    yield s, r
                elif m == "setdefault" and not is_sym(args[0]):
                    n = dict(cur)
                    r = n.setdefault(*args)
                    s.env[name] = n
                    yield s, r
                else:
                    raise Unsupported(f"dict.{m} at line {e.lineno}")

    def call_value(self, st, fn, args, kw, line):
        """generator of (state, result)"""
        w = self.world
        if isinstance(fn, BoundMethod):
            if isinstance(fn.self_val, (str, tuple, list, dict, bytes)) and not isinstance(fn.func, types.FunctionType):
                yield from w.call_native_method(self, st, fn, args, kw, line)
                return
            yield from self.call_value(st, fn.func, [fn.self_val] + list(args), kw, line)
            return
        if isinstance(fn, Closure):
            yield from self.call_closure(st, fn, args, kw, line)
            return
        from . import strings

        if isinstance(fn, strings.Method):
            yield from strings.call_method(self, st, fn, args, kw, line)
            return
        yield from w.call(self, st, fn, args, kw, line)

    def bind(self, node_args, args, kw, defaults_env_eval, line, fname="?"):
        """bind call arguments to an ast.arguments; returns dict name->value"""
        a = node_args
        params = [p.arg for p in a.posonlyargs + a.args]
        env = {}
        if len(args) > len(params) and a.vararg is None:
            raise Unsupported(f"too many positional args calling {fname} at line {line}")
        for p, v in zip(params, args):
            env[p] = v
        if a.vararg is not None:
            env[a.vararg.arg] = tuple(args[len(params):])
        kwonly = [p.arg for p in a.kwonlyargs]
        extra = {}
        for k, v in kw.items():
            if k in env:
                raise Unsupported(f"duplicate argument {k} calling {fname} at line {line}")
            if k in params or k in kwonly:
                env[k] = v
            elif a.kwarg is not None:
                extra[k] = v
            else:
                return None, k  # unexpected keyword -> TypeError
        if a.kwarg is not None:
            env[a.kwarg.arg] = extra
        nd = len(a.defaults)
        for i, p in enumerate(params):
            if p not in env:
                j = i - (len(params) - nd)
                if j < 0:
                    return None, p
                env[p] = defaults_env_eval(a.defaults[j])
        for p, d in zip(kwonly, a.kw_defaults):
            if p not in env:
                if d is None:
                    return None, p
                env[p] = defaults_env_eval(d)
        return env, None

    def _const_default(self, globals_):
        def ev_default(node):
            st = State(env={"__globals__": globals_})
            r = list(self.ev(node, st))
            if len(r) != 1:
                raise Unsupported("forking default value")
            return r[0][1]

        return ev_default

    def call_closure(self, st, clo, args, kw, line):
        node = clo.node
        g = st.env.get("__globals__", {})
        env, missing = self.bind(node.args, args, kw, self._const_default(g), line, clo.name)
        if env is None:
            self.pending_raise(st, ExcVal(TypeError, line=line))
            return
        env["__closure_env__"] = clo.env
        env["__globals__"] = clo.env.get("__globals__", g) if isinstance(clo.env, dict) else g
        yield from self._run_body_as_call(st, node, env, f"{clo.name}")

    def call_function_source(self, st, fn, args, kw, line, defclass=None, want_self=False):
        """transparent call: execute the real source of native function `fn` at the call site"""
        node, path, src = function_node(fn)
        g = fn.__globals__
        env, missing = self.bind(node.args, args, kw, self._const_default(g), line, fn.__qualname__)
        if env is None:
            self.pending_raise(st, ExcVal(TypeError, line=line))
            return
        env["__globals__"] = g
        if node.args.args:
            env["__first_arg__"] = node.args.args[0].arg
        if defclass is not None:
            env["__defclass__"] = defclass
        if fn.__closure__:
            cenv = {}
            for name, cell in zip(fn.__code__.co_freevars, fn.__closure__):
                try:
                    cenv[name] = self.world.lift(cell.cell_contents)
                except ValueError:
                    pass
            if "__class__" in cenv and defclass is None:
                env["__defclass__"] = cenv["__class__"]
            env["__closure_env__"] = cenv
        yield from self._run_body_as_call(st, node, env, fn.__qualname__, want_self=want_self)

    def _run_body_as_call(self, st, node, env, name, want_self=False):
        if self.depth > 40:
            raise Unsupported(f"call depth exceeded in {name}")
        self.depth += 1
        try:
            if self.depth == 1:
                self.entry_env = dict(env)
            st.frames.append(st.env)
            st.env = env
            if isinstance(node, ast.Lambda):
                outs = [(s, ("return", v)) for s, v in self.ev(node.body, st)]
            else:
                outs = self.run(node.body, st)
            for s, o in outs:
                final_env = s.env
                s.env = s.frames.pop()
                if o is None or o[0] == "return":
                    rv = None if o is None else o[1]
                    if want_self:
                        # True: the final value of the first parameter (self); a name: the final value of that parameter
                        # (in-place updates of a dict / list argument rebind the local name)
                        yield s, (rv, final_env.get(final_env.get("__first_arg__") if want_self is True else want_self))
                    else:
                        yield s, rv
                elif o[0] == "raise":
                    self.pending_raise(s, o[1])
                else:
                    raise Unsupported(f"{o[0]} escaped function {name}")
        finally:
            self.depth -= 1

    # ------------------------------------------------------------------ statements
    def run(self, stmts, st):
        """list of (state, outcome); outcome None | ('return', v) | ('raise', ExcVal) | ('break',) | ('continue',)"""
        outs = []
        work = [(st, 0)]
        while work:
            s, i = work.pop()
            if i == len(stmts):
                outs.append((s, None))
                continue
            if self.cuts and id(stmts[i]) in self.cuts:
                s = self.world.do_cut(self, self.cuts[id(stmts[i])], stmts, i, s)
                if s is None:
                    continue
            for s1, o in self.step(stmts[i], s):
                if o is None:
                    work.append((s1, i + 1))
                else:
                    outs.append((s1, o))
        return outs

    def step(self, stmt, st):
        m = getattr(self, "st_" + type(stmt).__name__, None)
        if m is None:
            raise Unsupported(f"statement {type(stmt).__name__} at line {stmt.lineno}")
        self._raises.append([])
        try:
            outs = list(m(stmt, st))
        finally:
            pend = self._raises.pop()
        outs.extend((s, ("raise", x)) for s, x in pend)
        return outs

    def st_Expr(self, s, st):
        if isinstance(s.value, ast.Constant):
            yield st, None
            return
        if isinstance(s.value, (ast.Yield, ast.YieldFrom)):
            yield from self.do_yield(s.value, st)
            return
        for s1, _ in self.ev(s.value, st):
            yield s1, None

    def do_yield(self, e, st):
        """generator functions: the yielded values form a ghost sequence; its length is the ghost counter
        `count`, and the contract's `yields` clauses are obligations at every yield"""
        if isinstance(e, ast.YieldFrom):
            raise Unsupported(f"yield from at line {e.lineno}")
        for s1, v in self.ev(e.value, st):
            k = s1.ghost.get("count", 0)
            if self.case is not None and self.case._get("yields") is not None and self.depth == 1:
                envv = dict(s1.env)
                envv["__count__"] = k
                from .world import Env

                for label, f in self.case._get("yields")(v, k, Env(envv), self.args0):
                    self.oblige(s1, f, "yield", label, line=e.lineno)
            s1.ghost["count"] = sym.add(k, 1)
            yield s1, None

    def assign(self, tgt, v, st):
        if isinstance(tgt, ast.Name):
            st.env[tgt.id] = v
        elif isinstance(tgt, (ast.Tuple, ast.List)):
            if isinstance(v, Obj):
                raise Unsupported(f"unpack object at line {tgt.lineno}")
            if len(tgt.elts) != len(v):
                raise Unsupported(f"unpack arity at line {tgt.lineno}")
            for t, x in zip(tgt.elts, v):
                self.assign(t, x, st)
        elif isinstance(tgt, ast.Attribute):
            # objects are immutable values: `name.attr = v` rebinds `name` to an updated copy
            if not isinstance(tgt.value, ast.Name):
                raise Unsupported(f"attribute assignment through non-name at line {tgt.lineno}")
            base = self.lookup(tgt.value.id, st, tgt.lineno)
            if isinstance(base, Obj):
                st.env[tgt.value.id] = self.world.obj_setattr(self, st, base, tgt.attr, v, tgt.lineno)
            else:
                raise Unsupported(f"attribute assignment on {type(base).__name__} at line {tgt.lineno}")
        elif isinstance(tgt, ast.Subscript):
            if not isinstance(tgt.value, ast.Name):
                raise Unsupported(f"subscript assignment through non-name at line {tgt.lineno}")
            base = self.lookup(tgt.value.id, st, tgt.lineno)
            r = list(self.ev(tgt.slice, st))
            if len(r) != 1 or r[0][0] is not st:
                raise Unsupported(f"forking subscript target at line {tgt.lineno}")
            idx = r[0][1]
            if isinstance(base, dict) and not is_sym(idx):
                nb = dict(base)
                nb[idx] = v
            elif isinstance(base, list) and not is_sym(idx):
                nb = list(base)
                nb[idx] = v
            else:
                raise Unsupported(f"subscript assignment at line {tgt.lineno}")
            st.env[tgt.value.id] = nb
        else:
            raise Unsupported(f"assignment target {type(tgt).__name__} at line {tgt.lineno}")

    def st_Assign(self, s, st):
        for s1, v in self.ev(s.value, st):
            bad = [t for t in s.targets if isinstance(t, (ast.Tuple, ast.List)) and isinstance(v, (list, tuple)) and len(t.elts) != len(v)
                   and not any(isinstance(e, ast.Starred) for e in t.elts)]
            if bad:
                # `a, b = seq` with the wrong number of items: ValueError (too many / not enough values to unpack)
                self.pending_raise(s1, ExcVal(ValueError, line=s.lineno))
                continue
            for t in s.targets:
                self.assign(t, v, s1)
            yield s1, None

    def st_AnnAssign(self, s, st):
        if s.value is None:
            yield st, None
            return
        for s1, v in self.ev(s.value, st):
            self.assign(s.target, v, s1)
            yield s1, None

    def st_AugAssign(self, s, st):
        load = ast.copy_location(_as_load(s.target), s.target)
        for s1, (a, b) in self.evs([load, s.value], st):
            for s2, v in self.binop(s1, s.op, a, b, s.lineno):
                self.assign(s.target, v, s2)
                yield s2, None

    def st_Return(self, s, st):
        if s.value is None:
            yield st, ("return", None)
            return
        for s1, v in self.ev(s.value, st):
            yield s1, ("return", v)

    def st_Raise(self, s, st):
        if s.exc is None:
            cur = st.env.get("__current_exc__")
            if cur is None:
                raise Unsupported(f"bare raise outside handler at line {s.lineno}")
            yield st, ("raise", cur)
            return
        exc = s.exc
        cls = None
        if isinstance(exc, ast.Call):
            r = list(self.ev(exc.func, st))
            cls = r[0][1]
        else:
            r = list(self.ev(exc, st))
            cls = r[0][1]
        if isinstance(cls, ExcVal):
            yield st, ("raise", cls)
            return
        if not (isinstance(cls, type) and issubclass(cls, BaseException)):
            raise Unsupported(f"raise of non-exception at line {s.lineno}")
        # exception message arguments are not evaluated (DESIGN.md section 3: dropped)
        yield st, ("raise", ExcVal(cls, line=s.lineno))

    def st_Pass(self, s, st):
        yield st, None

    def st_Break(self, s, st):
        yield st, ("break",)

    def st_Continue(self, s, st):
        yield st, ("continue",)

    def st_Assert(self, s, st):
        for s1, v in self.ev(s.test, st):
            t = self.truth(v)
            if t is True:
                yield s1, None
                continue
            if t is not False:
                s_bad = s1.fork(sym.Not(t), f"L{s.lineno}as")
                if self.feasible(s_bad):
                    yield s_bad, ("raise", ExcVal(AssertionError, line=s.lineno))
                s1.assume(t)
                yield s1, None
            else:
                yield s1, ("raise", ExcVal(AssertionError, line=s.lineno))

    def st_Import(self, s, st):
        import importlib

        for a in s.names:
            mod = importlib.import_module(a.name)
            if a.asname:
                st.env[a.asname] = mod
            else:
                st.env[a.name.split(".")[0]] = importlib.import_module(a.name.split(".")[0])
        yield st, None

    def st_ImportFrom(self, s, st):
        import importlib

        mod = importlib.import_module(s.module)
        for a in s.names:
            st.env[a.asname or a.name] = self.world.lift(getattr(mod, a.name))
        yield st, None

    def st_FunctionDef(self, s, st):
        st.env[s.name] = Closure(s, st.env, None, s.name)
        yield st, None

    def st_If(self, s, st):
        for s0, c in self.ev(s.test, st):
            t = self.truth(c)
            if not is_sym(t):
                yield from self.run(s.body if t else s.orelse, s0)
                continue
            merged = self.world.try_merge_if(self, s, s0, t)
            if merged is not None:
                yield from merged
                continue
            s_t = s0.fork(t, f"L{s.lineno}T")
            s_f = s0.fork(sym.Not(t), f"L{s.lineno}F")
            ft, ff = self.feasible(s_t), self.feasible(s_f)
            if ft:
                yield from self.run(s.body, s_t)
            else:
                self.dead.append((self.owner, s.lineno, "then"))
            if ff:
                yield from self.run(s.orelse, s_f)
            elif s.orelse:
                self.dead.append((self.owner, s.lineno, "else"))

    def st_While(self, s, st):
        yield from self.world.do_while(self, s, st)

    def st_For(self, s, st):
        for s0, it in self.ev(s.iter, st):
            if isinstance(it, (list, tuple, dict)) or (isinstance(it, range)):
                items = list(it)
                yield from self._unroll_for(s, s0, items, 0)
            else:
                yield from self.world.do_for(self, s, s0, it)

    def _unroll_for(self, s, st, items, i):
        if i == len(items):
            if s.orelse:
                yield from self.run(s.orelse, st)
            else:
                yield st, None
            return
        self.assign(s.target, items[i], st)
        for s1, o in self.run(s.body, st):
            if o is None or o[0] == "continue":
                yield from self._unroll_for(s, s1, items, i + 1)
            elif o[0] == "break":
                yield s1, None
            else:
                yield s1, o

    def st_With(self, s, st):
        # only `with contextlib.suppress(E, ...)`
        import contextlib

        if len(s.items) != 1:
            raise Unsupported(f"with at line {s.lineno}")
        ce = s.items[0].context_expr
        r = list(self.evs([ce.func] + list(ce.args), st)) if isinstance(ce, ast.Call) else None
        if not r or r[0][1][0] is not contextlib.suppress:
            raise Unsupported(f"with (not contextlib.suppress) at line {s.lineno}")
        excs = tuple(r[0][1][1:])
        for s1, o in self.run(s.body, st):
            if o is not None and o[0] == "raise" and issubclass(o[1].cls, excs):
                yield s1, None
            else:
                yield s1, o

    def st_Try(self, s, st):
        if s.finalbody:
            raise Unsupported(f"try/finally at line {s.lineno}")
        for s1, o in self.run(s.body, st):
            if o is None:
                if s.orelse:
                    yield from self.run(s.orelse, s1)
                else:
                    yield s1, None
                continue
            if o[0] != "raise":
                yield s1, o
                continue
            exc = o[1]
            handled = False
            for h in s.handlers:
                if h.type is None:
                    match = True
                else:
                    r = list(self.ev(h.type, s1))
                    types_ = r[0][1]
                    if not isinstance(types_, tuple):
                        types_ = (types_,)
                    match = issubclass(exc.cls, types_)
                if match:
                    handled = True
                    if h.name:
                        s1.env[h.name] = exc
                    prev = s1.env.get("__current_exc__")
                    s1.env["__current_exc__"] = exc
                    for s2, o2 in self.run(h.body, s1):
                        s2.env["__current_exc__"] = prev
                        yield s2, o2
                    break
            if not handled:
                yield s1, o

    def st_Global(self, s, st):
        raise Unsupported(f"global statement at line {s.lineno}")

    def st_Delete(self, s, st):
        raise Unsupported(f"del at line {s.lineno}")


_MUTATORS = {"append", "extend", "insert", "pop", "update", "setdefault", "remove", "clear", "sort"}


def _as_load(t):
    if isinstance(t, ast.Name):
        return ast.Name(id=t.id, ctx=ast.Load(), lineno=t.lineno, col_offset=t.col_offset)
    if isinstance(t, ast.Attribute):
        return ast.Attribute(value=t.value, attr=t.attr, ctx=ast.Load(), lineno=t.lineno, col_offset=t.col_offset)
    if isinstance(t, ast.Subscript):
        return ast.Subscript(value=t.value, slice=t.slice, ctx=ast.Load(), lineno=t.lineno, col_offset=t.col_offset)
    raise Unsupported("augmented assignment target")
