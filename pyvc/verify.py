"""Verification driver: one real function against its sidecar contract -> obligations."""
from __future__ import annotations

import ast
import hashlib
import importlib
import time

import z3

from . import sym
from .contract import LEMMAS, REGISTRY, TRANSPARENT
from .engine import ExcVal, Executor, Fresh, Obj, Obligation, State, Unsupported, function_node, source_segment
from .sym import is_sym, z
from .world import Env, World, qualname_of


def resolve(qualname):
    """qualified name -> (native function, defining class or None)"""
    parts = qualname.split(".")
    for i in range(len(parts) - 1, 0, -1):
        modname = ".".join(parts[:i])
        try:
            mod = importlib.import_module(modname)
        except ImportError:
            continue
        obj = mod
        owner = None
        ok = True
        for p in parts[i:]:
            owner = obj if isinstance(obj, type) else None
            if isinstance(obj, type):
                if p not in obj.__dict__:
                    ok = False
                    break
                obj = obj.__dict__[p]
            else:
                if not hasattr(obj, p):
                    ok = False
                    break
                obj = getattr(obj, p)
        if not ok:
            continue
        if isinstance(obj, property):
            obj = obj.fget
        if isinstance(obj, (classmethod, staticmethod)):
            obj = obj.__func__
        return obj, owner
    raise KeyError(f"cannot resolve {qualname}")


def struct_eq(a, b):
    """structural equality of symbolic values (objects: same class and equal fields)"""
    if isinstance(a, Obj) and isinstance(b, Obj):
        if a.cls is not b.cls:
            return False
        keys = set(a.f) | set(b.f)
        cs = []
        for k in sorted(keys):
            if k not in a.f or k not in b.f:
                return False
            cs.append(struct_eq(a.f[k], b.f[k]))
        return sym.And(*cs) if cs else True
    if isinstance(a, Obj) or isinstance(b, Obj):
        return False
    if isinstance(a, (tuple, list)) and isinstance(b, (tuple, list)):
        if len(a) != len(b):
            return False
        return sym.And(*[struct_eq(x, y) for x, y in zip(a, b)]) if a else True
    if a is None or b is None:
        return a is None and b is None
    if hasattr(a, "_symstr") or hasattr(b, "_symstr"):
        if hasattr(a, "tok") and hasattr(b, "tok"):
            return sym.eq(a.tok, b.tok)
        return a is b
    if a is NotImplemented or b is NotImplemented:
        return a is b
    if isinstance(a, (str, type)) or isinstance(b, (str, type)):
        return a == b
    if isinstance(a, dict) and isinstance(b, dict):
        if set(a) != set(b):
            return False
        return sym.And(*[struct_eq(a[k], b[k]) for k in a]) if a else True
    return sym.eq(a, b)


class FunctionReport:
    def __init__(self, qualname, case):
        self.qualname, self.case = qualname, case
        self.file = self.first = self.last = self.sha = None
        self.paths = 0
        self.obligations = []
        self.covers = []
        self.dead = []
        self.error = None
        self.secs = 0.0
        self.assumed = set()
        self.transparent = set()
        self.contracts_used = set()


def loop_order(node):
    loops = [n for n in ast.walk(node) if isinstance(n, (ast.While, ast.For))]
    loops.sort(key=lambda n: (n.lineno, n.col_offset))
    return {id(n): i for i, n in enumerate(loops)}


def verify_case(world, entry, case, feas_timeout=400):
    rep = FunctionReport(entry.qualname, case.name)
    t0 = time.time()
    try:
        fn, owner = resolve(entry.qualname)
        node, path, src = function_node(fn)
        rep.file, rep.first, rep.last = path, node.lineno, getattr(node, "end_lineno", node.lineno)
        rep.sha = hashlib.sha256((ast.get_source_segment(src, node) or "").encode()).hexdigest()[:16]
        F = Fresh()
        F.side = []
        argsd, assumptions = case.args(F)
        if not isinstance(assumptions, (list, tuple)):
            assumptions = [assumptions]
        ex = Executor(world, owner=f"{entry.qualname}[{case.name}]", feas_timeout=feas_timeout)
        ex.fresh = F
        ex.case = case
        ex.args0 = Env(dict(argsd))
        ex.loop_order = loop_order(node)
        ex.inline_self = True
        ex.owner_qualname = entry.qualname
        ex.inputs = dict(argsd)
        world.assumed_used, world.transparent_used, world.contracts_used = rep.assumed, rep.transparent, rep.contracts_used
        st = State()
        st.env["__globals__"] = fn.__globals__
        for a in assumptions:
            st.assume(a)
        for label, f in case.requires(argsd):
            st.assume(f)
        # cover: the precondition is satisfiable
        rep.covers.append((f"{ex.owner}#cover:requires", list(st.pc)))
        ex._raises.append([])
        # positional binding by parameter name
        a = node.args
        params = [p.arg for p in a.posonlyargs + a.args] + [p.arg for p in a.kwonlyargs]
        pos = []
        kw = {}
        for p in params:
            if p in argsd:
                kw[p] = argsd[p]
        extra = set(argsd) - set(params)
        if a.kwarg is not None:
            for k in extra:
                kw[k] = argsd[k]
        elif extra:
            raise Unsupported(f"contract args {sorted(extra)} are not parameters of {entry.qualname}")
        ex.entry_pc = list(st.pc)
        for cut in case.cuts():
            hit = [b for b in node.body if (ast.get_source_segment(src, b) or "").lstrip().startswith(cut.before)]
            if len(hit) != 1:
                raise Unsupported(f"cut point `{cut.before}` matches {len(hit)} top-level statements of {entry.qualname}")
            ex.cuts[id(hit[0])] = cut
        opts = case.options()
        want_self = opts.get("returns_self", False) or opts.get("returns_param", False)
        outs = list(ex.call_function_source(st, fn, pos, kw, node.lineno, defclass=owner, want_self=want_self))
        pend = ex._raises.pop()
        raises = case.raises(argsd)
        n = 0
        for s, v in outs:
            n += 1
            if want_self:
                v = v[1]
            rep.covers.append((f"{ex.owner}#cover:path@{'.'.join(s.sig) or 'entry'}", list(s.pc)))
            for c in F.side:
                s.assume(c)
            if case.has_value():
                goal = struct_eq(v, case.value(argsd))
                ex.oblige(s, goal, "post", "value")
            for label, f in case.ensures(v, argsd):
                if f is True and opts.get("may_raise"):
                    # totality contracts: the outcome of this path was decided by the executor alone (control flow fixed by
                    # the string shape); keep it as an (immediately discharged) obligation so that it is counted
                    f = z3.BoolVal(True)
                ex.oblige(s, f, "post", label)
            for exc, label, cond in raises:
                ex.oblige(s, sym.Not(cond), "noraise", f"{exc.__name__}.{label}")
        for s, e in pend:
            n += 1
            rep.covers.append((f"{ex.owner}#cover:path@{'.'.join(s.sig) or 'entry'}!{e.cls.__name__}", list(s.pc)))
            if any(issubclass(e.cls, exc) for exc in opts.get("may_raise", ())):
                # totality contracts: this exception type is an allowed outcome on any input (recorded, trivially
                # discharged); every other exception type still has to be shown unreachable
                ex.oblige(s, z3.BoolVal(True), "raise", f"{e.cls.__name__}.allowed@L{e.line}")
                continue
            conds = [cond for exc, label, cond in raises if issubclass(e.cls, exc)]
            goal = sym.Or(*conds) if conds else False
            ex.oblige(s, goal, "raise", f"{e.cls.__name__}@L{e.line}")
        rep.paths = n
        if n == 0:
            # every path died inside the executor (contradictory assumptions?): nothing would be checked - never a pass
            raise Unsupported("no path reaches a return or a raise: the case is vacuous")
        rep.obligations = ex.obligations
        rep.dead = ex.dead
    except Unsupported as e:
        rep.error = f"{type(e).__name__}: {e}"
    rep.secs = time.time() - t0
    return rep


def lemma_obligations(name):
    f, props = LEMMAS[name]
    out = []
    for label, hyps, goal in f():
        out.append(Obligation(f"lemma:{name}#{label}", list(hyps), z(goal) if not isinstance(goal, bool) else z3.BoolVal(goal),
                              "lemma", name))
    return out
