"""Assumed contracts on dependencies (CPython datetime / zoneinfo / calendar / math / builtins).

Nothing here is proved: each handler states what the executor assumes a stdlib call returns
(DESIGN.md section 4.2).  Every handler used by a run is listed in that run's evidence under
`assumed_contracts`, and the conformance sweeps (bounded/) compare these statements with the real
objects.  Builtins with fixed arithmetic semantics (abs, divmod, int, round, ...) are encoded exactly.
"""
from __future__ import annotations

import calendar
import contextlib
import datetime as _dt
import enum
import math
import operator
import types
import typing
import zoneinfo
from fractions import Fraction

import z3

from . import spec, sym
from .engine import BoundMethod, Closure, ExcVal, Obj, Unsupported
from .sym import is_sym, z

M = 10 ** 6
D = 86400
DUS = D * M
MAX_TD_DAYS = 999999999


# ----------------------------------------------------------------------------- object builders
def mk_datetime(cls, y, mo, d, h=0, mi=0, s=0, us=0, tzinfo=None, fold=0, **extra):
    return Obj(cls, year=y, month=mo, day=d, hour=h, minute=mi, second=s, microsecond=us, tzinfo=tzinfo, fold=fold, **extra)


def mk_date(cls, y, m, d):
    return Obj(cls, year=y, month=m, day=d)


def mk_time(cls, h, mi, s, us, tzinfo=None, fold=0):
    return Obj(cls, hour=h, minute=mi, second=s, microsecond=us, tzinfo=tzinfo, fold=fold)


def mk_td(cls, us, **extra):
    return Obj(cls, us=us, **extra)


def is_dt(v):
    return isinstance(v, Obj) and issubclass(v.cls, _dt.datetime)


def is_date(v):
    return isinstance(v, Obj) and issubclass(v.cls, _dt.date)


def is_time(v):
    return isinstance(v, Obj) and issubclass(v.cls, _dt.time)


def is_td(v):
    return isinstance(v, Obj) and issubclass(v.cls, _dt.timedelta)


def is_zone(v):
    return isinstance(v, Obj) and issubclass(v.cls, zoneinfo.ZoneInfo)


def is_tzinfo(v):
    return isinstance(v, Obj) and issubclass(v.cls, _dt.tzinfo)


def fresh_datetime(F, cls, hint="dt", tzinfo=None, fold=None):
    """fresh datetime object + its validity assumptions"""
    y, mo, d, h, mi, s, us = (F.int(f"{hint}_{n}") for n in ("y", "mo", "d", "h", "mi", "s", "us"))
    if fold is None:
        fold = F.int(f"{hint}_fold")
    o = mk_datetime(cls, y, mo, d, h, mi, s, us, tzinfo=tzinfo, fold=fold)
    return o, valid_dt(o)


def valid_dt(o):
    return sym.And(spec.valid_date(o.year, o.month, o.day), spec.valid_time(o.hour, o.minute, o.second, o.microsecond),
                   sym.Or(sym.eq(o.fold, 0), sym.eq(o.fold, 1)))


def fresh_date(F, cls, hint="d"):
    y, mo, d = (F.int(f"{hint}_{n}") for n in ("y", "mo", "d"))
    o = mk_date(cls, y, mo, d)
    return o, spec.valid_date(y, mo, d)


def fresh_time(F, cls, hint="t", tzinfo=None):
    h, mi, s, us = (F.int(f"{hint}_{n}") for n in ("h", "mi", "s", "us"))
    o = mk_time(cls, h, mi, s, us, tzinfo=tzinfo, fold=0)
    return o, spec.valid_time(h, mi, s, us)


def fresh_td(F, cls, hint="td"):
    us = F.int(f"{hint}_us")
    return mk_td(cls, us), td_in_range(us)


def td_in_range(us):
    return sym.And(sym.ge(us, -MAX_TD_DAYS * DUS), sym.le(us, MAX_TD_DAYS * DUS + DUS - 1))


def fresh_like(F, v, hint):
    if is_dt(v):
        o, c = fresh_datetime(F, v.cls, hint, tzinfo=v.f.get("tzinfo"))
        F.side.append(c) if hasattr(F, "side") else None
        return o
    if is_date(v):
        o, c = fresh_date(F, v.cls, hint)
        F.side.append(c) if hasattr(F, "side") else None
        return o
    raise Unsupported(f"fresh_like for {v.cls.__name__}")


# ----------------------------------------------------------------------------- zone model (DESIGN 5.1)
def fresh_zone(F, cls, hint="tz", k=1, key=None):
    """piecewise-constant offset model with k isolated transitions: (zone object, assumptions)"""
    T = tuple(F.int(f"{hint}_T{i}") for i in range(k))
    o = tuple(F.int(f"{hint}_o{i}") for i in range(k + 1))
    if key is None:
        key = __import__("pyvc.world", fromlist=["SymName"]).SymName(F.int(f"{hint}_name"), model=(T, o))
    zone = Obj(cls, key=key, T=T, o=o)
    cs = [sym.And(sym.gt(x, -D), sym.lt(x, D)) for x in o]
    # isolation: measured on tzdata by the zone sweep (closest pair 344,400 s; largest change 86,400 s)
    cs += [sym.ge(sym.sub(T[i + 1], T[i]), 2 * DUS + 2 * M) for i in range(k - 1)]
    return zone, sym.And(*cs) if cs else True


def fixed_zone(cls, off, name=None):
    """a pendulum FixedTimezone object (python-level attributes as its __init__ sets them)"""
    return Obj(cls, _offset=off, _name=name, _utcoffset=mk_td(_dt.timedelta, sym.mul(off, M)))


def zone_off_utc(zone, u):
    from . import zones

    return zones.off_utc(zone, u)


def zone_off_wall(zone, w, fold):
    from . import zones

    return zones.off_wall(zone, w, fold)


def zone_fold_of(zone, u):
    from . import zones

    return zones.fold_of(zone, u)


def n_preimages(zone, w):
    from . import zones

    return zones.n_preimages(zone, w)


# ----------------------------------------------------------------------------- utcoffset dispatch
def utcoffset_seconds(ex, st, dt, line):
    """generator (state, seconds | None): dt.utcoffset() in seconds through the tzinfo's own class"""
    tz = dt.f.get("tzinfo")
    if tz is None:
        yield st, None
        return
    m = ex.world.obj_method(ex, tz, "utcoffset", line)
    for s1, td in ex.call_value(st, m, [dt], {}, line):
        if td is None:
            yield s1, None
        else:
            yield s1, td


def instant_of(ex, st, dt, line):
    """generator (state, instant in us | None for naive)"""
    for s1, td in utcoffset_seconds(ex, st, dt, line):
        if td is None:
            yield s1, None
        else:
            yield s1, sym.sub(spec.wall_us(dt), td.us)


def fields_from_wall(F, cls, w, tzinfo, fold, hint="r", extra=None):
    """fresh datetime whose wall clock is w (relational decomposition); returns (obj, assumptions)"""
    o, valid = fresh_datetime(F, cls, hint, tzinfo=tzinfo, fold=fold)
    return o, sym.And(valid, sym.eq(spec.wall_us(o), w))


def in_dt_range(w):
    return sym.And(sym.ge(w, spec.wall_us_f(1, 1, 1, 0, 0, 0, 0)), sym.le(w, spec.wall_us_f(9999, 12, 31, 23, 59, 59, M - 1)))


# ----------------------------------------------------------------------------- helper wrappers
def pure(f):
    def h(ex, st, args, kw, line):
        yield st, f(*args, **kw)

    return h


def raise_if(ex, st, cond, exc, line, tag):
    """fork a raising path when cond may hold; assume not cond afterwards. returns False if st is dead"""
    if cond is False:
        return True
    if cond is True:
        ex.pending_raise(st, ExcVal(exc, line=line))
        return False
    s_r = st.fork(cond, f"L{line}!{tag}")
    if ex.feasible(s_r):
        ex.pending_raise(s_r, ExcVal(exc, line=line))
    st.assume(sym.Not(cond))
    return ex.feasible(st)


def all_int(*vs):
    return all(sym.is_intlike(v) for v in vs)


# ----------------------------------------------------------------------------- installation
def install(w):
    # ---------------- builtins with fixed semantics (encoded exactly)
    def h_abs(ex, st, args, kw, line):
        (x,) = args
        if isinstance(x, Obj):
            m = ex.world.obj_method(ex, x, "__abs__", line)
            if m is None:
                ex.pending_raise(st, ExcVal(TypeError, line=line))
                return
            yield from ex.call_value(st, m, [], {}, line)
            return
        yield st, sym.absv(x)

    w.reg(abs, h_abs, "builtins.abs")

    def h_minmax(pick):
        def h(ex, st, args, kw, line):
            if len(args) == 1:
                args = list(args[0])
            if kw or not args:
                raise Unsupported(f"min/max form at line {line}")
            if any(isinstance(a, (Obj, tuple, list)) for a in args):
                raise Unsupported(f"min/max of objects at line {line}")
            r = args[0]
            for a in args[1:]:
                # Python keeps the first of equal elements
                r = sym.If(sym.lt(a, r), a, r) if pick == "min" else sym.If(sym.gt(a, r), a, r)
            yield st, r

        return h

    w.reg(min, h_minmax("min"), "builtins.min")
    w.reg(max, h_minmax("max"), "builtins.max")

    def h_divmod(ex, st, args, kw, line):
        a, b = args
        if isinstance(a, Obj) or isinstance(b, Obj):
            m = ex.world.obj_method(ex, a, "__divmod__", line) if isinstance(a, Obj) else None
            if m is None:
                ex.pending_raise(st, ExcVal(TypeError, line=line))
                return
            yield from ex.call_value(st, m, [b], {}, line)
            return
        if not raise_if(ex, st, sym.eq(sym.num(b), 0), ZeroDivisionError, line, "zd"):
            return
        yield st, (sym.fdiv(a, b), sym.fmod(a, b))

    w.reg(divmod, h_divmod, "builtins.divmod")

    def h_int(ex, st, args, kw, line):
        if not args:
            yield st, 0
            return
        (x,) = args
        if x is None or isinstance(x, (Obj, tuple, list, dict)):
            ex.pending_raise(st, ExcVal(TypeError, line=line))
            return
        if isinstance(x, str):
            try:
                yield st, int(x)
            except ValueError:
                ex.pending_raise(st, ExcVal(ValueError, line=line))
            return
        if hasattr(x, "_symstr"):
            yield from x.to_int(ex, st, line)
            return
        yield st, sym.trunc(x)

    w.reg(int, h_int, "builtins.int")

    def h_float(ex, st, args, kw, line):
        (x,) = args
        if isinstance(x, str):
            yield st, Fraction(float(x))
            return
        if hasattr(x, "_symstr"):
            yield from x.to_float(ex, st, line)
            return
        yield st, sym.toreal(x)

    w.reg(float, h_float, "builtins.float")

    def h_round(ex, st, args, kw, line):
        if len(args) != 1 or kw:
            raise Unsupported(f"round with ndigits at line {line}")
        yield st, sym.rhe(args[0])

    w.reg(round, h_round, "builtins.round")
    w.reg(bool, lambda ex, st, args, kw, line: iter([(st, ex.truth(args[0]) if args else False)]), "builtins.bool")

    def h_len(ex, st, args, kw, line):
        (x,) = args
        if hasattr(x, "_symstr"):
            yield st, x.length()
            return
        if isinstance(x, (str, tuple, list, dict, set, frozenset)):
            yield st, len(x)
            return
        raise Unsupported(f"len of {type(x).__name__} at line {line}")

    w.reg(len, h_len, "builtins.len")

    def h_any(ex, st, args, kw, line):
        yield st, sym.Or(*[ex.truth(x) for x in args[0]]) if args[0] else False

    def h_all(ex, st, args, kw, line):
        yield st, sym.And(*[ex.truth(x) for x in args[0]]) if args[0] else True

    w.reg(any, h_any, "builtins.any")
    w.reg(all, h_all, "builtins.all")

    def type_test(x, T):
        if isinstance(T, tuple):
            return any(type_test(x, t) for t in T)
        if not isinstance(T, type):
            raise Unsupported(f"isinstance against {T!r}")
        if isinstance(x, Obj):
            return issubclass(x.cls, T)
        if is_sym(x):
            if z3.is_bool(x):
                return issubclass(bool, T)
            if z3.is_int(x):
                return issubclass(int, T)
            if z3.is_real(x):
                return issubclass(float, T)
        if isinstance(x, Fraction):
            return issubclass(float, T)
        if hasattr(x, "_symstr"):
            return issubclass(str, T)
        if isinstance(x, ExcVal):
            return issubclass(x.cls, T)
        return isinstance(x, T)

    w.type_test = type_test
    w.reg(isinstance, lambda ex, st, args, kw, line: iter([(st, type_test(args[0], args[1]))]), "builtins.isinstance")

    def h_hasattr(ex, st, args, kw, line):
        x, name = args
        if isinstance(x, Obj):
            d, owner_ = ex.world.mro_find(x.cls, name)
            yield st, (owner_ is not None or name in x.f)
            return
        if is_sym(x) or isinstance(x, Fraction):
            yield st, hasattr(1 if sym.is_intlike(x) else 1.0, name)
            return
        yield st, hasattr(x, name)

    w.reg(hasattr, h_hasattr, "builtins.hasattr")

    def h_getattr(ex, st, args, kw, line):
        x, name = args[0], args[1]
        if not isinstance(name, str):
            raise Unsupported(f"getattr with symbolic name at line {line}")
        if len(args) == 3:
            ex._raises.append([])
            try:
                res = list(ex.getattr_value(st, x, name, line))
            finally:
                pend = ex._raises.pop()
            for s1, v in res:
                yield s1, v
            for s1, e in pend:
                if issubclass(e.cls, AttributeError):
                    yield s1, args[2]
                else:
                    ex.pending_raise(s1, e)
            return
        yield from ex.getattr_value(st, x, name, line)

    w.reg(getattr, h_getattr, "builtins.getattr")
    w.reg(callable, lambda ex, st, args, kw, line: iter([(st, isinstance(args[0], (types.FunctionType, type, BoundMethod, Closure, types.BuiltinFunctionType)) or callable(args[0]) and not isinstance(args[0], Obj))]), "builtins.callable")

    def h_range(ex, st, args, kw, line):
        from .world import SymRange

        if any(is_sym(a) for a in args):
            if len(args) != 1:
                raise Unsupported(f"symbolic range with start/step at line {line}")
            yield st, SymRange(args[0])
            return
        yield st, range(*args)

    w.reg(range, h_range, "builtins.range")

    def h_str(ex, st, args, kw, line):
        (x,) = args
        if isinstance(x, str):
            yield st, x
            return
        if isinstance(x, (int, bool)) or x is None:
            yield st, str(x)
            return
        if hasattr(x, "_symstr"):
            yield st, x
            return
        yield st, ex.world.sym_format(x, None)

    w.reg(str, h_str, "builtins.str")
    w.reg(list, lambda ex, st, args, kw, line: iter([(st, list(args[0]) if args else [])]), "builtins.list")
    w.reg(tuple, lambda ex, st, args, kw, line: iter([(st, tuple(args[0]) if args else ())]), "builtins.tuple")
    w.reg(dict, lambda ex, st, args, kw, line: iter([(st, dict(*args, **kw))]), "builtins.dict")
    w.reg(typing.cast, lambda ex, st, args, kw, line: iter([(st, args[1])]), "typing.cast")

    def h_copy(ex, st, args, kw, line):
        import copy as _copy

        x = args[0]
        if isinstance(x, dict):
            yield st, dict(x)
        elif isinstance(x, list):
            yield st, list(x)
        elif isinstance(x, (int, str, tuple, frozenset, type(None))) or is_sym(x):
            yield st, x
        else:
            raise Unsupported(f"copy.copy of {type(x).__name__} at line {line}")

    import copy as _copymod

    w.reg(_copymod.copy, h_copy, "copy.copy (dict/list/immutable)")
    w.reg(contextlib.suppress, lambda ex, st, args, kw, line: iter([(st, ("suppress", args))]), "contextlib.suppress")

    # math
    w.reg(math.floor, pure(lambda x: sym.floor(x)), "math.floor")
    w.reg(math.ceil, pure(lambda x: sym.ceil(x)), "math.ceil")
    # copysign(1, x): -0.0 does not exist under A-FLOAT (reals); ints have no negative zero
    w.reg(math.copysign, pure(lambda m_, x: sym.mul(sym.toreal(sym.absv(m_)), sym.If(sym.lt(x, 0), -1, 1))), "math.copysign")
    for name in ("lt", "le", "gt", "ge", "eq", "ne"):
        opnode = {"lt": __import__("ast").Lt, "le": __import__("ast").LtE, "gt": __import__("ast").Gt,
                  "ge": __import__("ast").GtE, "eq": __import__("ast").Eq, "ne": __import__("ast").NotEq}[name]()

        def h_op(ex, st, args, kw, line, opnode=opnode):
            yield from ex.compare1(st, opnode, args[0], args[1], line)

        w.reg(getattr(operator, name), h_op, f"operator.{name}")

    def h_as_integer_ratio(ex, st, args, kw, line):
        (x,) = args
        if sym.is_intlike(x):
            yield st, (x, 1)
            return
        # exact ratio with positive denominator; the same float has the same ratio everywhere
        st.assume(sym.ratio_axioms(x))
        yield st, sym.ratio(x)

    w.reg(float.as_integer_ratio, h_as_integer_ratio, "float.as_integer_ratio")
    w.reg(int.as_integer_ratio, h_as_integer_ratio, "int.as_integer_ratio")

    def h_enum(ex, st, args, kw, line):
        cls, x = args[0], args[1]
        vals = sorted(int(m.value) for m in cls)
        if not is_sym(x):
            if x in vals:
                yield st, int(x)
            else:
                ex.pending_raise(st, ExcVal(ValueError, line=line))
            return
        if vals != list(range(vals[0], vals[-1] + 1)):
            raise Unsupported("non-contiguous enum")
        ok = sym.And(sym.ge(x, vals[0]), sym.le(x, vals[-1]))
        if not raise_if(ex, st, sym.Not(ok), ValueError, line, "enum"):
            return
        yield st, x

    w.reg(enum.Enum, h_enum, "enum.IntEnum.__call__")

    import traceback

    class _Frame:
        name = "<caller>"  # A-STACK: the caller of DateTime.__add__ is not datetime.astimezone

    w.reg(traceback.extract_stack, lambda ex, st, args, kw, line: iter([(st, [_Frame()])]), "traceback.extract_stack (A-STACK: caller is not astimezone)")

    install_datetime(w)
    install_calendar(w)
    install_format_stub(w)
    install_strings(w)


def _kwbind(names, defaults, args, kw, line):
    vals = dict(defaults)
    if len(args) > len(names):
        return None
    for n, v in zip(names, args):
        vals[n] = v
    for k, v in kw.items():
        if k not in names or (k in names[:len(args)]):
            return None
        vals[k] = v
    if any(n not in vals for n in names):
        return None
    return vals


def install_datetime(w):
    DT, DATE, TIME, TD = _dt.datetime, _dt.date, _dt.time, _dt.timedelta

    # ---------------- C-level fields
    for n in ("year", "month", "day"):
        w.c_fields[(DATE, n)] = (lambda o, n=n: o.f[n])
    for n in ("hour", "minute", "second", "microsecond", "tzinfo", "fold"):
        w.c_fields[(DT, n)] = (lambda o, n=n: o.f[n])
        w.c_fields[(TIME, n)] = (lambda o, n=n: o.f[n])
    w.c_fields[(TD, "days")] = lambda o: sym.fdiv(o.us, DUS)
    w.c_fields[(TD, "seconds")] = lambda o: sym.fmod(sym.fdiv(o.us, M), D)
    w.c_fields[(TD, "microseconds")] = lambda o: sym.fmod(o.us, M)
    w.c_fields[(zoneinfo.ZoneInfo, "key")] = lambda o: o.key

    # timedelta truthiness
    w.truth_handlers.append((is_td, lambda o: sym.ne(o.us, 0)))

    # ---------------- constructors
    def new_datetime(ex, st, args, kw, line):
        cls, args = args[0], args[1:]
        names = ["year", "month", "day", "hour", "minute", "second", "microsecond", "tzinfo"]
        fold = kw.pop("fold", 0) if "fold" in kw else 0
        v = _kwbind(names, dict(hour=0, minute=0, second=0, microsecond=0, tzinfo=None), args, kw, line)
        if v is None:
            ex.pending_raise(st, ExcVal(TypeError, line=line))
            return
        nums = [v[n] for n in names[:7]] + [fold]
        if not all(sym.is_intlike(x) for x in nums):
            ex.pending_raise(st, ExcVal(TypeError, line=line))
            return
        if v["tzinfo"] is not None and not is_tzinfo(v["tzinfo"]):
            ex.pending_raise(st, ExcVal(TypeError, line=line))
            return
        o = mk_datetime(cls, *[sym.num(x) for x in nums[:7]], tzinfo=v["tzinfo"], fold=sym.num(fold))
        if not raise_if(ex, st, sym.Not(valid_dt(o)), ValueError, line, "dtnew"):
            return
        yield st, o

    w.new_handlers[DT] = new_datetime

    def new_date(ex, st, args, kw, line):
        cls, args = args[0], args[1:]
        v = _kwbind(["year", "month", "day"], {}, args, kw, line)
        if v is None or not all(sym.is_intlike(x) for x in v.values()):
            ex.pending_raise(st, ExcVal(TypeError, line=line))
            return
        o = mk_date(cls, sym.num(v["year"]), sym.num(v["month"]), sym.num(v["day"]))
        if not raise_if(ex, st, sym.Not(spec.valid_date(o.year, o.month, o.day)), ValueError, line, "dnew"):
            return
        yield st, o

    w.new_handlers[DATE] = new_date

    def new_time(ex, st, args, kw, line):
        cls, args = args[0], args[1:]
        fold = kw.pop("fold", 0) if "fold" in kw else 0
        v = _kwbind(["hour", "minute", "second", "microsecond", "tzinfo"], dict(hour=0, minute=0, second=0, microsecond=0, tzinfo=None), args, kw, line)
        if v is None or not all(sym.is_intlike(v[n]) for n in ("hour", "minute", "second", "microsecond")) or not sym.is_intlike(fold):
            ex.pending_raise(st, ExcVal(TypeError, line=line))
            return
        if v["tzinfo"] is not None and not is_tzinfo(v["tzinfo"]):
            ex.pending_raise(st, ExcVal(TypeError, line=line))
            return
        o = mk_time(cls, sym.num(v["hour"]), sym.num(v["minute"]), sym.num(v["second"]), sym.num(v["microsecond"]), v["tzinfo"], sym.num(fold))
        ok = sym.And(spec.valid_time(o.hour, o.minute, o.second, o.microsecond), sym.Or(sym.eq(o.fold, 0), sym.eq(o.fold, 1)))
        if not raise_if(ex, st, sym.Not(ok), ValueError, line, "tnew"):
            return
        yield st, o

    w.new_handlers[TIME] = new_time

    def td_total_us(v):
        """exact microsecond value (a real when any component is a float) of timedelta arguments"""
        scale = dict(days=DUS, seconds=M, microseconds=1, milliseconds=1000, minutes=60 * M, hours=3600 * M, weeks=7 * DUS)
        tot = 0
        for n, sc in scale.items():
            tot = sym.add(tot, sym.mul(v[n], sc))
        return tot

    w.td_total_us = td_total_us

    def new_timedelta(ex, st, args, kw, line):
        cls, args = args[0], args[1:]
        names = ["days", "seconds", "microseconds", "milliseconds", "minutes", "hours", "weeks"]
        v = _kwbind(names, {n: 0 for n in names}, args, kw, line)
        if v is None or not all(sym.is_num(x) for x in v.values()):
            ex.pending_raise(st, ExcVal(TypeError, line=line))
            return
        tot = td_total_us(v)
        # float components: CPython rounds the accumulated fractional microseconds half-to-even (A-FLOAT)
        us = sym.rhe(tot) if sym.is_reallike(tot) else tot
        if not raise_if(ex, st, sym.Not(td_in_range(us)), OverflowError, line, "tdnew"):
            return
        yield st, mk_td(cls, us)

    w.new_handlers[TD] = new_timedelta

    def new_object(ex, st, args, kw, line):
        yield st, Obj(args[0])

    w.new_handlers[object] = new_object
    w.new_handlers[_dt.tzinfo] = new_object

    # ---------------- timedelta methods
    def meth(cls, name):
        return cls.__dict__[name]

    w.reg(meth(TD, "total_seconds"), pure(lambda self: sym.truediv(self.us, M)), "timedelta.total_seconds")

    def td_result(ex, st, cls, us, line):
        """timedelta arithmetic results: class is the base timedelta for the C implementation"""
        if not raise_if(ex, st, sym.Not(td_in_range(us)), OverflowError, line, "tdov"):
            return
        yield st, mk_td(TD, us)

    def td_add(ex, st, args, kw, line):
        a, b = args
        if not is_td(b):
            yield st, NotImplemented
            return
        yield from td_result(ex, st, TD, sym.add(a.us, b.us), line)

    def td_sub(ex, st, args, kw, line):
        a, b = args
        if not is_td(b):
            yield st, NotImplemented
            return
        yield from td_result(ex, st, TD, sym.sub(a.us, b.us), line)

    def td_rsub(ex, st, args, kw, line):
        a, b = args
        if not is_td(b):
            yield st, NotImplemented
            return
        yield from td_result(ex, st, TD, sym.sub(b.us, a.us), line)

    def td_neg(ex, st, args, kw, line):
        yield from td_result(ex, st, TD, sym.neg(args[0].us), line)

    def td_abs(ex, st, args, kw, line):
        yield from td_result(ex, st, TD, sym.absv(args[0].us), line)

    w.reg(meth(TD, "__add__"), td_add, "timedelta.__add__")
    w.reg(meth(TD, "__radd__"), td_add, "timedelta.__radd__")
    w.reg(meth(TD, "__sub__"), td_sub, "timedelta.__sub__")
    w.reg(meth(TD, "__rsub__"), td_rsub, "timedelta.__rsub__")
    w.reg(meth(TD, "__neg__"), td_neg, "timedelta.__neg__")
    w.reg(meth(TD, "__abs__"), td_abs, "timedelta.__abs__")
    w.reg(meth(TD, "__pos__"), lambda ex, st, args, kw, line: iter([(st, mk_td(TD, args[0].us))]), "timedelta.__pos__")

    def td_cmp(opf, eqlike=None):
        def h(ex, st, args, kw, line):
            a, b = args
            if not is_td(b):
                yield st, NotImplemented
                return
            yield st, opf(a.us, b.us)

        return h

    for name, f in (("__eq__", sym.eq), ("__ne__", sym.ne), ("__lt__", sym.lt), ("__le__", sym.le), ("__gt__", sym.gt), ("__ge__", sym.ge)):
        w.reg(meth(TD, name), td_cmp(f), f"timedelta.{name}")

    # native timedelta * / // % (documented CPython semantics; used as the *spec* side of C10 as well)
    def td_mul_us(us, k):
        if sym.is_intlike(k):
            return sym.mul(us, k)
        return None

    def td_mul(ex, st, args, kw, line):
        a, k = args
        if sym.is_intlike(k):
            yield from td_result(ex, st, TD, sym.mul(a.us, k), line)
        elif sym.is_reallike(k):
            yield from td_result(ex, st, TD, sym.rhe(sym.mul(sym.toreal(a.us), k)), line)
        else:
            yield st, NotImplemented

    w.reg(meth(TD, "__mul__"), td_mul, "timedelta.__mul__")
    w.reg(meth(TD, "__rmul__"), td_mul, "timedelta.__rmul__")

    def td_floordiv(ex, st, args, kw, line):
        a, b = args
        if is_td(b):
            if not raise_if(ex, st, sym.eq(b.us, 0), ZeroDivisionError, line, "zd"):
                return
            yield st, sym.fdiv(a.us, b.us)
        elif sym.is_intlike(b):
            if not raise_if(ex, st, sym.eq(b, 0), ZeroDivisionError, line, "zd"):
                return
            yield from td_result(ex, st, TD, sym.fdiv(a.us, b), line)
        else:
            yield st, NotImplemented

    w.reg(meth(TD, "__floordiv__"), td_floordiv, "timedelta.__floordiv__")

    def td_truediv(ex, st, args, kw, line):
        a, b = args
        if is_td(b):
            if not raise_if(ex, st, sym.eq(b.us, 0), ZeroDivisionError, line, "zd"):
                return
            yield st, sym.truediv(a.us, b.us)
        elif sym.is_num(b):
            if not raise_if(ex, st, sym.eq(sym.num(b), 0), ZeroDivisionError, line, "zd"):
                return
            yield from td_result(ex, st, TD, sym.rhe(sym.truediv(a.us, b)), line)
        else:
            yield st, NotImplemented

    w.reg(meth(TD, "__truediv__"), td_truediv, "timedelta.__truediv__")

    def td_mod(ex, st, args, kw, line):
        a, b = args
        if not is_td(b):
            yield st, NotImplemented
            return
        if not raise_if(ex, st, sym.eq(b.us, 0), ZeroDivisionError, line, "zd"):
            return
        yield from td_result(ex, st, TD, sym.fmod(a.us, b.us), line)

    w.reg(meth(TD, "__mod__"), td_mod, "timedelta.__mod__")

    def td_divmod(ex, st, args, kw, line):
        a, b = args
        if not is_td(b):
            yield st, NotImplemented
            return
        if not raise_if(ex, st, sym.eq(b.us, 0), ZeroDivisionError, line, "zd"):
            return
        yield st, (sym.fdiv(a.us, b.us), mk_td(TD, sym.fmod(a.us, b.us)))

    w.reg(meth(TD, "__divmod__"), td_divmod, "timedelta.__divmod__")

    # ---------------- date methods
    w.reg(meth(DATE, "weekday"), pure(lambda self: spec.weekday0(self.year, self.month, self.day)), "date.weekday")
    w.reg(meth(DATE, "isoweekday"), pure(lambda self: spec.iso_weekday(self.year, self.month, self.day)), "date.isoweekday")
    w.reg(meth(DATE, "toordinal"), pure(lambda self: spec.ordinal(self.year, self.month, self.day)), "date.toordinal")

    def h_isocalendar(ex, st, args, kw, line):
        (self,) = args
        iy, iw, iwd = ex.fresh.int("iso_y"), ex.fresh.int("iso_w"), ex.fresh.int("iso_d")
        o = spec.ordinal(self.year, self.month, self.day)
        st.assume(sym.And(sym.eq(iwd, spec.iso_weekday_ord(o)),
                          sym.Or(sym.eq(iy, sym.sub(self.year, 1)), sym.eq(iy, self.year), sym.eq(iy, sym.add(self.year, 1))),
                          sym.le(spec.iso_week1_monday(iy), o), sym.lt(o, spec.iso_week1_monday(sym.add(iy, 1))),
                          sym.eq(sym.add(spec.iso_week1_monday(iy), sym.add(sym.mul(7, sym.sub(iw, 1)), sym.sub(iwd, 1))), o),
                          sym.ge(iw, 1), sym.le(iw, 53)))
        yield st, (iy, iw, iwd)

    w.reg(meth(DATE, "isocalendar"), h_isocalendar, "date.isocalendar")

    def date_replace(ex, st, args, kw, line):
        self = args[0]
        v = _kwbind(["year", "month", "day"], dict(year=self.year, month=self.month, day=self.day), args[1:], kw, line)
        if v is None:
            ex.pending_raise(st, ExcVal(TypeError, line=line))
            return
        yield from ex.world.instantiate(ex, st, self.cls, [v["year"], v["month"], v["day"]], {}, line)

    w.reg(meth(DATE, "replace"), date_replace, "date.replace")

    def date_add(ex, st, args, kw, line):
        a, b = args
        if not is_td(b):
            yield st, NotImplemented
            return
        o = sym.add(spec.date_ord(a), sym.fdiv(b.us, DUS))
        if not raise_if(ex, st, sym.Not(sym.And(sym.ge(o, 1), sym.le(o, spec.MAXORD))), OverflowError, line, "dov"):
            return
        r, c = fresh_date(ex.fresh, a.cls, "dadd")
        st.assume(sym.And(c, sym.eq(spec.date_ord(r), o)))
        yield st, r

    w.reg(meth(DATE, "__add__"), date_add, "date.__add__")
    w.reg(meth(DATE, "__radd__"), date_add, "date.__radd__")

    def date_sub(ex, st, args, kw, line):
        a, b = args
        if is_td(b):
            o = sym.sub(spec.date_ord(a), sym.fdiv(b.us, DUS))
            # date - timedelta == date + (-timedelta): the day count of the negated delta
            o = sym.add(spec.date_ord(a), sym.fdiv(sym.neg(b.us), DUS))
            if not raise_if(ex, st, sym.Not(sym.And(sym.ge(o, 1), sym.le(o, spec.MAXORD))), OverflowError, line, "dov"):
                return
            r, c = fresh_date(ex.fresh, a.cls, "dsub")
            st.assume(sym.And(c, sym.eq(spec.date_ord(r), o)))
            yield st, r
            return
        if is_date(b) and not is_dt(b):
            yield st, mk_td(TD, sym.mul(sym.sub(spec.date_ord(a), spec.date_ord(b)), DUS))
            return
        yield st, NotImplemented

    w.reg(meth(DATE, "__sub__"), date_sub, "date.__sub__")

    def date_cmp(opf, name):
        def h(ex, st, args, kw, line):
            a, b = args
            if is_date(b) and not is_dt(b) and not is_dt(a):
                yield st, opf(spec.date_ord(a), spec.date_ord(b))
            else:
                yield st, NotImplemented

        return h

    for name, f in (("__eq__", sym.eq), ("__ne__", sym.ne), ("__lt__", sym.lt), ("__le__", sym.le), ("__gt__", sym.gt), ("__ge__", sym.ge)):
        w.reg(meth(DATE, name), date_cmp(f, name), f"date.{name}")

    # ---------------- datetime methods
    def dt_utcoffset(ex, st, args, kw, line):
        (self,) = args
        yield from utcoffset_seconds(ex, st, self, line)

    w.reg(meth(DT, "utcoffset"), dt_utcoffset, "datetime.utcoffset")

    def dt_replace(ex, st, args, kw, line):
        self = args[0]
        names = ["year", "month", "day", "hour", "minute", "second", "microsecond", "tzinfo"]
        cur = {n: self.f[n] for n in names}
        fold = kw.pop("fold", self.fold) if "fold" in kw else self.fold
        v = _kwbind(names, cur, args[1:], kw, line)
        if v is None:
            ex.pending_raise(st, ExcVal(TypeError, line=line))
            return
        # CPython: datetime.replace builds type(self)(...) through the class (subclass __new__ is used)
        yield from ex.world.instantiate(ex, st, self.cls, [v[n] for n in names], {"fold": fold}, line)

    w.reg(meth(DT, "replace"), dt_replace, "datetime.replace")

    def time_replace(ex, st, args, kw, line):
        self = args[0]
        names = ["hour", "minute", "second", "microsecond", "tzinfo"]
        cur = {n: self.f[n] for n in names}
        fold = kw.pop("fold", self.fold) if "fold" in kw else self.fold
        v = _kwbind(names, cur, args[1:], kw, line)
        if v is None:
            ex.pending_raise(st, ExcVal(TypeError, line=line))
            return
        # CPython: time.replace builds type(self)(...) through the class
        yield from ex.world.instantiate(ex, st, self.cls, [v[n] for n in names], {"fold": fold}, line)

    w.reg(meth(TIME, "replace"), time_replace, "time.replace")

    def dt_add(ex, st, args, kw, line):
        a, b = args
        if not is_td(b):
            yield st, NotImplemented
            return
        wv = sym.add(spec.wall_us(a), b.us)
        if not raise_if(ex, st, sym.Not(in_dt_range(wv)), OverflowError, line, "dtov"):
            return
        r, c = fields_from_wall(ex.fresh, a.cls, wv, a.tzinfo, 0, "dtadd")
        st.assume(c)
        yield st, r

    w.reg(meth(DT, "__add__"), dt_add, "datetime.__add__")
    w.reg(meth(DT, "__radd__"), dt_add, "datetime.__radd__")

    def dt_sub(ex, st, args, kw, line):
        a, b = args
        if is_td(b):
            wv = sym.sub(spec.wall_us(a), b.us)
            if not raise_if(ex, st, sym.Not(in_dt_range(wv)), OverflowError, line, "dtov"):
                return
            r, c = fields_from_wall(ex.fresh, a.cls, wv, a.tzinfo, 0, "dtsub")
            st.assume(c)
            yield st, r
            return
        if is_dt(b):
            ta, tb = a.tzinfo, b.tzinfo
            if (ta is None) != (tb is None):
                ex.pending_raise(st, ExcVal(TypeError, line=line))
                return
            if ta is None or ex.world.identical(ta, tb) is True:
                yield st, mk_td(TD, sym.sub(spec.wall_us(a), spec.wall_us(b)))
                return
            for s1, ia in instant_of(ex, st, a, line):
                for s2, ib in instant_of(ex, s1, b, line):
                    if ia is None or ib is None:
                        ex.pending_raise(s2, ExcVal(TypeError, line=line))
                        continue
                    yield s2, mk_td(TD, sym.sub(ia, ib))
            return
        yield st, NotImplemented

    w.reg(meth(DT, "__sub__"), dt_sub, "datetime.__sub__")

    def dt_cmp(opf, name):
        def h(ex, st, args, kw, line):
            a, b = args
            if not is_dt(b):
                yield st, NotImplemented
                return
            ta, tb = a.tzinfo, b.tzinfo
            if ta is None and tb is None or (ta is not None and tb is not None and ex.world.identical(ta, tb) is True):
                yield st, opf(spec.wall_us(a), spec.wall_us(b))
                return
            if (ta is None) != (tb is None):
                if name == "__eq__":
                    yield st, False
                elif name == "__ne__":
                    yield st, True
                else:
                    ex.pending_raise(st, ExcVal(TypeError, line=line))
                return
            for s1, ia in instant_of(ex, st, a, line):
                for s2, ib in instant_of(ex, s1, b, line):
                    # (PEP 495 inter-zone == special case for problematic times is not modelled here)
                    yield s2, opf(ia, ib)

        return h

    for name, f in (("__eq__", sym.eq), ("__ne__", sym.ne), ("__lt__", sym.lt), ("__le__", sym.le), ("__gt__", sym.gt), ("__ge__", sym.ge)):
        w.reg(meth(DT, name), dt_cmp(f, name), f"datetime.{name}")

    def dt_astimezone(ex, st, args, kw, line):
        self = args[0]
        tz = args[1] if len(args) > 1 else kw.get("tz")
        if tz is None or self.tzinfo is None:
            raise Unsupported(f"astimezone() from/to the system local zone at line {line}")
        if ex.world.identical(self.tzinfo, tz) is True:
            yield st, self
            return
        for s1, inst in instant_of(ex, st, self, line):
            if inst is None:
                raise Unsupported("astimezone with utcoffset None")
            # utc = (self - offset).replace(tzinfo=tz); return tz.fromutc(utc)
            if not raise_if(ex, s1, sym.Not(in_dt_range(inst)), OverflowError, line, "astz"):
                continue
            utc, c = fields_from_wall(ex.fresh, DT if not issubclass(self.cls, DT) else self.cls, inst, tz, 0, "utc")
            s1.assume(c)
            m = ex.world.obj_method(ex, tz, "fromutc", line)
            yield from ex.call_value(s1, m, [utc], {}, line)

    w.reg(meth(DT, "astimezone"), dt_astimezone, "datetime.astimezone")

    # ---------------- datetime.timezone (fixed offset of the standard library)
    TZC = _dt.timezone

    def tzc_utcoffset(ex, st, args, kw, line):
        yield st, mk_td(TD, sym.mul(args[0].off, M))

    def tzc_tzname(ex, st, args, kw, line):
        off = args[0].off
        if not is_sym(off):
            yield st, "UTC" if off == 0 else ex.world.sym_concat(["UTC", ex.world.sym_format(off, None)])
            return
        s0 = st.fork(sym.eq(off, 0), f"L{line}utc")
        if ex.feasible(s0):
            yield s0, "UTC"
        st.assume(sym.ne(off, 0))
        if ex.feasible(st):
            # 'UTC+hh:mm': the literal prefix followed by a non-empty rendering of the offset
            yield st, ex.world.sym_concat(["UTC", ex.world.sym_format(off, None)])

    def obj_eq(ex, st, args, kw, line):
        a, b = args
        yield st, (True if ex.world.identical(a, b) is True else NotImplemented)

    def obj_ne(ex, st, args, kw, line):
        a, b = args
        yield st, (False if ex.world.identical(a, b) is True else NotImplemented)

    w.reg(object.__dict__["__init__"], lambda ex, st, args, kw, line: iter([(st, None)]), "object.__init__")
    w.reg(object.__dict__["__eq__"], obj_eq, "object.__eq__")
    w.reg(object.__dict__["__ne__"], obj_ne, "object.__ne__")

    def tzc_eq(ex, st, args, kw, line):
        a, b = args
        if isinstance(b, Obj) and b.cls is TZC:
            yield st, sym.eq(a.off, b.off)
        else:
            yield st, NotImplemented

    w.reg(TZC.__dict__["__eq__"], tzc_eq, "datetime.timezone.__eq__")
    w.reg(TZC.__dict__["utcoffset"], tzc_utcoffset, "datetime.timezone.utcoffset")
    w.reg(TZC.__dict__["tzname"], tzc_tzname, "datetime.timezone.tzname")

    def dt_utcfromtimestamp(ex, st, args, kw, line):
        cls, ts = args[0], args[1]
        if not sym.is_intlike(ts):
            raise Unsupported(f"utcfromtimestamp of a float at line {line}")
        wv = sym.add(spec.wall_us_f(1970, 1, 1, 0, 0, 0, 0), sym.mul(ts, M))
        if not raise_if(ex, st, sym.Not(in_dt_range(wv)), ValueError, line, "utcfromts"):
            return
        r, c = fields_from_wall(ex.fresh, cls, wv, None, 0, "utcfromts")
        st.assume(c)
        yield st, r

    w.reg(DT.__dict__["utcfromtimestamp"], dt_utcfromtimestamp, "datetime.utcfromtimestamp")

    def dt_now(ex, st, args, kw, line):
        """datetime.now() without a tz: some valid naive datetime (the clock is not modelled)"""
        if len(args) > 1 or kw:
            raise Unsupported(f"datetime.now(tz) at line {line}")
        r, c = fresh_datetime(ex.fresh, args[0], "now", tzinfo=None, fold=0)
        st.assume(c)
        yield st, r

    w.reg(DT.__dict__["now"], dt_now, "datetime.now() (any valid naive datetime)")

    def dt_strptime(ex, st, args, kw, line):
        """only strptime(f"{year}-{ordinal}", "%Y-%j") with unpadded decimal ints.  CPython's _strptime: %Y is exactly
        four digits (so 1000 <= year <= 9999, anything else fails to match), %j is 1..366 without padding, and the
        result is date(year, 1, 1) + (j - 1) days (j = 366 of a common year rolls into the next year; past 9999 it is
        a ValueError from fromordinal)"""
        from .world import SymStr

        cls, text, fmt = args
        if fmt != "%Y-%j" or not isinstance(text, SymStr) or len(text.parts) != 3 or text.parts[1] != "-":
            raise Unsupported(f"strptime form at line {line}")
        if any(p[0] != "fmt" or p[2] != "" for p in (text.parts[0], text.parts[2])):
            raise Unsupported(f"strptime of a padded field at line {line}")
        y, doy = text.parts[0][1], text.parts[2][1]
        o = sym.add(spec.dby(y), doy)
        ok = sym.And(sym.between(1000, y, 9999), sym.between(1, doy, 366), sym.le(o, spec.MAXORD))
        if not raise_if(ex, st, sym.Not(ok), ValueError, line, "strptime"):
            return
        r, c = fresh_datetime(ex.fresh, cls, "strp", tzinfo=None, fold=0)
        st.assume(sym.And(c, sym.eq(spec.date_ord(r), o), sym.eq(spec.tod_us(r.hour, r.minute, r.second, r.microsecond), 0)))
        yield st, r

    w.reg(DT.__dict__["strptime"], dt_strptime, "datetime.strptime('%Y-%j')")

    # ---------------- zoneinfo (the (T, o) model)
    ZI = zoneinfo.ZoneInfo

    def zi_utcoffset(ex, st, args, kw, line):
        zone, dt = args
        if dt is None:
            if len(zone.T) == 0:
                yield st, mk_td(TD, sym.mul(zone.o[0], M))
            else:
                yield st, None
            return
        off = zone_off_wall(zone, spec.wall_us(dt), dt.fold)
        yield st, mk_td(TD, sym.mul(off, M))

    w.reg(meth(ZI, "utcoffset"), zi_utcoffset, "ZoneInfo.utcoffset")

    def zi_fromutc(ex, st, args, kw, line):
        zone, dt = args
        u = spec.wall_us(dt)
        wv = sym.add(u, sym.mul(zone_off_utc(zone, u), M))
        if not raise_if(ex, st, sym.Not(in_dt_range(wv)), OverflowError, line, "fromutc"):
            return
        r, c = fields_from_wall(ex.fresh, dt.cls, wv, zone, zone_fold_of(zone, u), "fromutc")
        st.assume(c)
        yield st, r

    w.reg(meth(ZI, "fromutc"), zi_fromutc, "ZoneInfo.fromutc")


class SymRow:
    """one week row of calendar.monthcalendar: entry c (Monday = 0) is the day number or 0 outside the month"""

    _symseq = True

    def __init__(self, r, wd0, dim):
        self.r, self.wd0, self.dim = r, wd0, dim

    def getitem(self, ex, st, idx, line):
        idx = sym.num(idx)
        ok = sym.And(sym.ge(idx, -7), sym.lt(idx, 7))
        if ok is not True:
            if not raise_if(ex, st, sym.Not(ok), IndexError, line, "row"):
                return
        c = sym.If(sym.lt(idx, 0), sym.add(idx, 7), idx)
        v = sym.add(sym.sub(sym.add(sym.mul(7, self.r), c), self.wd0), 1)
        yield st, sym.If(sym.And(sym.ge(v, 1), sym.le(v, self.dim)), v, 0)


class SymMonthMatrix:
    """calendar.monthcalendar(y, m): ceil((dim + weekday(1st)) / 7) week rows, Monday first"""

    _symseq = True

    def __init__(self, y, m):
        self.wd0 = spec.weekday0(y, m, 1)
        self.dim = spec.dim(y, m)
        self.rows = sym.fdiv(sym.add(sym.add(self.dim, self.wd0), 6), 7)

    def getitem(self, ex, st, idx, line):
        if is_sym(idx) or not isinstance(idx, int):
            raise Unsupported(f"symbolic week index into monthcalendar at line {line}")
        # a month spans 4..6 rows: indices -4..3 always exist
        if not -4 <= idx <= 3:
            raise Unsupported(f"week index {idx} into monthcalendar at line {line}")
        r = idx if idx >= 0 else sym.add(self.rows, idx)
        yield st, SymRow(r, self.wd0, self.dim)


def install_calendar(w):
    def h_monthcalendar(ex, st, args, kw, line):
        y, m = args
        ok = sym.And(sym.ge(m, 1), sym.le(m, 12), spec.valid_year(y))
        if not raise_if(ex, st, sym.Not(ok), ValueError, line, "mc"):
            return
        yield st, SymMonthMatrix(y, m)

    w.reg(calendar.monthcalendar, h_monthcalendar, "calendar.monthcalendar")

    w.reg(calendar.isleap, pure(lambda y: spec.leap(y)), "calendar.isleap")

    def h_monthrange(ex, st, args, kw, line):
        y, m = args
        ok = sym.And(sym.ge(m, 1), sym.le(m, 12))
        if not raise_if(ex, st, sym.Not(ok), calendar.IllegalMonthError, line, "mr"):
            return
        yield st, (spec.weekday0(y, m, 1), spec.dim(y, m))

    w.reg(calendar.monthrange, h_monthrange, "calendar.monthrange")


class YearMonthStr:
    """abstract result of .format("YYYY-MM") / .format("%Y-%M"): a string that determines (year, month) and is
    determined by them (assumed here; the formatter itself is verified under C08)"""

    _symstr = True

    def __init__(self, year, month):
        self.year, self.month = year, month


def install_format_stub(w):
    from pendulum.mixins.default import FormattableMixin

    def h_format(ex, st, args, kw, line):
        self, fmt = args[0], args[1]
        if fmt not in ("YYYY-MM", "%Y-%M"):
            raise Unsupported(f"format({fmt!r}) inside verified code at line {line}")
        yield st, YearMonthStr(self.year, self.month)

    w.reg(FormattableMixin.__dict__["format"], h_format, "FormattableMixin.format('YYYY-MM') (assumed injective in year, month; see C08)")


class KeyedStr(str):
    """a translation string that remembers the locale key it was looked up under"""

    key = None


class Formatted:
    """abstract result of template.format(*args) with symbolic arguments"""

    _symstr = True

    def __init__(self, template, args):
        self.template, self.args = template, tuple(args)

    def length(self):
        raise Unsupported("length of a formatted string")


def install_strings(w):
    import string

    def h_format(ex, st, args, kw, line):
        tmpl, fargs = args[0], args[1:]
        auto = 0
        for lit, field, spec_, conv in string.Formatter().parse(tmpl):
            if field is None:
                continue
            name = field.split(".")[0].split("[")[0]
            if name == "":
                idx = auto
                auto += 1
            elif name.isdigit():
                idx = int(name)
            else:
                if name not in kw:
                    ex.pending_raise(st, ExcVal(KeyError, line=line))
                    return
                continue
            if idx >= len(fargs):
                ex.pending_raise(st, ExcVal(IndexError, line=line))
                return
        yield st, Formatted(tmpl, fargs)

    w.reg(str.__dict__["format"], h_format, "str.format (placeholder structure checked; the text itself is abstract)")
