"""Symbolic strings for the regex-driven code (DESIGN.md 5.3): a string of known *shape* whose digit
characters are symbolic.

A CharStr is a tuple of characters; each one is a literal 1-character str or a z3 Int constrained to 0..9.
Because the shape is concrete, every structural operation (len, slicing, concatenation, `in`, split,
startswith, replace of literals, padding) is computed exactly, and int(s) is a linear term in the digits.

A-RE (assumed): for the patterns used here (digits are only ever tested with \\d - checked mechanically on the
parsed pattern) the match structure depends only on the shape, so the real `re` engine is run once on a
representative of the shape and the group spans are applied to the symbolic characters.
"""
from __future__ import annotations

import re

import z3

from . import sym
from .engine import ExcVal, Unsupported
from .sym import is_sym


class CharStr:
    _symstr = True
    _symseq = True

    def __init__(self, chars):
        self.chars = tuple(chars)

    def __repr__(self):
        return "CharStr(" + "".join(c if isinstance(c, str) else "#" for c in self.chars) + ")"

    def length(self):
        return len(self.chars)

    def shape(self, digit="7"):
        return "".join(c if isinstance(c, str) else digit for c in self.chars)

    # ---- executor protocol
    def getitem(self, ex, st, idx, line):
        if isinstance(idx, slice):
            yield st, CharStr(self.chars[idx])
            return
        if is_sym(idx):
            raise Unsupported(f"symbolic index into a string at line {line}")
        if not -len(self.chars) <= idx < len(self.chars):
            ex.pending_raise(st, ExcVal(IndexError, line=line))
            return
        yield st, CharStr(self.chars[idx:idx + 1] if idx != -1 else self.chars[-1:])

    def to_int(self, ex, st, line):
        if not self.chars or any(isinstance(c, str) and not c.isdigit() for c in self.chars):
            # int() of an empty string, or of one with a non-digit character (signs/spaces do not occur here)
            ex.pending_raise(st, ExcVal(ValueError, line=line))
            return
        yield st, self.int_value()

    def int_value(self):
        v = 0
        for c in self.chars:
            d = int(c) if isinstance(c, str) else c
            v = sym.add(sym.mul(v, 10), d)
        return v

    def to_float(self, ex, st, line):
        raise Unsupported(f"float() of a symbolic string at line {line}")


def lit(s):
    return CharStr(tuple(s))


def as_charstr(x):
    if isinstance(x, CharStr):
        return x
    if isinstance(x, str):
        return lit(x)
    return None


def concat(parts):
    out = []
    for p in parts:
        c = as_charstr(p)
        if c is None:
            return None
        out.extend(c.chars)
    return CharStr(out)


def char_eq(a, b):
    """equality of two characters (literal or digit variable) as a formula"""
    if isinstance(a, str) and isinstance(b, str):
        return a == b
    if isinstance(a, str):
        a, b = b, a
    if isinstance(b, str):
        return sym.eq(a, int(b)) if b.isdigit() else False
    return sym.eq(a, b)


def equal(a, b):
    a, b = as_charstr(a), as_charstr(b)
    if a is None or b is None:
        return False
    if len(a.chars) != len(b.chars):
        return False
    return sym.And(*[char_eq(x, y) for x, y in zip(a.chars, b.chars)]) if a.chars else True


def contains(needle, hay, line):
    """`needle in hay` for a literal needle made of non-digit characters"""
    if not isinstance(needle, str):
        raise Unsupported(f"symbolic needle for `in` at line {line}")
    if any(ch.isdigit() for ch in needle):
        raise Unsupported(f"`in` with a digit needle on a symbolic string at line {line}")
    return needle in hay.shape(digit="\x00")


def fresh_digits(F, n, hint):
    ds = [F.int(f"{hint}{i}") for i in range(n)]
    return ds, [sym.And(d >= 0, d <= 9) for d in ds]


class Method:
    """bound str method on a CharStr"""

    def __init__(self, recv, name):
        self.recv, self.name = recv, name


def call_method(ex, st, m, args, kw, line):
    s, name = m.recv, m.name
    if kw:
        raise Unsupported(f"str.{name} with keywords at line {line}")
    if name == "replace":
        old, new = args[0], args[1]
        if not (isinstance(old, str) and isinstance(new, str)) or any(c.isdigit() for c in old):
            raise Unsupported(f"str.replace({old!r}, ...) on a symbolic string at line {line}")
        if len(old) != 1:
            raise Unsupported(f"str.replace of a multi-character literal at line {line}")
        out = []
        for c in s.chars:
            if isinstance(c, str) and c == old:
                out.extend(new)
            else:
                out.append(c)
        yield st, CharStr(out)
    elif name == "split":
        sep = args[0] if args else None
        if not isinstance(sep, str) or len(sep) != 1 or sep.isdigit():
            raise Unsupported(f"str.split({sep!r}) on a symbolic string at line {line}")
        parts, cur = [], []
        for c in s.chars:
            if isinstance(c, str) and c == sep:
                parts.append(CharStr(cur))
                cur = []
            else:
                cur.append(c)
        parts.append(CharStr(cur))
        yield st, parts
    elif name == "startswith":
        p = args[0]
        if not isinstance(p, str) or any(c.isdigit() for c in p):
            raise Unsupported(f"str.startswith({p!r}) on a symbolic string at line {line}")
        yield st, s.shape(digit="\x00").startswith(p)
    elif name == "endswith":
        p = args[0]
        if not isinstance(p, str) or any(c.isdigit() for c in p):
            raise Unsupported(f"str.endswith({p!r}) on a symbolic string at line {line}")
        yield st, s.shape(digit="\x00").endswith(p)
    elif name in ("upper", "lower", "strip"):
        if name == "strip":
            sh = s.shape(digit="\x00")
            a, b = len(sh) - len(sh.lstrip()), len(sh.rstrip())
            yield st, CharStr(s.chars[a:b])
        else:
            yield st, CharStr([getattr(c, name)() if isinstance(c, str) else c for c in s.chars])
    elif name == "isdigit":
        yield st, bool(s.chars) and all(not isinstance(c, str) or c.isdigit() for c in s.chars)
    else:
        raise Unsupported(f"str.{name} on a symbolic string at line {line}")


def format_spec(x, spec_, line=None):
    """format(x, spec) for a CharStr with a fill/align/width spec such as '0<6' or '0>2'"""
    m = re.fullmatch(r"(?:(.)?([<>]))?(\d+)?", spec_ or "")
    if m is None:
        raise Unsupported(f"format spec {spec_!r} on a symbolic string at line {line}")
    fill, align, width = m.group(1) or " ", m.group(2) or "<", int(m.group(3) or 0)
    pad = max(0, width - len(x.chars))
    padding = tuple(fill * pad)
    return CharStr(x.chars + padding if align == "<" else padding + x.chars)


# ---------------------------------------------------------------------------------------------- regex
def digit_invariant(pattern):
    """side condition of A-RE: every literal and every character class of the pattern contains all ten digits or
    none, and there is no back-reference"""
    import re._parser as sp

    def walk(items):
        for op, av in items:
            name = str(op)
            if name == "LITERAL" or name == "NOT_LITERAL":
                if chr(av).isdigit():
                    return False
            elif name == "IN":
                digs = set()
                neg = False
                for o2, a2 in av:
                    n2 = str(o2)
                    if n2 == "NEGATE":
                        neg = True
                    elif n2 == "LITERAL":
                        if chr(a2).isdigit():
                            digs.add(chr(a2))
                    elif n2 == "RANGE":
                        for ch in range(a2[0], a2[1] + 1):
                            if chr(ch).isdigit():
                                digs.add(chr(ch))
                    elif n2 == "CATEGORY":
                        if "DIGIT" in str(a2) and "NOT" not in str(a2):
                            digs.update("0123456789")
                        elif "WORD" in str(a2) and "NOT" not in str(a2):
                            digs.update("0123456789")
                        elif "NOT_SPACE" in str(a2):
                            digs.update("0123456789")
                        elif "NOT_DIGIT" in str(a2) or "NOT_WORD" in str(a2) or ("SPACE" in str(a2)):
                            pass
                if 0 < len(digs) < 10:
                    return False
            elif name in ("GROUPREF", "GROUPREF_EXISTS"):
                return False
            elif name == "SUBPATTERN":
                if not walk(av[3]):
                    return False
            elif name in ("MAX_REPEAT", "MIN_REPEAT", "POSSESSIVE_REPEAT"):
                if not walk(av[2]):
                    return False
            elif name == "BRANCH":
                for br in av[1]:
                    if not walk(br):
                        return False
            elif name in ("ASSERT", "ASSERT_NOT", "ATOMIC_GROUP"):
                if not walk(av[1] if name != "ATOMIC_GROUP" else av):
                    return False
        return True

    return walk(sp.parse(pattern.pattern, pattern.flags))


_inv_cache = {}


class SymMatch:
    """result of pattern.match(CharStr): the real match object of a representative + the symbolic characters"""

    _symmatch = True

    def __init__(self, text, mo):
        self.text, self.mo = text, mo

    def group(self, name):
        a, b = self.mo.span(name)
        if a < 0:
            return None
        return CharStr(self.text.chars[a:b])

    def start(self, name):
        return self.mo.start(name)


def do_match(ex, st, pattern, text, line, kind="match"):
    if pattern not in _inv_cache:
        _inv_cache[pattern] = digit_invariant(pattern)
    if not _inv_cache[pattern]:
        raise Unsupported(f"pattern at line {line} tests specific digits: shape abstraction (A-RE) does not apply")
    rep = text.shape()
    mo = getattr(pattern, kind)(rep)
    # A-RE sanity: a second representative must give the same spans
    mo2 = getattr(pattern, kind)(text.shape(digit="0"))
    if (mo is None) != (mo2 is None) or (mo is not None and [mo.span(i) for i in range(pattern.groups + 1)] != [mo2.span(i) for i in range(pattern.groups + 1)]):
        raise Unsupported(f"match structure depends on digit values at line {line}")
    yield st, (SymMatch(text, mo) if mo is not None else None)
