"""Specification library (trusted, dual native/SMT).  Textbook proleptic-Gregorian definitions;
*not* pendulum's formulas.  Every function works on native ints and on z3 terms; each run
cross-checks the native evaluation against the standard library (spec sweep, see check).
"""
from __future__ import annotations

from .sym import (And, If, Implies, Not, Or, absv, add, b2i, between, eq, fdiv, fmod, ge, gt, le,
                  lt, mul, ne, sel, sub, is_sym)

D = 86400
M = 10 ** 6
DUS = D * M
E0 = 719163  # ordinal(1970, 1, 1)
MAXORD = 3652059  # ordinal(9999, 12, 31)

_DIM = (31, 28, 31, 30, 31, 30, 31, 31, 30, 31, 30, 31)
_DBM = (0, 31, 59, 90, 120, 151, 181, 212, 243, 273, 304, 334)


def leap(y):
    return And(eq(fmod(y, 4), 0), Or(ne(fmod(y, 100), 0), eq(fmod(y, 400), 0)))


def dby(y):
    """days before 1 January of year y (ordinal of Dec 31 of y-1)"""
    y1 = sub(y, 1)
    return add(sub(add(mul(365, y1), fdiv(y1, 4)), fdiv(y1, 100)), fdiv(y1, 400))


def dim(y, m):
    return add(sel(_DIM, sub(m, 1)), b2i(And(eq(m, 2), leap(y))))


def dbm(y, m):
    return add(sel(_DBM, sub(m, 1)), b2i(And(gt(m, 2), leap(y))))


def diy(y):
    return add(365, b2i(leap(y)))


def ordinal(y, m, d):
    return add(add(dby(y), dbm(y, m)), d)


def valid_year(y):
    return between(1, y, 9999)


def valid_date(y, m, d):
    return And(valid_year(y), between(1, m, 12), le(1, d), le(d, dim(y, m)))


def valid_time(h, mi, s, us):
    return And(between(0, h, 23), between(0, mi, 59), between(0, s, 59), between(0, us, M - 1))


def iso_weekday(y, m, d):
    """Monday = 1 .. Sunday = 7"""
    return add(fmod(add(ordinal(y, m, d), 6), 7), 1)


def weekday0(y, m, d):
    """date.weekday(): Monday = 0"""
    return fmod(add(ordinal(y, m, d), 6), 7)


def iso_weekday_ord(o):
    return add(fmod(add(o, 6), 7), 1)


def doy(y, m, d):
    return add(dbm(y, m), d)


def quarter(m):
    return add(fdiv(sub(m, 1), 3), 1)


def iso_long_year(y):
    """ISO 8601: a year has 53 weeks iff 1 Jan or 31 Dec is a Thursday"""
    return Or(eq(iso_weekday(y, 1, 1), 4), eq(iso_weekday(y, 12, 31), 4))


def iso_week1_monday(y):
    """ordinal of the Monday of ISO week 1 of ISO year y: the week containing 4 January"""
    jan4 = ordinal(y, 1, 4)
    return sub(jan4, sub(iso_weekday_ord(jan4), 1))


def tod_s(h, mi, s):
    return add(add(mul(h, 3600), mul(mi, 60)), s)


def tod_us(h, mi, s, us):
    return add(mul(tod_s(h, mi, s), M), us)


def wall_us_f(y, m, d, h, mi, s, us):
    return add(mul(ordinal(y, m, d), DUS), tod_us(h, mi, s, us))


def wall_us(dt):
    """microseconds on the object's own wall clock since ordinal 0"""
    return wall_us_f(dt.year, dt.month, dt.day, dt.hour, dt.minute, dt.second, dt.microsecond)


def date_ord(dt):
    return ordinal(dt.year, dt.month, dt.day)


# ---- Gregorian decomposition lemma (hint generator), proved as its own obligation every run.
def greg_hint(t, tag):
    """facts about t//4, t//100, t//400, (t-1)//4 ... for an integer term t (a z3 Int).
    Fresh a,b,c,e with t-1 = 400a+100b+4c+e; the consequences are proved in lemma_gregorian()."""
    import z3

    a, b, c, e = z3.Ints(f"gh_a_{tag} gh_b_{tag} gh_c_{tag} gh_e_{tag}")
    t1 = t - 1
    return [
        t1 == 400 * a + 100 * b + 4 * c + e,
        b >= 0, b <= 3, c >= 0, c <= 24, e >= 0, e <= 3,
        t1 / 4 == 100 * a + 25 * b + c,
        t1 / 100 == 4 * a + b,
        t1 / 400 == a,
        t / 4 == t1 / 4 + z3.If(e == 3, 1, 0),
        t / 100 == t1 / 100 + z3.If(z3.And(e == 3, c == 24), 1, 0),
        t / 400 == t1 / 400 + z3.If(z3.And(e == 3, c == 24, b == 3), 1, 0),
        t1 % 4 == e,
        t % 4 == z3.If(e == 3, 0, e + 1),
        t % 100 == z3.If(z3.And(e == 3, c == 24), 0, 4 * c + e + 1),
        t % 400 == z3.If(z3.And(e == 3, c == 24, b == 3), 0, 100 * b + 4 * c + e + 1),
    ]


def lemma_gregorian():
    """(hyps, goal): the decomposition exists for every t and implies all hint facts."""
    import z3

    t = z3.Int("t")
    a, b, c, e = z3.Ints("a b c e")
    t1 = t - 1
    hyp = [t1 == 400 * a + 100 * b + 4 * c + e, b >= 0, b <= 3, c >= 0, c <= 24, e >= 0, e <= 3]
    facts = greg_hint(t, "L")
    # rename: use the same a,b,c,e
    subst = [(z3.Int(f"gh_{n}_L"), v) for n, v in zip("abce", (a, b, c, e))]
    goal = z3.And(*[z3.substitute(f, *subst) for f in facts[7:]])
    # existence: a = (t-1) div 400 etc. always satisfies the bounds
    r = t1 % 400
    ex = z3.And(r / 100 >= 0, r / 100 <= 3, (r % 100) / 4 >= 0, (r % 100) / 4 <= 24, r % 4 >= 0, r % 4 <= 3,
                t1 == 400 * (t1 / 400) + 100 * (r / 100) + 4 * ((r % 100) / 4) + r % 4)
    return [("gregorian.consequences", hyp, goal), ("gregorian.existence", [], ex)]
