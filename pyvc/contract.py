"""Contract registry.  A contract is a plain class (used as a namespace) registered under the
qualified name of the real function it specifies:

    @contract("pendulum._helpers.week_day", props=["C15"])
    class week_day:
        def args(F): ...                      # symbolic inputs for verifying the function itself
        def requires(**a): [(label, formula)] # obligations at call sites, hypotheses when verifying
        raises = [(Exc, label, cond(**a))]    # raised exactly when (checked both ways)
        def value(**a): term                  # functional postcondition: result == value(args)   OR
        def result(F, **a) / ensures(result, **a): [(label, formula)]
        loops = {ordinal: Loop(...)}          # loop invariants keyed by source-order ordinal
        cases = {"name": CaseClass, ...}      # optional: several type configurations

Every clause is ordinary Python over the polymorphic operators of pyvc.sym / pyvc.spec, so the same
clause is evaluated on z3 terms (proof) and on native values (replay, bounded stand-ins).
"""
from __future__ import annotations

_MISSING = object()
REGISTRY = {}
TRANSPARENT = {}
LEMMAS = {}
NATIVE = {}


class Loop:
    def __init__(self, inv, variant=None, ghost=None):
        self.inv, self.variant, self.ghost = inv, variant, ghost


class Cut:
    """an intermediate assertion (cut point) placed before the first top-level statement of the function whose
    source text starts with `before`: every path reaching it must establish `inv`; execution then continues on a
    single path that knows only the function's entry assumptions and `inv` (variables assigned so far are havocked)"""

    def __init__(self, before, inv, name=None, havoc_real=()):
        self.before, self.inv, self.name, self.havoc_real = before, inv, name or before, tuple(havoc_real)


class Case:
    """normalised view of one contract case"""

    def __init__(self, qualname, name, ns, parent):
        self.qualname, self.name, self.ns, self.parent = qualname, name, ns, parent

    def _get(self, k, default=None):
        v = _MISSING
        for c in self.ns.__mro__:
            if c is object:
                continue
            if k in c.__dict__:
                v = c.__dict__[k]
                break
        if v is _MISSING and self.parent is not None:
            for c in self.parent.__mro__:
                if c is not object and k in c.__dict__:
                    v = c.__dict__[k]
                    break
        if v is _MISSING:
            return default
        if isinstance(v, staticmethod):
            v = v.__func__
        return v

    def applies(this, a):
        f = this._get("applies")
        return True if f is None else f(**a)

    def args(self, F):
        f = self._get("args")
        if f is None:
            raise KeyError(f"contract {self.qualname}[{self.name}] has no args(); it can only be assumed, not verified")
        r = f(F)
        if isinstance(r, tuple):
            return r
        return r, []

    def has_args(self):
        return self._get("args") is not None

    def requires(this, a):
        f = this._get("requires")
        return list(f(**a)) if f else []

    def raises(this, a):
        out = []
        for exc, label, cond in this._get("raises", []) or []:
            out.append((exc, label, cond(**a)))
        return out

    def has_value(self):
        return self._get("value") is not None

    def value(this, a):
        return this._get("value")(**a)

    def result(this, F, a):
        f = this._get("result")
        if f is None:
            raise KeyError(f"contract {this.qualname}[{this.name}] has neither value() nor result()")
        return f(F, **a)

    def ensures(this, result, a):
        f = this._get("ensures")
        return list(f(result, **a)) if f else []

    def assume(this, F, result, a):
        """hypotheses about the result at call sites: `assume` when the contract gives a relational form
        (fresh existentials instead of div/mod), else the postconditions themselves"""
        f = this._get("assume")
        if f is None:
            return this.ensures(result, a)
        return list(f(F, result, **a))

    def loops(self):
        return self._get("loops", {}) or {}

    def cuts(self):
        return self._get("cuts", []) or []

    def options(self):
        return self._get("options", {}) or {}

    def replay(self):
        return self._get("replay")


class ContractEntry:
    def __init__(self, qualname, ns, props, assumed=False):
        self.qualname, self.ns, self.props, self.assumed = qualname, ns, props, assumed
        cases = ns.__dict__.get("cases")
        if cases:
            self.cases = [Case(qualname, n, c, ns) for n, c in cases.items()]
        else:
            self.cases = [Case(qualname, "default", ns, None)]

    def select(this, a):
        for c in this.cases:
            if c.applies(a):
                return c
        return None


def contract(qualname, props=(), assumed=False):
    def deco(ns):
        REGISTRY[qualname] = ContractEntry(qualname, ns, list(props), assumed=assumed)
        return ns

    return deco


def transparent(*qualnames, why="small accessor: its real body is re-executed at every call site"):
    for q in qualnames:
        TRANSPARENT[q] = why


def lemma(name, props=()):
    """a named auxiliary fact: a function returning [(label, hyps, goal)]; proved, never assumed"""

    def deco(f):
        LEMMAS[name] = (f, list(props))
        return f

    return deco


def native(qualname, post=None):
    """a pure repo function that may be executed natively when all its arguments are concrete"""
    NATIVE[qualname] = post
