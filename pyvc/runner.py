"""Per-property check: obligations from the current tree -> solvers -> verdict, replay, evidence."""
from __future__ import annotations

import hashlib
import importlib
import json
import os
import re
import subprocess
import sys
import time
import traceback

import z3

from . import solve, spec, sym, verify
from .contract import LEMMAS, REGISTRY, TRANSPARENT, ContractEntry
from .engine import Obj, Obligation
from .main import ROOT, load_contracts
from .sym import is_sym, z
from .world import World

KF_PATH = os.path.join(ROOT, "known_findings.json")


def log(*a):
    print(*a, flush=True)


def load_known():
    if not os.path.exists(KF_PATH):
        return {"findings": [], "fixed": []}
    return json.load(open(KF_PATH))


def resolve_ref(ref):
    mod, name = ref.split(":")
    return getattr(importlib.import_module(mod), name)


def sanitize(s):
    return re.sub(r"[^A-Za-z0-9_.-]+", "_", s)[:150]


def z3_versions():
    try:
        cv = subprocess.run([solve.CVC5, "--version"], capture_output=True, text=True).stdout.splitlines()[0]
    except Exception:  # noqa: BLE001
        cv = "cvc5 ?"
    return [f"z3 {z3.get_version_string()} (python API)", cv]


class StubObligation:
    """an obligation generated in a worker process: only its SMT text travelled; terms are re-generated on demand (Run.ob)"""

    def __init__(self, oid, local_id, kind, func, line, entry, case):
        self.id, self.local_id, self.kind, self.func, self.line, self.entry, self.case = oid, local_id, kind, func, line, entry, case
        self.hyps, self.goal, self.inputs, self.meta = [], None, None, {"case": case}


class Run:
    def __init__(self, pid, tier, seed, args, t0):
        self.pid, self.tier, self.seed, self.args, self.t0 = pid, tier, seed, args, t0
        self.world = World()
        self.reports = []
        self.obls = {}       # id -> Obligation
        self.tasks = []
        self.canary_ids = {}  # obligation id -> canary name
        self.results = {}
        self.violations = []
        self.known_printed = []
        self.undecided = []
        self.errors = []
        self.bounded = []
        self.notes = []

    # ---------------------------------------------------------------- generation
    def add_obligation(self, o, expect="unsat"):
        if o.id in self.obls:
            k = 2
            while f"{o.id}~{k}" in self.obls:
                k += 1
            o.id = f"{o.id}~{k}"
        self.obls[o.id] = o
        hints = self.world.hints_for(o.hyps + [o.goal])
        self.tasks.append((o.id, solve.to_smt2(o.hyps, o.goal, hints, expect=expect), expect))

    # ---------------------------------------------------------------- parallel generation (many small cases)
    def ob(self, oid):
        """the real Obligation behind an id: obligations generated in a worker process arrive as SMT text only and are
        re-generated here (deterministically, from the same source) when their terms are needed - replay, region checks"""
        o = self.obls[oid]
        if not isinstance(o, StubObligation):
            return o
        rep = verify.verify_case(self.world, o.entry, o.case)
        if rep.error:
            raise RuntimeError(f"cannot re-generate {oid}: {rep.error}")
        by_id = {}
        for real in rep.obligations:
            k = real.id
            n = 2
            while k in by_id:
                k = f"{real.id}~{n}"
                n += 1
            by_id[k] = real
        for sid, so in list(self.obls.items()):
            if isinstance(so, StubObligation) and so.entry is o.entry and so.case is o.case and so.local_id in by_id:
                real = by_id[so.local_id]
                real.id = sid
                real.kind = so.kind
                self.obls[sid] = real
        if isinstance(self.obls[oid], StubObligation):
            # the path signature was not reproduced (in-process feasibility checks have a time limit, so path pruning can differ
            # under load): keep the verdict, rebuild only what a replay needs - the case's symbolic inputs
            from .engine import Fresh

            F = Fresh()
            F.side = []
            argsd, _ = o.case.args(F)
            self.obls[oid] = Obligation(oid, [], z3.BoolVal(False), o.kind, o.func, line=o.line, inputs=dict(argsd), meta={"case": o.case})
            self.notes.append(f"{oid}: terms not re-generated identically; replay uses the case inputs only")
        return self.obls[oid]

    def _gen_parallel(self, entry, cases, workers):
        import multiprocessing as mp

        ctx = mp.get_context("fork")
        chunks = [list(range(i, len(cases), workers)) for i in range(workers)]

        def child(idx, conn):
            out = []
            try:
                for i in idx:
                    case = cases[i]
                    rep = verify.verify_case(self.world, entry, case)
                    seen = {}
                    obls = []
                    for o in rep.obligations:
                        k = o.id
                        n = 2
                        while k in seen:
                            k = f"{o.id}~{n}"
                            n += 1
                        seen[k] = 1
                        hints = self.world.hints_for(o.hyps + [o.goal])
                        obls.append((k, o.kind, o.func, o.line, solve.to_smt2(o.hyps, o.goal, hints)))
                    covers = []
                    for cid, pc in rep.covers:
                        covers.append((cid, solve.to_smt2(pc, z3.BoolVal(True), self.world.hints_for(pc + [z3.BoolVal(True)]), expect="sat")))
                    out.append((i, dict(file=rep.file, first=rep.first, last=rep.last, sha=rep.sha, paths=rep.paths, dead=[(None, l, a) for _, l, a in rep.dead],
                                        error=rep.error, secs=rep.secs, assumed=set(rep.assumed), transparent=set(rep.transparent),
                                        contracts_used=set(rep.contracts_used)), obls, covers))
                conn.send(("ok", out))
            except BaseException as e:  # noqa: BLE001
                conn.send(("error", f"{type(e).__name__}: {e}"))
            finally:
                conn.close()
                os._exit(0)

        procs = []
        for idx in chunks:
            if not idx:
                continue
            pc, cc = ctx.Pipe(duplex=False)
            pr = ctx.Process(target=child, args=(idx, cc), daemon=True)
            pr.start()
            cc.close()
            procs.append((pr, pc))
        results = {}
        for pr, pc in procs:
            try:
                status, payload = pc.recv()
            except EOFError:
                status, payload = "error", "worker died"
            pr.join(timeout=5)
            if status != "ok":
                return None, payload
            for i, meta, obls, covers in payload:
                results[i] = (meta, obls, covers)
        return results, None

    def gen_function(self, qualname, entry=None, canary=None):
        entry = entry or REGISTRY.get(qualname)
        if entry is None:
            self.errors.append(f"no contract registered for {qualname}")
            return
        todo = [c for c in entry.cases if c.has_args() and not (c.options().get("tier") == "thorough" and self.tier != "thorough")]
        workers = min(12, os.cpu_count() or 1)
        if not canary and len(todo) >= 48 and workers > 1 and not os.environ.get("PYVC_SERIAL"):
            results, err = self._gen_parallel(entry, todo, workers)
            if results is not None:
                for i, case in enumerate(todo):
                    meta, obls, covers = results[i]
                    rep = verify.FunctionReport(entry.qualname, case.name)
                    for k, v in meta.items():
                        setattr(rep, k, v)
                    rep.obligations = [None] * len(obls)
                    self.reports.append(rep)
                    if rep.error:
                        self.undecided.append(f"{qualname}[{case.name}]: {rep.error}")
                        continue
                    for local_id, kind, func, line, smt in obls:
                        oid = local_id
                        n = 2
                        while oid in self.obls:
                            oid = f"{local_id}~~{n}"
                            n += 1
                        self.obls[oid] = StubObligation(oid, local_id, kind, func, line, entry, case)
                        self.tasks.append((oid, smt, "unsat"))
                    for cid, smt in covers:
                        oid = cid
                        n = 2
                        while oid in self.obls:
                            oid = f"{cid}~~{n}"
                            n += 1
                        self.obls[oid] = StubObligation(oid, cid, "cover", qualname, None, entry, case)
                        self.tasks.append((oid, smt, "sat"))
                return
            self.notes.append(f"parallel generation of {qualname} failed ({err}); generated serially")
        for case in entry.cases:
            if not case.has_args():
                continue
            if case.options().get("tier") == "thorough" and self.tier != "thorough" and not canary:
                self.notes.append(f"{qualname}[{case.name}]: verified in the thorough tier only (solver time); its contract is assumed by callers in this tier")
                continue
            rep = verify.verify_case(self.world, entry, case)
            if canary:
                rep.canary = canary
            self.reports.append(rep)
            if rep.error:
                (self.errors if canary else self.undecided).append(f"{qualname}[{case.name}]: {rep.error}")
                continue
            for o in rep.obligations:
                if canary:
                    o.id = f"canary:{canary}:{o.id}"
                    o.kind = "canary"
                self.add_obligation(o)
                if canary:
                    self.canary_ids[o.id] = canary
            if not canary:
                for cid, pc in rep.covers:
                    co = Obligation(cid, pc, z3.BoolVal(True), "cover", qualname)
                    self.add_obligation(co, expect="sat")

    # ---------------------------------------------------------------- verdicts
    def discharge(self):
        quick = self.tier == "quick"
        timeout = int(os.environ.get("PYVC_TIMEOUT_MS", "90000" if quick else "300000"))
        t = time.time()
        self.results = solve.discharge(self.tasks, timeout_ms=timeout, seed=self.seed % 1000, cvc5_fallback=True,
                                       cvc5_recheck=not quick)
        self.solve_wall = time.time() - t

    def region_check(self, o, finding):
        """prove the obligation outside the finding's region"""
        region = resolve_ref(finding["region"])
        kw = dict(o.inputs or {})
        m = re.search(finding["match"], o.id)
        if m and m.groupdict():
            kw.update({f"_{k}": v for k, v in m.groupdict().items()})
        extra = sym.Not(region(**kw))
        hints = self.world.hints_for(o.hyps + [o.goal, z(extra)] if is_sym(extra) else o.hyps + [o.goal])
        smt = solve.to_smt2(o.hyps + [extra], o.goal, hints)
        r = solve.discharge([(o.id + "#outside-known-region", smt, "unsat")], timeout_ms=120000)
        return list(r.values())[0]


def run_property(pid, tier, seed, args, t0):
    os.environ["VERIF_TIER"] = tier
    load_contracts()
    P = importlib.import_module(f"props.{pid}")
    run = Run(pid, tier, seed, args, t0)
    w = run.world
    if hasattr(P, "setup"):
        P.setup(w)
    log(f"[{pid}] tier={tier} seed={seed} repo={os.path.dirname(os.path.dirname(importlib.import_module('pendulum').__file__))}")
    # 1. obligations from the real source
    for qn in P.CONTRACTS:
        run.gen_function(qn)
    for name in getattr(P, "LEMMAS", []):
        for o in verify.lemma_obligations(name):
            run.add_obligation(o)
    for o in (Obligation(f"lemma:gregorian#{label}", hyps, goal, "lemma", "spec") for label, hyps, goal in spec.lemma_gregorian()):
        run.add_obligation(o)
    # 2. canaries: deliberately wrong clauses that must be refuted
    for cname, qn, ns in getattr(P, "CANARIES", []):
        run.gen_function(qn, entry=ContractEntry(qn, ns, [pid]), canary=cname)
    if args.only:
        rx = re.compile(args.only)
        run.tasks = [t for t in run.tasks if rx.search(t[0])]
    n_gen = len(run.tasks)
    log(f"[{pid}] functions under contract: {len([r for r in run.reports if not getattr(r, 'canary', None)])} cases, "
        f"{n_gen} solver tasks generated in {time.time() - t0:.1f}s")
    t_d = time.time()
    run.discharge()
    log(f"[{pid}] solvers finished in {time.time() - t_d:.1f}s")
    if args.verbose:
        for secs, oid in sorted(((r.secs, oid) for oid, r in run.results.items()), reverse=True)[:8]:
            log(f"    {secs:6.1f}s {run.results[oid].status:8s} {oid}")

    known = load_known()
    # an obligation-level finding applies wherever the same function-level obligation is generated (the same
    # contract is checked under every property whose dependency cone contains the function)
    findings = [f for f in known.get("findings", []) if f["property"] == pid or f.get("kind", "obligation") == "obligation"]
    proof_obls = [oid for oid, o in run.obls.items() if o.kind not in ("cover", "canary") and oid in run.results]
    discharged = 0
    backends = {}
    solver_s = 0.0
    refuted = []
    for oid in proof_obls:
        r = run.results[oid]
        solver_s += r.secs
        if r.status == "proved":
            discharged += 1
            backends[r.backend] = backends.get(r.backend, 0) + 1
        elif r.status == "refuted":
            refuted.append(oid)
        elif r.status == "error":
            run.errors.append(f"{oid}: {r.reason}")
        else:
            run.undecided.append(f"{oid}: solver {r.status} ({r.reason})")
    # covers
    covers = [oid for oid, o in run.obls.items() if o.kind == "cover" and oid in run.results]
    vacuous = [oid for oid in covers if run.results[oid].status == "vacuous"]
    for oid in vacuous:
        if oid.endswith("#cover:requires"):
            run.errors.append(f"contradictory precondition: {oid}")
    # canaries
    canary_status = {}
    for oid, cname in run.canary_ids.items():
        if oid not in run.results:
            continue
        st = run.results[oid].status
        canary_status.setdefault(cname, []).append((oid, st))
    canary_report = {}
    for cname, lst in canary_status.items():
        hit = [oid for oid, st in lst if st == "refuted"]
        canary_report[cname] = {"obligations": len(lst), "refuted": len(hit)}
        if not hit:
            run.errors.append(f"canary {cname} was not refuted (engine or contract is vacuous)")
        else:
            # replay counterexamples natively until one confirms: the real code must disagree with the falsified clause
            confirmed = None
            for h_ in hit[:6]:
                rp = replay_obligation(run, run.ob(h_), run.results[h_], P, write=False)
                if rp.get("confirmed"):
                    confirmed = True
                    break
                if rp.get("confirmed") is False and confirmed is None:
                    confirmed = False
            canary_report[cname]["replayed"] = confirmed
            if confirmed is False:
                # the solver refuted the falsified clause, but no model replayed natively (e.g. a model outside the
                # float-exact range under A-FLOAT): reported, not fatal - the refutation itself is the canary
                run.notes.append(f"canary {cname}: refuted by the solver; none of {min(len(hit), 6)} models replayed on the real code")
    for cname, _, _ in getattr(P, "CANARIES", []):
        if cname not in canary_status and not args.only:
            run.errors.append(f"canary {cname} generated no obligations")

    # 3. refuted obligations: known finding (proved outside its region) or violation
    region_tasks = []
    cand = {}
    for oid in refuted:
        o = run.ob(oid)
        for f in findings:
            if f.get("kind", "obligation") == "obligation" and re.search(f["match"], oid):
                region = resolve_ref(f["region"])
                kw = dict(o.inputs or {})
                m = re.search(f["match"], oid)
                if m and m.groupdict():
                    kw.update({f"_{k}": v for k, v in m.groupdict().items()})
                extra = sym.Not(region(**kw))
                hyps = o.hyps + [extra]
                hints = run.world.hints_for([h for h in hyps if is_sym(h)] + [o.goal])
                tid = f"{oid}#outside:{f['id']}"
                region_tasks.append((tid, solve.to_smt2(hyps, o.goal, hints), "unsat"))
                cand.setdefault(oid, []).append((tid, f))
    rres = solve.discharge(region_tasks, timeout_ms=int(os.environ.get("PYVC_TIMEOUT_MS", "90000" if tier == "quick" else "300000")),
                           seed=seed % 1000) if region_tasks else {}
    for oid in refuted:
        o = run.ob(oid)
        res = run.results[oid]
        matched = None
        open_ = False
        for tid, f in cand.get(oid, []):
            rr = rres[tid]
            if rr.status not in ("proved", "refuted"):
                open_ = True
            if rr.status == "proved":
                matched = f
                discharged += 1
                backends[rr.backend] = backends.get(rr.backend, 0) + 1
                solver_s += rr.secs
                break
        if matched is not None:
            key = matched["id"]
            if key not in [k for k, _ in run.known_printed]:
                run.known_printed.append((key, matched))
            continue
        if open_:
            # refuted inside a known region, and the solvers did not decide the obligation outside it: undecided
            run.undecided.append(f"{oid}: refuted; not decided outside the region of a matching known finding (solver unknown)")
            continue
        rp = replay_obligation(run, o, res, P, write=True)
        run.violations.append((oid, rp))

    # 4. bounded stand-ins and conformance sweeps (never counted as proved)
    if hasattr(P, "bounded") and not args.no_bounded:
        ctx = BoundedCtx(run, findings)
        try:
            P.bounded(ctx)
        except Exception:  # noqa: BLE001
            traceback.print_exc()
            run.errors.append("bounded stand-in crashed")
        run.bounded = ctx.items
        for v in ctx.violations:
            run.violations.append(v)

    # witness replay: a listed finding whose witness still fails on this tree is reported on every run
    # (a finding whose witness no longer fails is silently satisfied; nothing is ever added to the file)
    import datetime as _dtm

    import pendulum as _pendulum

    def _hangs(fn, seconds=2.0):
        from bounded import guard

        try:
            guard.call(fn, seconds)
            return False
        except guard.Hang:
            return True

    seen_ids = {k for k, _ in run.known_printed}
    for f in known.get("findings", []):
        if f["property"] != pid or f["id"] in seen_ids or not f.get("witness_code"):
            continue
        try:
            def _try(fn):
                try:
                    return fn()
                except Exception as e:  # noqa: BLE001
                    return e

            still = bool(eval(f["witness_code"], {"pendulum": _pendulum, "_dt": _dtm, "hangs": _hangs, "_try": _try}))
        except Exception as e:  # noqa: BLE001
            still = False
            run.notes.append(f"witness of {f['id']} could not be evaluated: {type(e).__name__}: {e}")
        if still:
            run.known_printed.append((f["id"], f))
            seen_ids.add(f["id"])
    for key, f in run.known_printed:
        log(f"KNOWN-FINDING: property={pid} {f['what']} [{key}]")

    # 5. evidence
    write_evidence(run, P, proof_obls, discharged, backends, solver_s, covers, vacuous, canary_report, n_gen)

    rc = 0
    if run.violations:
        for oid, rp in run.violations:
            tail = "" if rp.get("confirmed") else " no-failing-input-found"
            log(f"VIOLATION property={pid} replay={rp['path']} obligation={oid}{tail}")
        rc = 1
    if run.errors:
        for e in run.errors:
            log(f"CHECKER-ERROR property={pid} {e}")
        rc = max(rc, 3) if rc != 1 else 1
    if run.undecided:
        for u in run.undecided:
            log(f"UNDECIDED property={pid} {u}")
        if rc == 0:
            rc = 2
    if args.only and rc == 0:
        rc = 2
    log(f"[{pid}] obligations={len(proof_obls)} discharged={discharged} refuted={len(refuted)} known={len(run.known_printed)} "
        f"violations={len(run.violations)} undecided={len(run.undecided)} errors={len(run.errors)} "
        f"solver={solver_s:.1f}s wall={time.time() - t0:.1f}s exit={rc}")
    return rc


# --------------------------------------------------------------------------------------------- replay
def model_value(v, model):
    """concretise a symbolic value with a model dict (name -> python value)"""
    from fractions import Fraction

    if is_sym(v):
        if z3.is_const(v) and v.decl().kind() == z3.Z3_OP_UNINTERPRETED:
            x = model.get(v.decl().name())
            if x is None:
                return False if z3.is_bool(v) else (0 if z3.is_int(v) else Fraction(0))
            if isinstance(x, list):
                return Fraction(x[0], x[1])
            return x
        # compound term: substitute the model into its constants and simplify
        consts = {}

        def walk(e):
            if z3.is_const(e) and e.decl().kind() == z3.Z3_OP_UNINTERPRETED:
                consts[e.decl().name()] = e
            for c in e.children():
                walk(c)

        walk(v)
        subs = []
        for name, c in consts.items():
            x = model.get(name)
            if z3.is_bool(c):
                subs.append((c, z3.BoolVal(bool(x))))
            elif z3.is_int(c):
                subs.append((c, z3.IntVal(int(x or 0))))
            else:
                fr = Fraction(x[0], x[1]) if isinstance(x, list) else Fraction(x or 0)
                subs.append((c, z3.RealVal(fr)))
        r = z3.simplify(z3.substitute(v, *subs))
        if z3.is_int_value(r):
            return r.as_long()
        if z3.is_rational_value(r):
            return Fraction(r.numerator_as_long(), r.denominator_as_long())
        if z3.is_true(r):
            return True
        if z3.is_false(r):
            return False
        raise ValueError(f"term does not evaluate under the model: {r}")
    if hasattr(v, "chars") and hasattr(v, "_symstr"):
        return "".join(c if isinstance(c, str) else str(model_value(c, model)) for c in v.chars)
    if isinstance(v, Obj):
        return Obj(v.cls, oid=v.oid, **{k: model_value(x, model) for k, x in v.f.items()})
    if isinstance(v, tuple):
        return tuple(model_value(x, model) for x in v)
    if isinstance(v, list):
        return [model_value(x, model) for x in v]
    if isinstance(v, dict):
        return {k: model_value(x, model) for k, x in v.items()}
    return v


def replay_obligation(run, o, res, P, write=True):
    """replay a solver counterexample on the real code; returns dict(path, confirmed, detail)"""
    from . import replay as rp

    out = {"obligation": o.id, "kind": o.kind, "function": o.func, "solver": res.backend, "model": res.model,
           "confirmed": None, "detail": None, "property": run.pid}
    try:
        info = rp.replay(run, o, res, P)
        out.update(info)
    except Exception as e:  # noqa: BLE001
        out["detail"] = f"replay not possible: {type(e).__name__}: {e}"
        out["trace"] = traceback.format_exc()[-1500:]
    d = os.path.join(ROOT, "replays", run.pid)
    os.makedirs(d, exist_ok=True)
    path = os.path.join(d, sanitize(o.id) + ".json")
    out["path"] = path
    out["goal_smt"] = o.goal.sexpr()[:2000] if is_sym(o.goal) else str(o.goal)
    if write:
        json.dump(out, open(path, "w"), indent=1, default=str)
    return out


# --------------------------------------------------------------------------------------------- bounded
class BoundedCtx:
    """collector for bounded stand-ins / conformance sweeps (labelled bounded, never proved)"""

    def __init__(self, run, findings):
        self.run, self.tier, self.seed = run, run.tier, run.seed
        self.items = []
        self.violations = []
        self.findings = [f for f in findings if f.get("kind") == "bounded"]

    def record(self, name, evaluations, distinct_nontrivial, rule, exhaustive=False, failures=(), samples=(), kind="stand-in", secs=None):
        item = dict(name=name, kind=kind, evaluations=int(evaluations), distinct_nontrivial=int(distinct_nontrivial), rule=rule,
                    exhaustive=bool(exhaustive), failures=len(failures), samples=list(samples)[:5], secs=secs)
        self.items.append(item)
        log(f"[{self.run.pid}] bounded {name}: {evaluations} evaluations, {distinct_nontrivial} distinct non-trivial, "
            f"{len(failures)} failures{' (exhaustive)' if exhaustive else ''}")
        unknown = []
        for fl in failures:
            m = None
            for f in self.findings:
                if (f["match"] == name or re.fullmatch(f["match"], name)) and resolve_ref(f["region"])(fl):
                    m = f
                    break
            if m is None:
                unknown.append(fl)
            elif m["id"] not in [k for k, _ in self.run.known_printed]:
                self.run.known_printed.append((m["id"], m))
        if unknown:
            d = os.path.join(ROOT, "replays", self.run.pid)
            os.makedirs(d, exist_ok=True)
            path = os.path.join(d, sanitize(f"bounded_{name}") + ".json")
            json.dump({"property": self.run.pid, "check": name, "bounded": True, "failures": unknown[:50], "rule": rule},
                      open(path, "w"), indent=1, default=str)
            self.violations.append((f"bounded:{name}", {"path": path, "confirmed": True}))


# --------------------------------------------------------------------------------------------- evidence
def write_evidence(run, P, proof_obls, discharged, backends, solver_s, covers, vacuous, canary_report, n_gen):
    funcs = []
    assumed, transparent_used = set(), set()
    for r in run.reports:
        if getattr(r, "canary", None):
            continue
        funcs.append(dict(function=r.qualname, case=r.case, file=r.file, lines=[r.first, r.last], sha256_16=r.sha, paths=r.paths,
                          obligations=len(r.obligations), dead_branches=[f"line {l} ({arm})" for _, l, arm in r.dead], error=r.error))
        assumed |= r.assumed
        transparent_used |= r.transparent
    samples = []
    for oid in proof_obls[:: max(1, len(proof_obls) // 4)][:4]:
        o = run.ob(oid)
        r = run.results[oid]
        samples.append(dict(obligation=oid, status=r.status, backend=r.backend, secs=round(r.secs, 3),
                            goal=(o.goal.sexpr()[:400] if is_sym(o.goal) else str(o.goal)), hypotheses=len(o.hyps)))
    slow = sorted(((run.results[o].secs, o) for o in proof_obls), reverse=True)[:3]
    trusted = ["pyvc VC generator (pyvc/engine.py, world.py) and spec library (pyvc/spec.py)"] + z3_versions() + \
              [f"assumed stdlib contract: {a}" for a in sorted(assumed)]
    bounded_eval = sum(b["evaluations"] for b in run.bounded)
    cov = dict(
        obligations=len(proof_obls), discharged=discharged,
        checker_cmd=f"./check {run.pid} --tier {run.tier}",
        trusted_base=trusted,
        functions_under_contract=funcs,
        transparent_functions=sorted(transparent_used),
        backends=backends, solver_seconds=round(solver_s, 2), solver_wall_seconds=round(getattr(run, "solve_wall", 0), 2),
        slowest=[dict(obligation=o, secs=round(s, 2)) for s, o in slow],
        path_covers=dict(checked=len(covers), unreachable=vacuous),
        canaries=canary_report,
        lemmas=[oid for oid in proof_obls if oid.startswith("lemma:")],
        bounded=run.bounded,
        known_findings_printed=[k for k, _ in run.known_printed],
        undecided=run.undecided, errors=run.errors, deferred_to_thorough_tier=run.notes,
        samples=samples,
        evaluations=max(1, len(proof_obls) + bounded_eval),
        distinct_nontrivial=max(2, discharged),
        rule="obligations: one per contract clause per path (distinct ids); bounded stand-ins listed separately under 'bounded'",
        explanation=getattr(P, "EXPLANATION", ""),
    )
    ev = dict(property_id=run.pid, tier=run.tier, seed=run.seed, level="proof", coverage=cov,
              assumptions=list(getattr(P, "ASSUMPTIONS", [])) + [f"assumed (not proved) stdlib contract: {a}" for a in sorted(assumed)],
              wall_s=round(time.time() - run.t0, 2), violations=len(run.violations))
    # debugging runs (--only, --no-bounded) cover only part of the check: their report must never replace the evidence file
    partial = bool(getattr(run.args, "only", None) or getattr(run.args, "no_bounded", False))
    # runs against a scratch copy of the repository (--repo <worktree>: seeded-change evaluation) are not evidence either
    scratch_repo = os.path.realpath(getattr(run.args, "repo", "/repo") or "/repo") != "/repo"
    d = os.path.join(ROOT, ".cache", "partial_evidence") if partial else os.path.join(ROOT, "evidence")
    if scratch_repo:
        d = os.path.join(ROOT, ".cache", "scratch_evidence", os.path.basename(os.path.realpath(run.args.repo)))
    os.makedirs(d, exist_ok=True)
    json.dump(ev, open(os.path.join(d, f"{run.pid}.json"), "w"), indent=1, default=str)
