"""Obligation discharge: z3 (python API, process pool) with cvc5 taking z3's unknowns.

An obligation (hyps, goal) is discharged iff  hyps /\\ hints /\\ not goal  is `unsat`.
`sat` comes back with a model (name -> value) for replay; `unknown`/timeouts are never violations.
"""
from __future__ import annotations

import os
import subprocess
import tempfile
import time
from concurrent.futures import ProcessPoolExecutor
from fractions import Fraction

import z3

from .sym import z

CVC5 = "/usr/bin/cvc5"


def to_smt2(hyps, goal, hints=(), expect="unsat"):
    s = z3.Solver()
    for h in hyps:
        s.add(z(h))
    for h in hints:
        s.add(h)
    if expect == "unsat":
        s.add(z3.Not(goal))
    else:
        s.add(goal)
    return s.to_smt2()


def _model_dict(m):
    out = {}
    for d in m.decls():
        if d.arity() != 0:
            continue
        v = m[d]
        try:
            if z3.is_int_value(v):
                out[d.name()] = v.as_long()
            elif z3.is_rational_value(v):
                out[d.name()] = [v.numerator_as_long(), v.denominator_as_long()]
            elif z3.is_true(v):
                out[d.name()] = True
            elif z3.is_false(v):
                out[d.name()] = False
            else:
                out[d.name()] = str(v)
        except Exception:  # noqa: BLE001
            out[d.name()] = str(v)
    return out


def _z3_task(task):
    oid, smt, timeout_ms, seed = task
    t0 = time.time()
    try:
        s = z3.Solver()
        s.set("timeout", timeout_ms)
        s.set("random_seed", seed)
        s.from_string(smt)
        r = s.check()
        model = _model_dict(s.model()) if r == z3.sat else None
        reason = s.reason_unknown() if r == z3.unknown else ""
        return oid, str(r), time.time() - t0, model, reason
    except Exception as e:  # noqa: BLE001
        return oid, "error", time.time() - t0, None, f"{type(e).__name__}: {e}"


def _cvc5_task(task):
    oid, smt, timeout_ms, seed = task
    t0 = time.time()
    with tempfile.NamedTemporaryFile("w", suffix=".smt2", delete=False, dir=os.environ.get("PYVC_TMP", None)) as f:
        f.write("(set-logic ALL)\n(set-option :produce-models true)\n")
        f.write(smt.replace("(check-sat)", "(check-sat)\n(get-model)"))
        path = f.name
    try:
        p = subprocess.run([CVC5, f"--tlimit={timeout_ms}", "--nl-ext-tplanes", path], capture_output=True, text=True,
                           timeout=timeout_ms / 1000 + 10)
        out = p.stdout.strip().splitlines()
        r = out[0].strip() if out else "unknown"
        if r not in ("sat", "unsat", "unknown"):
            r = "unknown"
        return oid, r, time.time() - t0, None, (p.stderr or "")[:200]
    except subprocess.TimeoutExpired:
        return oid, "unknown", time.time() - t0, None, "timeout"
    finally:
        os.unlink(path)


class Result:
    def __init__(self, oid, status, backend, secs, model=None, reason=""):
        self.id, self.status, self.backend, self.secs, self.model, self.reason = oid, status, backend, secs, model, reason


_pool = None


def pool(workers=None):
    global _pool
    if _pool is None:
        _pool = ProcessPoolExecutor(max_workers=workers or min(16, os.cpu_count() or 4))
    return _pool


def shutdown():
    global _pool
    if _pool is not None:
        procs = list(getattr(_pool, "_processes", {}).values())
        _pool.shutdown(wait=False, cancel_futures=True)
        for pr in procs:
            try:
                pr.kill()
            except Exception:  # noqa: BLE001
                pass
        _pool = None


def discharge(tasks, timeout_ms=60000, seed=0, cvc5_fallback=True, cvc5_recheck=False, workers=None):
    """tasks: list of (oid, smt2 text, expect).  returns {oid: Result}; status in
    proved | refuted | unknown | error  (for expect == 'sat' tasks: covered | vacuous | unknown)."""
    results = {}
    expect = {oid: exp for oid, _, exp in tasks}
    p = pool(workers)
    futs = [p.submit(_z3_task, (oid, smt, timeout_ms, seed)) for oid, smt, _ in tasks]
    smts = {oid: smt for oid, smt, _ in tasks}
    pending_cvc5 = []
    for f in futs:
        oid, r, secs, model, reason = f.result()
        if r == "unknown" and cvc5_fallback:
            pending_cvc5.append((oid, secs))
            continue
        results[oid] = Result(oid, r, "z3", secs, model, reason)
    if pending_cvc5:
        futs = [(oid, secs, p.submit(_cvc5_task, (oid, smts[oid], timeout_ms, seed))) for oid, secs in pending_cvc5]
        for oid, secs0, f in futs:
            _, r, secs, model, reason = f.result()
            results[oid] = Result(oid, r, "cvc5" if r != "unknown" else "z3+cvc5", secs0 + secs, model, reason)
    if cvc5_recheck:
        todo = [oid for oid, res in results.items() if res.status == "unsat" and res.backend == "z3" and expect[oid] == "unsat"]
        futs = [(oid, p.submit(_cvc5_task, (oid, smts[oid], timeout_ms, seed))) for oid in todo]
        for oid, f in futs:
            _, r, secs, _, _ = f.result()
            results[oid].recheck = r
            if r == "sat":
                results[oid].status = "error"
                results[oid].reason = "z3 says unsat, cvc5 says sat"
    for oid, res in results.items():
        if res.status in ("error",):
            continue
        if expect[oid] == "unsat":
            res.status = {"unsat": "proved", "sat": "refuted"}.get(res.status, "unknown")
        else:
            res.status = {"sat": "covered", "unsat": "vacuous"}.get(res.status, "unknown")
    return results
