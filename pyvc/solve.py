"""Obligation discharge: z3 (python API, one forked process per task, hard-killed when it ignores its
soft limit) with cvc5 taking z3's unknowns.

An obligation (hyps, goal) is discharged iff  hyps /\\ hints /\\ not goal  is `unsat`.
`sat` comes back with a model (name -> value) for replay; `unknown`/timeouts are never violations.
"""
from __future__ import annotations

import os
import subprocess
import tempfile
import time

import z3

from .sym import z

CVC5 = "/usr/bin/cvc5"


def to_smt2(hyps, goal, hints=(), expect="unsat"):
    s = z3.Solver()
    for h in hyps:
        s.add(z(h))
    for h in hints:
        s.add(h)
    if expect == "unsat":
        s.add(z3.Not(goal))
    else:
        s.add(goal)
    return s.to_smt2()


def _model_dict(m):
    out = {}
    for d in m.decls():
        if d.arity() != 0:
            continue
        v = m[d]
        try:
            if z3.is_int_value(v):
                out[d.name()] = v.as_long()
            elif z3.is_rational_value(v):
                out[d.name()] = [v.numerator_as_long(), v.denominator_as_long()]
            elif z3.is_true(v):
                out[d.name()] = True
            elif z3.is_false(v):
                out[d.name()] = False
            else:
                out[d.name()] = str(v)
        except Exception:  # noqa: BLE001
            out[d.name()] = str(v)
    return out


def _z3_task(task):
    oid, smt, timeout_ms, seed = task
    t0 = time.time()
    try:
        ctx = z3.Context()
        s = z3.Solver(ctx=ctx)
        s.set("timeout", timeout_ms)
        s.set("random_seed", seed)
        s.from_string(smt)
        r = s.check()
        model = _model_dict(s.model()) if r == z3.sat else None
        reason = s.reason_unknown() if r == z3.unknown else ""
        return oid, str(r), time.time() - t0, model, reason
    except Exception as e:  # noqa: BLE001
        return oid, "error", time.time() - t0, None, f"{type(e).__name__}: {e}"


def _cvc5_task(task):
    oid, smt, timeout_ms, seed = task
    t0 = time.time()
    with tempfile.NamedTemporaryFile("w", suffix=".smt2", delete=False) as f:
        f.write("(set-logic ALL)\n")
        f.write(smt)
        path = f.name
    try:
        p = subprocess.run([CVC5, f"--tlimit={timeout_ms}", "--nl-ext-tplanes", path], capture_output=True, text=True,
                           timeout=timeout_ms / 1000 + 10)
        out = p.stdout.strip().splitlines()
        r = out[0].strip() if out else "unknown"
        if r not in ("sat", "unsat", "unknown"):
            r = "unknown"
        return oid, r, time.time() - t0, None, (p.stderr or "").strip()[:200]
    except subprocess.TimeoutExpired:
        return oid, "unknown", time.time() - t0, None, "timeout"
    finally:
        os.unlink(path)


class Result:
    def __init__(self, oid, status, backend, secs, model=None, reason=""):
        self.id, self.status, self.backend, self.secs, self.model, self.reason = oid, status, backend, secs, model, reason


_live = set()


def shutdown():
    for pr in list(_live):
        try:
            pr.kill()
        except Exception:  # noqa: BLE001
            pass
    _live.clear()


def _child(fn, task, conn):
    try:
        conn.send(fn(task))
    except BaseException as e:  # noqa: BLE001
        try:
            conn.send((task[0], "error", 0.0, None, f"{type(e).__name__}: {e}"))
        except Exception:  # noqa: BLE001
            pass
    finally:
        conn.close()
        os._exit(0)


def _run_pool(fn, tasks, workers, hard_s):
    """fork one process per task (at most `workers` at a time); a task that ignores its soft timeout is
    killed after hard_s seconds and reported as unknown (never as a verdict)"""
    import multiprocessing as mp

    ctx = mp.get_context("fork")
    pending = list(reversed(tasks))
    running = {}
    out = []
    while pending or running:
        while pending and len(running) < workers:
            t = pending.pop()
            pc, cc = ctx.Pipe(duplex=False)
            pr = ctx.Process(target=_child, args=(fn, t, cc), daemon=True)
            pr.start()
            cc.close()
            _live.add(pr)
            running[pr] = (t, pc, time.time())
        done = []
        for pr, (t, pc, t0) in running.items():
            if pc.poll(0):
                try:
                    out.append(pc.recv())
                except EOFError:
                    out.append((t[0], "error", time.time() - t0, None, "worker died"))
                done.append(pr)
            elif not pr.is_alive():
                if pc.poll(0.05):
                    out.append(pc.recv())
                else:
                    out.append((t[0], "error", time.time() - t0, None, "worker died"))
                done.append(pr)
            elif time.time() - t0 > hard_s:
                pr.kill()
                out.append((t[0], "unknown", time.time() - t0, None, "hard timeout (solver ignored its soft limit)"))
                done.append(pr)
        for pr in done:
            t, pc, t0 = running.pop(pr)
            pc.close()
            pr.join(timeout=1)
            _live.discard(pr)
        if not done:
            time.sleep(0.01)
    return out


def _child_batch(fn, tasks, conn):
    try:
        for t in tasks:
            try:
                conn.send(fn(t))
            except BaseException as e:  # noqa: BLE001
                conn.send((t[0], "error", 0.0, None, f"{type(e).__name__}: {e}"))
    finally:
        conn.close()
        os._exit(0)


def _run_pool_batched(fn, tasks, workers, hard_s, batch):
    """like _run_pool, for very many small tasks: one forked process solves a batch of tasks one after the other and reports
    each result as it is found (a fork per task costs tens of milliseconds in the parent once the task list is large).
    A worker that reports nothing for hard_s seconds is killed: the task it was on is unknown, the rest of its batch is re-queued."""
    import multiprocessing as mp

    ctx = mp.get_context("fork")
    queue = [tasks[i:i + batch] for i in range(0, len(tasks), batch)]
    queue.reverse()
    running = {}
    out = []
    while queue or running:
        while queue and len(running) < workers:
            b = queue.pop()
            pc, cc = ctx.Pipe(duplex=False)
            pr = ctx.Process(target=_child_batch, args=(fn, b, cc), daemon=True)
            pr.start()
            cc.close()
            _live.add(pr)
            running[pr] = [b, pc, time.time(), 0]   # batch, pipe, last progress, results received
        done = []
        for pr, st in running.items():
            b, pc, last, got = st
            progressed = False
            try:
                while pc.poll(0):
                    out.append(pc.recv())
                    st[3] += 1
                    st[2] = time.time()
                    progressed = True
            except EOFError:
                pass
            if st[3] >= len(b):
                done.append(pr)
            elif not pr.is_alive() and not pc.poll(0.05):
                # died without finishing: the task it was on is an error, the rest goes back
                cur = b[st[3]]
                out.append((cur[0], "error", time.time() - st[2], None, "worker died"))
                rest = b[st[3] + 1:]
                if rest:
                    queue.append(rest)
                done.append(pr)
            elif not progressed and time.time() - st[2] > hard_s:
                pr.kill()
                cur = b[st[3]]
                out.append((cur[0], "unknown", time.time() - st[2], None, "hard timeout (solver ignored its soft limit)"))
                rest = b[st[3] + 1:]
                if rest:
                    queue.append(rest)
                done.append(pr)
        for pr in done:
            _, pc, _, _ = running.pop(pr)
            pc.close()
            pr.join(timeout=1)
            _live.discard(pr)
        if not done:
            time.sleep(0.005)
    return out


def _run_portfolio(groups, workers, hard_s):
    """groups: {oid: [(fn, task), ...]}; the first definitive (sat/unsat) answer of a group wins and its
    siblings are killed.  returns {oid: (backend_label, result tuple)}"""
    import multiprocessing as mp

    ctx = mp.get_context("fork")
    queue = []
    for oid, members in groups.items():
        for label, fn, task in members:
            queue.append((oid, label, fn, task))
    # interleave: first member of every group first
    queue.sort(key=lambda q: [m[0] for m in groups[q[0]]].index(q[1]))
    queue.reverse()
    running = {}
    final = {}
    left = {oid: len(m) for oid, m in groups.items()}
    best_unknown = {}
    while queue or running:
        while queue and len(running) < workers:
            oid, label, fn, task = queue.pop()
            if oid in final:
                left[oid] -= 1
                continue
            pc, cc = ctx.Pipe(duplex=False)
            pr = ctx.Process(target=_child, args=(fn, task, cc), daemon=True)
            pr.start()
            cc.close()
            _live.add(pr)
            running[pr] = (oid, label, pc, time.time())
        done = []
        for pr, (oid, label, pc, t0) in running.items():
            res = None
            if pc.poll(0):
                try:
                    res = pc.recv()
                except EOFError:
                    res = (oid, "error", time.time() - t0, None, "worker died")
            elif not pr.is_alive():
                res = pc.recv() if pc.poll(0.05) else (oid, "error", time.time() - t0, None, "worker died")
            elif time.time() - t0 > hard_s or oid in final:
                pr.kill()
                res = (oid, "unknown", time.time() - t0, None, "killed")
            if res is not None:
                done.append((pr, oid, label, res))
        for pr, oid, label, res in done:
            _, _, pc, _ = running.pop(pr)
            pc.close()
            pr.join(timeout=1)
            _live.discard(pr)
            left[oid] -= 1
            if oid in final:
                continue
            if res[1] in ("sat", "unsat"):
                final[oid] = (label, res)
            else:
                best_unknown[oid] = (label, res)
                if left[oid] <= 0:
                    final[oid] = best_unknown[oid]
        if not done:
            time.sleep(0.01)
    for oid in groups:
        if oid not in final:
            final[oid] = best_unknown.get(oid, ("z3", (oid, "unknown", 0.0, None, "no answer")))
    return final


def discharge(tasks, timeout_ms=60000, seed=0, cvc5_fallback=True, cvc5_recheck=False, workers=None):
    """tasks: list of (oid, smt2 text, expect).  returns {oid: Result}; status in
    proved | refuted | unknown | error  (for expect == 'sat' tasks: covered | vacuous | unknown).

    Phase 1: z3 with a short budget (most obligations take milliseconds).  Phase 2: the rest as a portfolio
    - z3 with two seeds and cvc5 side by side; the first definitive answer wins (solver run times vary by an
    order of magnitude with the seed, so a portfolio keeps verdicts stable under load)."""
    results = {}
    workers = workers or min(16, os.cpu_count() or 4)
    expect = {oid: exp for oid, _, exp in tasks}
    smts = {oid: smt for oid, smt, _ in tasks}
    quick_ms = min(5000, timeout_ms)

    def budget(oid):
        if expect[oid] != "unsat":
            # reachability covers are sanity checks: unknown is not a failure (phase 1 only); tighter when there are very many
            return min(timeout_ms, 3000 if len(tasks) <= 3000 else 1000)
        if oid.startswith("canary:"):
            return min(timeout_ms, 60000)  # a canary only needs one refuted obligation (sat queries: seed-dependent run times)
        return timeout_ms

    ztasks = [(oid, smt, min(quick_ms, budget(oid)), seed) for oid, smt, exp in tasks]
    ztasks.sort(key=lambda t: expect[t[0]] != "unsat")
    phase2 = []
    if len(ztasks) > 3000:
        phase1 = _run_pool_batched(_z3_task, ztasks, workers, quick_ms / 1000 * 1.5 + 5, batch=48)
    else:
        phase1 = _run_pool(_z3_task, ztasks, workers, quick_ms / 1000 * 1.5 + 5)
    for oid, r, secs, model, reason in phase1:
        if r == "unknown" and budget(oid) > quick_ms:
            phase2.append((oid, secs))
            continue
        results[oid] = Result(oid, r, "z3", secs, model, reason)
    if phase2:
        secs0 = dict(phase2)
        groups = {}
        for oid, _ in phase2:
            b = budget(oid)
            members = [("z3", _z3_task, (oid, smts[oid], b, seed)), ("z3/seed+1", _z3_task, (oid, smts[oid], b, seed + 1))]
            if cvc5_fallback and expect[oid] == "unsat":
                members.insert(1, ("cvc5", _cvc5_task, (oid, smts[oid], b, seed)))
            groups[oid] = members
        for oid, (label, (_, r, secs, model, reason)) in _run_portfolio(groups, workers, timeout_ms / 1000 * 1.25 + 10).items():
            if r == "sat" and model is None and expect[oid] == "unsat":
                # cvc5 found a counterexample first: ask z3 for a model with the remaining budget (needed for replay)
                _, r2, s2, model2, _ = _run_pool(_z3_task, [(oid, smts[oid], budget(oid), seed + 2)], 1, budget(oid) / 1000 + 10)[0]
                if r2 == "sat":
                    model, secs = model2, secs + s2
            results[oid] = Result(oid, r, label, secs0[oid] + secs, model, reason)
    # phase 3: z3's run time on the nonlinear calendar goals varies by an order of magnitude with the seed; whatever is still
    # unknown gets four more seeds side by side (a timeout is never a verdict, so more attempts can only turn unknown into an answer)
    retry = [oid for oid, res in results.items() if res.status == "unknown" and expect[oid] == "unsat" and not oid.startswith("canary:") and budget(oid) > quick_ms]
    if retry and len(retry) <= 24:
        groups = {oid: [(f"z3/seed+{k}", _z3_task, (oid, smts[oid], budget(oid), seed + k)) for k in (2, 3, 4, 5)] for oid in retry}
        for oid, (label, (_, r, secs, model, reason)) in _run_portfolio(groups, workers, timeout_ms / 1000 * 1.25 + 10).items():
            if r in ("sat", "unsat"):
                results[oid] = Result(oid, r, label, results[oid].secs + secs, model, reason)
    if cvc5_recheck:
        todo = [oid for oid, res in results.items() if res.status == "unsat" and res.backend.startswith("z3") and expect[oid] == "unsat"]
        if len(todo) > 1500:
            # cvc5 needs seconds per query: for very large families re-check an evenly spaced sample of 1,500 obligations
            step = len(todo) / 1500.0
            todo = [todo[int(i * step)] for i in range(1500)]
        ctasks = [(oid, smts[oid], min(timeout_ms, 120000), seed) for oid in todo]
        rec = _run_pool_batched(_cvc5_task, ctasks, workers, 140, batch=48) if len(ctasks) > 3000 else _run_pool(_cvc5_task, ctasks, workers, 140)
        for oid, r, secs, _, _ in rec:
            results[oid].recheck = r
            if r == "sat":
                results[oid].status = "error"
                results[oid].reason = "z3 says unsat, cvc5 says sat"
    for oid, res in results.items():
        if res.status in ("error",):
            continue
        if expect[oid] == "unsat":
            res.status = {"unsat": "proved", "sat": "refuted"}.get(res.status, "unknown")
        else:
            res.status = {"sat": "covered", "unsat": "vacuous"}.get(res.status, "unknown")
    return results
