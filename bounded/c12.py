"""Bounded stand-ins for C12 on the real code: every unit, zones incl. days whose midnight is skipped/repeated, Date."""
import datetime as _dt
import random
import time

from bounded import guard, zonesweep

UTC = _dt.timezone.utc
UNITS = ("second", "minute", "hour", "day", "week", "month", "year", "decade", "century")


def inst(x):
    if x.tzinfo is None:
        return (_dt.datetime(x.year, x.month, x.day, x.hour, x.minute, x.second, x.microsecond) - _dt.datetime(1970, 1, 1)) // _dt.timedelta(microseconds=1)
    return (_dt.datetime(x.year, x.month, x.day, x.hour, x.minute, x.second, x.microsecond, tzinfo=x.tzinfo, fold=x.fold) - _dt.datetime(1970, 1, 1, tzinfo=UTC)) // _dt.timedelta(microseconds=1)


def unit_key(x, unit, ws):
    if unit == "second":
        return (x.year, x.month, x.day, x.hour, x.minute, x.second)
    if unit == "minute":
        return (x.year, x.month, x.day, x.hour, x.minute)
    if unit == "hour":
        return (x.year, x.month, x.day, x.hour)
    if unit == "day":
        return (x.year, x.month, x.day)
    if unit == "week":
        d = _dt.date(x.year, x.month, x.day)
        return (d - _dt.timedelta(days=(d.weekday() - ws) % 7)).toordinal()
    if unit == "month":
        return (x.year, x.month)
    if unit == "year":
        return x.year
    if unit == "decade":
        return x.year // 10
    return (x.year - 1) // 100


def intended_bounds(x, unit, ws):
    """naive wall-clock first/last microsecond of the unit containing x's fields"""
    us1 = _dt.timedelta(microseconds=1)
    n = _dt.datetime(x.year, x.month, x.day, x.hour, x.minute, x.second, x.microsecond)
    if unit == "second":
        lo = n.replace(microsecond=0); return lo, lo + _dt.timedelta(seconds=1) - us1
    if unit == "minute":
        lo = n.replace(second=0, microsecond=0); return lo, lo + _dt.timedelta(minutes=1) - us1
    if unit == "hour":
        lo = n.replace(minute=0, second=0, microsecond=0); return lo, lo + _dt.timedelta(hours=1) - us1
    d0 = n.replace(hour=0, minute=0, second=0, microsecond=0)
    if unit == "day":
        return d0, d0 + _dt.timedelta(days=1) - us1
    if unit == "week":
        lo = d0 - _dt.timedelta(days=(d0.weekday() - ws) % 7); return lo, lo + _dt.timedelta(days=7) - us1
    if unit == "month":
        lo = d0.replace(day=1); nxt = (lo + _dt.timedelta(days=32)).replace(day=1); return lo, nxt - us1
    y0 = {"year": x.year, "decade": x.year - x.year % 10, "century": (x.year - 1) // 100 * 100 + 1}[unit]
    y1 = {"year": x.year, "decade": y0 + 9, "century": y0 + 99}[unit]
    return _dt.datetime(y0, 1, 1), _dt.datetime(y1, 12, 31, 23, 59, 59, 999999)


def kf_boundary(fl):
    return fl.get("boundary_skipped_or_repeated") is True


def kf_hang(fl):
    """known finding C16-skipped-day-hang: previous()/start_of('week') never terminates when a whole calendar day
    before the value is skipped in its zone (subtract(days=1) lands in the gap and is moved forward again)"""
    return fl.get("hang") is True and fl.get("whole_day_skip_within_a_week") is True


def _day_skip_near(x):
    """is there, within the 8 days before/after x, a wall-clock day of which noon does not exist in x's zone?"""
    if x.tzinfo is None:
        return False
    d0 = _dt.datetime(x.year, x.month, x.day, 12)
    for k in range(-8, 9):
        p = d0 + _dt.timedelta(days=k)
        o0, o1 = x.tzinfo.utcoffset(p.replace(fold=0)), x.tzinfo.utcoffset(p.replace(fold=1))
        if o1 > o0 and (o1 - o0) >= _dt.timedelta(hours=23):
            return True
    return False


def run(ctx):
    import pendulum

    rng = random.Random(ctx.seed + 12)
    t0 = time.time()
    keys = ["Europe/Paris", "America/Sao_Paulo", "America/Havana", "Asia/Beirut", "Africa/Cairo", "Pacific/Apia", "Australia/Lord_Howe", "UTC", "Asia/Tehran", "America/Santiago"]
    N = int(__import__("os").environ.get("C12N", 2500)) if ctx.tier == "quick" else 120000
    fails = []
    n = 0
    for i in range(N):
        key = rng.choice(keys)
        ws = rng.randrange(7)
        we = (ws + 6) % 7
        pendulum.week_starts_at(pendulum.WeekDay(ws))
        pendulum.week_ends_at(pendulum.WeekDay(we))
        try:
            trs = [t for t in zonesweep.table_transitions(key) if t[1] != t[2]]
            if trs and rng.random() < 0.7:
                T, a, b = rng.choice(trs)
                ts = T + rng.choice((-86400, -3600, -1, 0, 1, 3599, 3600, 7200, 40000))
            else:
                ts = rng.randrange(-3 * 10 ** 9, 6 * 10 ** 9)
            x = pendulum.from_timestamp(ts, tz=key).add(microseconds=rng.choice((0, 1, 999999)))
            mode = rng.random()
            if mode < 0.1:
                x = x.naive()
            elif mode < 0.3:
                x = pendulum.datetime(x.year, x.month, x.day, x.hour, x.minute, x.second, x.microsecond, tz=key)  # constructed (fold=1) instead of converted
            for unit in UNITS:
                n += 1
                try:
                    s, e = guard.call(lambda: (x.start_of(unit), x.end_of(unit)))
                except guard.Hang:
                    fails.append({"x": x.isoformat(), "fold": x.fold, "zone": key, "unit": unit, "week_starts_at": ws, "hang": True,
                                  "whole_day_skip_within_a_week": _day_skip_near(x)})
                    continue
                us1 = _dt.timedelta(microseconds=1)
                before = s.subtract(microseconds=1) if s.tzinfo is None else pendulum.instance((_dt.datetime(1970, 1, 1, tzinfo=UTC) + _dt.timedelta(microseconds=inst(s) - 1)).astimezone(s.tzinfo))
                after = e.add(microseconds=1) if e.tzinfo is None else pendulum.instance((_dt.datetime(1970, 1, 1, tzinfo=UTC) + _dt.timedelta(microseconds=inst(e) + 1)).astimezone(e.tzinfo))
                k = unit_key(x, unit, ws)
                ok = (unit_key(s, unit, ws) == k and unit_key(e, unit, ws) == k and inst(s) <= inst(x) <= inst(e) and unit_key(before, unit, ws) != k
                      and unit_key(after, unit, ws) != k and s.start_of(unit) == s and e.end_of(unit) == e and s.timezone_name == x.timezone_name and e.timezone_name == x.timezone_name)
                if not ok:
                    # is a boundary wall time skipped or repeated in the zone?
                    amb = False
                    if x.tzinfo is not None:
                        tz = x.tzinfo
                        for b_ in (s, e):
                            nv = _dt.datetime(b_.year, b_.month, b_.day, b_.hour, b_.minute, b_.second, b_.microsecond)
                            o0, o1 = tz.utcoffset(nv.replace(fold=0)), tz.utcoffset(nv.replace(fold=1))
                            amb = amb or o0 != o1
                        # the intended boundary itself (00:00 of the day etc.) may be the skipped one
                        probes = list(intended_bounds(x, unit, ws))
                        if unit == "week":
                            # week boundaries are reached through start_of('day') + previous()/next(): every midnight of the span counts
                            lo_, _hi = probes
                            probes += [lo_ + _dt.timedelta(days=k) for k in range(-1, 9)] + [lo_ + _dt.timedelta(days=k) - us1 for k in range(-1, 9)]
                        for probe in probes:
                            amb = amb or tz.utcoffset(probe.replace(fold=0)) != tz.utcoffset(probe.replace(fold=1))
                    fails.append({"x": x.isoformat(), "fold": x.fold, "zone": key, "unit": unit, "week_starts_at": ws, "start": s.isoformat(), "end": e.isoformat(),
                                  "boundary_skipped_or_repeated": bool(amb)})
        finally:
            pendulum.week_starts_at(pendulum.MONDAY)
            pendulum.week_ends_at(pendulum.SUNDAY)
    ctx.record("units_on_real_zones", n, n, "start_of/end_of x 9 units on the real code: same unit, start <= x <= end as instants, +-1 us outside, idempotent, zone kept; values converted (fold from the tz database) "
               "and constructed, around real transitions of 10 zones incl. midnight gaps/overlaps (Sao_Paulo, Havana, Beirut, Cairo, Santiago), naive, 7 week configurations",
               failures=fails, secs=round(time.time() - t0, 1), samples=[{"x": "2018-11-04T01:00-02:00 America/Sao_Paulo (fold 0)", "unit": "day", "start": "2018-11-03T23:00 (known finding)"}])

    # Date
    fails = []
    n = 0
    for _ in range(3000 if ctx.tier == "quick" else 100000):
        d = pendulum.Date.fromordinal(rng.randrange(80000, 3652059 - 80000))
        ws = rng.randrange(7)
        pendulum.week_starts_at(pendulum.WeekDay(ws)); pendulum.week_ends_at(pendulum.WeekDay((ws + 6) % 7))
        try:
            for unit in ("day", "week", "month", "year", "decade", "century"):
                n += 1
                s, e = d.start_of(unit), d.end_of(unit)
                k = unit_key(s.__class__(d.year, d.month, d.day), unit, ws) if False else None
                dk = lambda v: unit_key(_dt.datetime(v.year, v.month, v.day), unit, ws)
                ok = dk(s) == dk(d) == dk(e) and s <= d <= e and dk(s.subtract(days=1)) != dk(d) and dk(e.add(days=1)) != dk(d) and s.start_of(unit) == s and e.end_of(unit) == e
                if not ok:
                    fails.append({"date": str(d), "unit": unit, "start": str(s), "end": str(e), "week_starts_at": ws})
        finally:
            pendulum.week_starts_at(pendulum.MONDAY); pendulum.week_ends_at(pendulum.SUNDAY)
    ctx.record("date_units", n, n, "Date.start_of/end_of x 6 units x 7 week configurations on seeded dates: same unit, ordering, the day before/after is another unit, idempotent", failures=fails,
               samples=[{"date": "2024-02-29", "unit": "month", "end": "2024-02-29"}])
