"""Bounded stand-ins for C02: the construction contracts evaluated on the real code with real zones, at
every gap and overlap taken from the tz data (sampled in the quick tier)."""
import datetime as _dt
import random
import time

from pyvc import replay, spec, zones
from pyvc.contract import REGISTRY
from pyvc.spec import M

from bounded import zonesweep

SPECIAL = ["Europe/Paris", "Australia/Lord_Howe", "Pacific/Kiritimati", "Pacific/Kwajalein", "America/Sao_Paulo", "America/Havana",
           "Europe/Amsterdam", "Asia/Kathmandu", "Pacific/Apia", "America/St_Johns", "Africa/Monrovia", "Europe/Dublin"]


def transitions(ctx, per_zone=None):
    import pendulum

    rng = random.Random(ctx.seed + 2)
    keys = list(pendulum.timezones())
    out = []
    for key in keys:
        trs = [t for t in zonesweep.table_transitions(key) if t[1] != t[2]]
        if ctx.tier == "quick" and key not in SPECIAL:
            trs = rng.sample(trs, min(len(trs), 1))
        out += [(key, t) for t in trs]
    return out


def run(ctx):
    import pendulum
    from pendulum.tz.timezone import Timezone

    t0 = time.time()
    create_case = {c.name: c for c in REGISTRY["pendulum.datetime.DateTime.create"].cases}["zone"]
    conv_case = {c.name: c for c in REGISTRY["pendulum.tz.timezone.Timezone.convert"].cases}["naive"]
    fails = []
    n = 0
    ntr = 0
    for key, (T_s, a, b) in transitions(ctx):
        tz = pendulum.timezone(key)
        ntr += 1
        lo, hi = T_s + min(a, b), T_s + max(a, b)
        for ws, us in ((lo - 1, 999999), (lo, 0), ((lo + hi) // 2, 500000), (hi - 1, 999999), (hi, 0)):
            w = zonesweep.EPOCH_W + ws * M + us
            try:
                nv = zones._from_wall(w)
            except (ValueError, OverflowError):
                continue
            for fold in (0, 1):
                for roe in (False, True):
                    n += 1
                    args = dict(cls=pendulum.DateTime, year=nv.year, month=nv.month, day=nv.day, hour=nv.hour, minute=nv.minute, second=nv.second,
                                microsecond=nv.microsecond, tz=tz, fold=fold, raise_on_unknown_times=roe)
                    try:
                        out = ("ok", pendulum.DateTime.create(**{k: v for k, v in args.items() if k != "cls"}))
                    except Exception as e:  # noqa: BLE001
                        out = ("raise", e)
                    clauses, pre = replay.eval_contract_natively(create_case, args, out)
                    bad = [l for l, ok in clauses if not ok]
                    if bad or not pre:
                        fails.append({"fn": "DateTime.create", "zone": key, "wall": str(nv), "fold": fold, "roe": roe, "failed": bad,
                                      "observed": repr(out[1])})
                    # the same through Timezone.convert on a native naive datetime
                    args2 = dict(self=tz, dt=nv.replace(fold=fold), raise_on_unknown_times=roe)
                    try:
                        out2 = ("ok", tz.convert(nv.replace(fold=fold), raise_on_unknown_times=roe))
                    except Exception as e:  # noqa: BLE001
                        out2 = ("raise", e)
                    clauses, pre = replay.eval_contract_natively(conv_case, args2, out2)
                    bad = [l for l, ok in clauses if not ok]
                    if bad or not pre:
                        fails.append({"fn": "Timezone.convert", "zone": key, "wall": str(nv), "fold": fold, "roe": roe, "failed": bad,
                                      "observed": repr(out2[1])})
    ctx.record("construction_at_real_transitions", n, ntr,
               "DateTime.create / Timezone.convert on the real code at {lo-1us, lo, mid, hi-1us, hi} of "
               + ("every gap and overlap of every zone" if ctx.tier == "thorough" else "every gap/overlap of 12 named zones (Lord_Howe, Kiritimati, Kwajalein, Sao_Paulo, Havana, ...) and one seeded transition of each other zone")
               + " x fold {0,1} x raise_on_unknown_times; the contract clauses are evaluated natively with the real ZoneInfo answering the zone functions; distinct_nontrivial counts transitions",
               failures=fails, exhaustive=ctx.tier == "thorough", secs=round(time.time() - t0, 1),
               samples=[{"zone": "Europe/Paris", "wall": "2013-03-31 02:30", "fold": 1, "result": str(pendulum.datetime(2013, 3, 31, 2, 30, tz="Europe/Paris"))}])
