"""Conformance sweep of the assumed zoneinfo contract (the (T, o) model of pyvc/zones.py) against the
real ZoneInfo objects: every table transition of every zone in tzdata, plus rule-generated transitions
located by bisection in sample years.  Bounded evidence for an *assumed* contract; never proved."""
import datetime as _dt
import time
import zoneinfo
from zoneinfo import _zoneinfo

from pyvc import spec, zones
from pyvc.engine import Obj
from pyvc.spec import DUS, M

EPOCH_W = spec.wall_us_f(1970, 1, 1, 0, 0, 0, 0)
UTC = _dt.timezone.utc
_cache = {}


def table_transitions(key):
    """[(T seconds since epoch, offset before, offset after)] from the TZif table (pure-python reader)"""
    if key in _cache:
        return _cache[key]
    z = _zoneinfo.ZoneInfo.no_cache(key)
    out = []
    prev = z._tti_before
    for t, tti in zip(z._trans_utc, z._ttinfos):
        a = int(prev.utcoff.total_seconds()) if prev is not None else int(tti.utcoff.total_seconds())
        b = int(tti.utcoff.total_seconds())
        out.append((t, a, b))
        prev = tti
    _cache[key] = out
    return out


def rule_transitions(key, years=(2038, 2100, 5000, 9998)):
    """transitions produced by the POSIX rule after the table, found by bisection on utcoffset"""
    tz = zoneinfo.ZoneInfo(key)
    out = []
    for y in years:
        pts = [_dt.datetime(y, 1, 1, tzinfo=UTC) + _dt.timedelta(days=30 * i) for i in range(13)]
        offs = [p.astimezone(tz).utcoffset() for p in pts]
        for (p0, o0), (p1, o1) in zip(zip(pts, offs), zip(pts[1:], offs[1:])):
            if o0 == o1:
                continue
            lo, hi = int(p0.timestamp()), int(p1.timestamp())
            while hi - lo > 1:
                mid = (lo + hi) // 2
                if _dt.datetime.fromtimestamp(mid, UTC).astimezone(tz).utcoffset() == o0:
                    lo = mid
                else:
                    hi = mid
            out.append((hi, int(o0.total_seconds()), int(o1.total_seconds())))
    return out


def model_zone(T_s, a, b):
    return Obj(zoneinfo.ZoneInfo, key="model", T=(EPOCH_W + T_s * M,), o=(a, b))


def probe(tz, T_s, a, b):
    """compare model answers with the real zone around one transition; returns (probes, mismatches)"""
    mz = model_zone(T_s, a, b)
    n = 0
    bad = []
    lo, hi = T_s + min(a, b), T_s + max(a, b)
    walls = {lo - 1, lo, lo + 1, (lo + hi) // 2, hi - 1, hi, hi + 1}
    for ws in walls:
        w = EPOCH_W + ws * M
        try:
            naive = zones._from_wall(w)
        except (ValueError, OverflowError):
            continue
        for fold in (0, 1):
            n += 1
            real = int(tz.utcoffset(naive.replace(fold=fold)).total_seconds())
            mod = zones.off_wall(mz, w, fold)
            if real != mod:
                bad.append({"kind": "utcoffset", "wall": str(naive), "fold": fold, "real": real, "model": mod})
    for us_ in (T_s - 1, T_s, T_s + 1, T_s + abs(a - b) - 1, T_s + abs(a - b)):
        u = EPOCH_W + us_ * M
        try:
            r = zones._from_wall(u, UTC).astimezone(tz)
        except (ValueError, OverflowError):
            continue
        n += 1
        got = (int(r.utcoffset().total_seconds()), r.fold, zones._wall_of(r))
        exp = (zones.off_utc(mz, u), zones.fold_of(mz, u), zones.render_wall(mz, u))
        if got != exp:
            bad.append({"kind": "astimezone", "utc_s": us_, "real": got, "model": exp})
    return n, bad


def run(ctx, keys=None):
    t0 = time.time()
    import pendulum

    keys = list(keys or pendulum.timezones())
    total = 0
    ntrans = 0
    fails = []
    min_gap = None
    max_change = 0
    for key in keys:
        try:
            tz = zoneinfo.ZoneInfo(key)
            trs = table_transitions(key)
        except Exception as e:  # noqa: BLE001
            fails.append({"zone": key, "error": repr(e)})
            continue
        rules = rule_transitions(key) if (ctx.tier == "thorough" or hash(key) % 8 == 0) else []
        allt = [t for t in trs if t[1] != t[2]]
        for (t0_, _, _), (t1_, _, _) in zip(allt, allt[1:]):
            g = t1_ - t0_
            if min_gap is None or g < min_gap:
                min_gap = g
        for T_s, a, b in trs + rules:
            max_change = max(max_change, abs(a - b))
            ntrans += 1
            n, bad = probe(tz, T_s, a, b)
            total += n
            for x in bad[:3]:
                x["zone"] = key
                fails.append(x)
    # isolation side condition of the k-transition model
    iso_ok = min_gap is None or min_gap >= 2 * 86400 + 2
    if not iso_ok:
        fails.append({"kind": "isolation", "closest_pair_s": min_gap})
    ctx.record("zoneinfo_model_conformance", total, ntrans,
               f"assumed ZoneInfo contract vs the real objects: {len(keys)} zones, every table transition (+ rule-generated ones in sample years) probed at "
               f"7 wall times x 2 folds (utcoffset) and 5 instants (astimezone offset/fold/fields); closest offset-changing pair {min_gap} s, largest change {max_change} s; "
               "distinct_nontrivial counts transitions", failures=fails, kind="conformance-sweep", secs=round(time.time() - t0, 1),
               samples=[{"zone": "Europe/Paris", "transition": list(table_transitions("Europe/Paris")[100])}])
