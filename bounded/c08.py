"""Bounded stand-ins for C08 on the real objects: every documented token against the standard library, localized names in
all shipped locales (exhaustive: a finite table), named to_*_string helpers, from_format round trips, defaults from 'now',
mismatches.  The numeric tokens and format()'s composition are ALSO proved (contracts/formatting.py)."""
import calendar
import datetime as _dt
import os
import random
import time
import warnings

ZONES = ["UTC", "Europe/Paris", "America/New_York", "Asia/Kolkata", "Australia/Lord_Howe", "Pacific/Apia", "America/Argentina/Buenos_Aires", "America/Indiana/Knox",
         "Etc/GMT+5", "GMT", "US/Pacific", "Africa/Porto-Novo", 19800, -12600, 0, 3600 * 14, -3600 * 12 + 60, 23 * 3600 + 59 * 60, -(23 * 3600 + 59 * 60)]


def kf_escaped_backslash(fl):
    """from_format() does not understand a backslash escape in the format ('\\\\Y YYYY'): re.escape() doubles the backslash and
    the escaped letter is then read as a token"""
    return fl.get("what") == "from_format" and "\\" in fl.get("fmt", "")


def _locales():
    import pendulum.locales as pl

    root = os.path.dirname(pl.__file__)
    return sorted(d for d in os.listdir(root) if os.path.isdir(os.path.join(root, d)) and not d.startswith("_"))


def _rand_dt(rng, pendulum, zone=None, years=(1000, 9999)):
    y = rng.choice((years[0], 1583, 1970, 1999, 2000, 2024, years[1], rng.randrange(years[0], years[1] + 1)))
    m = rng.randrange(1, 13)
    d = rng.choice((1, calendar.monthrange(y, m)[1], rng.randrange(1, calendar.monthrange(y, m)[1] + 1)))
    tz = rng.choice(ZONES) if zone is None else zone
    if isinstance(tz, int):
        tz = pendulum.FixedTimezone(tz)
    try:
        return pendulum.datetime(y, m, d, rng.choice((0, 11, 12, 13, 23, rng.randrange(24))), rng.randrange(60), rng.randrange(60),
                                 rng.choice((0, 1, 999999, 123456, 100000, 99999, rng.randrange(10 ** 6))), tz=tz)
    except (ValueError, OverflowError):
        return None


def tokens(ctx):
    import pendulum

    t0 = time.time()
    rng = random.Random(ctx.seed + 8)
    fails = []
    n = nn = 0
    N = 6000 if ctx.tier == "quick" else 400000
    for _ in range(N):
        x = _rand_dt(rng, pendulum)
        if x is None:
            continue
        off = x.utcoffset()
        if off is None or off.total_seconds() % 60:
            continue  # the property quantifies over whole-minute offsets (LMT offsets carry seconds)
        n += 1
        nat = _dt.datetime(x.year, x.month, x.day, x.hour, x.minute, x.second, x.microsecond, tzinfo=x.tzinfo, fold=x.fold)
        offm = int(off.total_seconds()) // 60
        sign = "+" if offm >= 0 else "-"
        a = abs(offm)
        ts = nat - _dt.datetime(1970, 1, 1, tzinfo=_dt.timezone.utc)
        its = ts.days * 86400 + ts.seconds
        us = x.microsecond
        exp = {"YYYY": f"{x.year}", "YY": f"{x.year % 100:02d}", "Y": f"{x.year}", "Q": str((x.month - 1) // 3 + 1), "MM": f"{x.month:02d}", "M": str(x.month), "DD": f"{x.day:02d}",
               "D": str(x.day), "DDDD": f"{nat.timetuple().tm_yday:03d}", "DDD": str(nat.timetuple().tm_yday), "d": str(nat.isoweekday() % 7), "E": str(nat.isoweekday()),
               "HH": f"{x.hour:02d}", "H": str(x.hour), "hh": f"{(x.hour % 12) or 12:02d}", "h": str((x.hour % 12) or 12), "mm": f"{x.minute:02d}", "m": str(x.minute),
               "ss": f"{x.second:02d}", "s": str(x.second), "S": f"{us // 100000}", "SS": f"{us // 10000:02d}", "SSS": f"{us // 1000:03d}", "SSSS": f"{us // 100:04d}",
               "SSSSS": f"{us // 10:05d}", "SSSSSS": f"{us:06d}", "A": "AM" if x.hour < 12 else "PM", "Z": f"{sign}{a // 60:02d}:{a % 60:02d}", "ZZ": f"{sign}{a // 60:02d}{a % 60:02d}",
               "z": x.timezone_name, "zz": nat.tzname(), "X": str(its), "x": str(its * 1000 + us // 1000), "MMMM": calendar.month_name[x.month], "MMM": calendar.month_abbr[x.month],
               "dddd": calendar.day_name[nat.weekday()], "ddd": calendar.day_abbr[nat.weekday()], "dd": calendar.day_name[nat.weekday()][:2],
               "Do": f"{x.day}{_en_ord(x.day)}", "Mo": f"{x.month}{_en_ord(x.month)}", "Qo": f"{(x.month - 1) // 3 + 1}{_en_ord((x.month - 1) // 3 + 1)}",
               "DDDo": f"{nat.timetuple().tm_yday}{_en_ord(nat.timetuple().tm_yday)}",
               "[YYYY-MM] \\D": "YYYY-MM D", "[at] HH[h]": f"at {x.hour:02d}h"}
        for tkn, e in exp.items():
            nn += 1
            try:
                g = x.format(tkn, locale="en")
            except BaseException as er:  # noqa: BLE001
                fails.append({"what": "token", "token": tkn, "dt": str(x), "error": f"{type(er).__name__}: {er}"[:100]})
                continue
            if g != e:
                fails.append({"what": "token", "token": tkn, "dt": repr(x), "got": g, "expected": e})
        # named helpers are the documented compositions
        comps = {"to_date_string": "YYYY-MM-DD", "to_time_string": "HH:mm:ss", "to_datetime_string": "YYYY-MM-DD HH:mm:ss", "to_atom_string": "YYYY-MM-DDTHH:mm:ssZ",
                 "to_w3c_string": "YYYY-MM-DDTHH:mm:ssZ", "to_rss_string": "ddd, DD MMM YYYY HH:mm:ss ZZ", "to_rfc822_string": "ddd, DD MMM YY HH:mm:ss ZZ",
                 "to_rfc1036_string": "ddd, DD MMM YY HH:mm:ss ZZ", "to_rfc1123_string": "ddd, DD MMM YYYY HH:mm:ss ZZ", "to_rfc2822_string": "ddd, DD MMM YYYY HH:mm:ss ZZ",
                 "to_rfc850_string": "dddd, DD-MMM-YY HH:mm:ss zz", "to_cookie_string": "dddd, DD-MMM-YYYY HH:mm:ss zz", "to_day_datetime_string": "ddd, MMM D, YYYY h:mm A",
                 "to_formatted_date_string": "MMM DD, YYYY"}
        for meth, fmt in comps.items():
            nn += 1
            try:
                if getattr(x, meth)() != x.format(fmt, locale="en"):
                    fails.append({"what": "helper", "helper": meth, "dt": repr(x), "got": getattr(x, meth)(), "expected": x.format(fmt, locale="en")})
            except BaseException as er:  # noqa: BLE001
                fails.append({"what": "helper", "helper": meth, "dt": repr(x), "error": f"{type(er).__name__}: {er}"[:100]})
        nn += 2
        iso = nat.isoformat()
        if x.to_rfc3339_string() != iso or x.to_iso8601_string() != (iso.replace("+00:00", "Z") if x.timezone_name == "UTC" else iso):
            fails.append({"what": "helper", "helper": "to_rfc3339_string/to_iso8601_string", "dt": repr(x), "got": [x.to_rfc3339_string(), x.to_iso8601_string()], "expected": iso})
    ctx.record("tokens_vs_stdlib", nn, nn, f"{n} seeded DateTimes (years 1000..9999, {len(ZONES)} zones / fixed offsets incl. +-23:59, whole-minute offsets) x every documented token and two escape forms "
               "== strftime / integer arithmetic / calendar names; the 16 to_*_string helpers == their documented compositions", failures=fails, secs=round(time.time() - t0, 1),
               samples=[{"token": "DDDD", "dt": "2024-12-31", "got": "366"}])


def _en_ord(n):
    if 10 <= n % 100 <= 20:
        return "th"
    return {1: "st", 2: "nd", 3: "rd"}.get(n % 10, "th")


def localized(ctx):
    import pendulum
    from pendulum.locales.locale import Locale

    t0 = time.time()
    fails = []
    n = 0
    locs = _locales()
    for loc in locs:
        lo = Locale.load(loc)
        months_w, months_a = lo.translation("months.wide"), lo.translation("months.abbreviated")
        days_w, days_a, days_s = lo.translation("days.wide"), lo.translation("days.abbreviated"), lo.translation("days.short")
        for m in range(1, 13):
            for d in range(1, 8):
                x = pendulum.datetime(2021, m, d, 15 if d % 2 else 3, 4, 5)
                dow = x.weekday()  # the locale tables are keyed 0 = Monday
                exp = {"MMMM": months_w[m], "MMM": months_a[m], "dddd": days_w[dow], "ddd": days_a[dow], "dd": days_s[dow],
                       "A": lo.translation("day_periods.pm" if x.hour >= 12 else "day_periods.am")}
                for tkn in ("MMMM", "MMM", "dddd", "ddd", "dd", "A", "Do", "Mo", "Qo", "DDDo", "do", "e", "eo", "wo", "LT", "LTS", "L", "LL", "LLL", "LLLL"):
                    n += 1
                    try:
                        g = x.format(tkn, locale=loc)
                    except BaseException as er:  # noqa: BLE001
                        fails.append({"what": "localized", "locale": loc, "token": tkn, "dt": str(x), "error": f"{type(er).__name__}: {er}"[:100]})
                        continue
                    if not isinstance(g, str) or not g or (tkn in exp and g != exp[tkn]):
                        fails.append({"what": "localized", "locale": loc, "token": tkn, "dt": str(x), "got": g, "expected": exp.get(tkn)})
                # from_format inverts the localized names
                for fmt in ("dddd D MMMM YYYY HH:mm:ss", "ddd D MMM YYYY", "dd DD MMMM YYYY", "Do MMMM YYYY", "D MMMM YYYY h:mm A"):
                    n += 1
                    try:
                        s = x.format(fmt, locale=loc)
                        r = pendulum.from_format(s, fmt, locale=loc)
                        w = x if "HH" in fmt else (x.replace(second=0) if "h:mm" in fmt else x.start_of("day"))
                        if (r.year, r.month, r.day, r.hour, r.minute, r.second) != (w.year, w.month, w.day, w.hour, w.minute, w.second):
                            fails.append({"what": "from_format-localized", "locale": loc, "fmt": fmt, "text": s, "got": str(r), "expected": str(w)})
                    except BaseException as er:  # noqa: BLE001
                        fails.append({"what": "from_format-localized", "locale": loc, "fmt": fmt, "dt": str(x), "error": f"{type(er).__name__}: {er}"[:100]})
    ctx.record("localized_all_locales", n, n, f"all {len(locs)} shipped locales x 12 months x 7 weekdays: month/day names and AM/PM == the locale tables, ordinal and L* tokens render a non-empty string, "
               "from_format(format(dt)) recovers the date for five localized formats (exhaustive over the finite name tables)", exhaustive=True, failures=fails, secs=round(time.time() - t0, 1),
               samples=[{"locale": "fr", "text": pendulum.datetime(2021, 8, 1).format("dddd D MMMM YYYY", locale="fr")}])


ROUNDTRIP_FORMATS = ["YYYY-MM-DD HH:mm:ss.SSSSSS Z", "YYYY-MM-DDTHH:mm:ss.SSSSSSZZ", "YYYYMMDD HHmmssSSSSSS ZZ", "YYYY-MM-DD HH:mm:ss.SSSSSS z", "D/M/YYYY H:m:s.SSSSSS Z",
                     "DD.MM.YYYY hh:mm:ss.SSSSSS A Z", "YYYY-DDDD HH:mm:ss.SSSSSS Z", "YYYY DDD HH:mm:ss.SSSSSS Z", "[on] YYYY-MM-DD [at] HH:mm:ss.SSSSSS Z",
                     "dddd, MMMM D, YYYY h:mm:ss.SSSSSS A Z", "ddd MMM DD YYYY HH:mm:ss.SSSSSS ZZ", "[Day] D [of month] M, YYYY HH:mm:ss.SSSSSS Z", "YYYY-MM-DD[T]HH:mm:ss.SSSSSS[Z]Z",
                     "\\Y YYYY-MM-DD HH:mm:ss.SSSSSS Z", "YYYY-MM-DD HH:mm:ss.SSS Z", "YYYY-MM-DD HH:mm:ss.S Z", "YY-MM-DD HH:mm:ss.SSSSSS Z"]


def roundtrip(ctx):
    import pendulum

    t0 = time.time()
    rng = random.Random(ctx.seed + 88)
    fails = []
    n = 0
    N = 1500 if ctx.tier == "quick" else 80000
    f7 = lambda v: (v.year, v.month, v.day, v.hour, v.minute, v.second, v.microsecond)
    for _ in range(N):
        x = _rand_dt(rng, pendulum)
        if x is None or x.utcoffset().total_seconds() % 60:
            continue
        for fmt in ROUNDTRIP_FORMATS:
            if " z" in fmt and (x.timezone_name is None or x.timezone_name[0] in "+-"):
                continue
            if fmt.startswith("YY-") and not 1969 <= x.year <= 2068:
                continue
            n += 1
            try:
                s = x.format(fmt, locale="en")
                r = pendulum.from_format(s, fmt)
            except BaseException as er:  # noqa: BLE001
                fails.append({"what": "from_format", "fmt": fmt, "dt": repr(x), "error": f"{type(er).__name__}: {er}"[:120]})
                continue
            want = x
            if "SSSSSS" not in fmt:
                k = 3 if ".SSS " in fmt else 1
                want = x.replace(microsecond=x.microsecond // 10 ** (6 - k) * 10 ** (6 - k))
            if f7(r) != f7(want) or r.utcoffset() != want.utcoffset():
                fails.append({"what": "from_format", "fmt": fmt, "text": s, "got": repr(r), "expected": repr(want)})
    # every zone name of the database survives the z token
    for name in pendulum.timezones():
        try:
            x = pendulum.datetime(2021, 6, 5, 15, 4, 5, tz=name)
        except Exception:  # noqa: BLE001
            continue
        n += 1
        fmt = "YYYY-MM-DD HH:mm:ss z"
        try:
            r = pendulum.from_format(x.format(fmt), fmt)
            if f7(r) != f7(x) or r.timezone_name != name:
                fails.append({"what": "from_format", "fmt": fmt, "zone": name, "got": repr(r)})
        except BaseException as er:  # noqa: BLE001
            fails.append({"what": "from_format", "fmt": fmt, "zone": name, "error": f"{type(er).__name__}: {er}"[:120]})
    ctx.record("from_format_roundtrip", n, n, f"from_format(dt.format(fmt), fmt) has dt's fields and offset for {len(ROUNDTRIP_FORMATS)} formats with a full date, time, fraction and offset or zone name "
               "(padded / unpadded, day-of-year, 12-hour + AM/PM, names, escaped text), seeded DateTimes in 19 zones/offsets; plus every zone name of the tz database through the z token",
               failures=fails, secs=round(time.time() - t0, 1), samples=[{"fmt": ROUNDTRIP_FORMATS[5]}])


def defaults_and_mismatch(ctx):
    import pendulum
    from pendulum.formatting.formatter import Formatter

    t0 = time.time()
    rng = random.Random(ctx.seed + 888)
    fm = Formatter()
    fails = []
    n = 0
    for _ in range(400 if ctx.tier == "quick" else 20000):
        now = _rand_dt(rng, pendulum, zone="UTC", years=(1971, 9000))
        x = _rand_dt(rng, pendulum, zone="UTC", years=(1971, 9000))
        if now is None or x is None:
            continue
        for fmt, exp in (("HH:mm", (now.year, now.month, now.day, x.hour, x.minute, 0, 0)), ("HH:mm:ss.SSSSSS", (now.year, now.month, now.day, x.hour, x.minute, x.second, x.microsecond)),
                         ("YYYY", (x.year, 1, 1, 0, 0, 0, 0)), ("YYYY-MM", (x.year, x.month, 1, 0, 0, 0, 0)), ("MM-DD", (now.year, x.month, x.day, 0, 0, 0, 0)),
                         ("DD HH", (now.year, now.month, x.day, x.hour, 0, 0, 0)), ("YYYY-MM-DD", (x.year, x.month, x.day, 0, 0, 0, 0))):
            n += 1
            try:
                if fmt == "MM-DD" and x.day > calendar.monthrange(now.year, x.month)[1]:
                    continue
                if fmt == "DD HH" and x.day > calendar.monthrange(now.year, now.month)[1]:
                    continue
                p = fm.parse(x.format(fmt), fmt, now)
                got = tuple(p[k] for k in ("year", "month", "day", "hour", "minute", "second", "microsecond"))
                if got != exp or p["tz"] is not None:
                    fails.append({"what": "defaults", "fmt": fmt, "now": str(now), "text": x.format(fmt), "got": got, "expected": exp})
            except BaseException as er:  # noqa: BLE001
                fails.append({"what": "defaults", "fmt": fmt, "now": str(now), "text": x.format(fmt), "error": f"{type(er).__name__}: {er}"[:120]})
    bad = [("2021-06-05", "YYYY/MM/DD"), ("2021-06-05 extra", "YYYY-MM-DD"), ("abc", "YYYY"), ("", "YYYY"), ("12:61", "HH:m"),
           ("2021-06-05T10:00", "YYYY-MM-DD HH:mm"), ("10:00 XM", "hh:mm A"), ("13:00 PM", "hh:mm A"), ("Foo 2021", "MMMM YYYY"), ("2021-06-05 +0200", "YYYY-MM-DD Z ZZ"),
           ("2021-06-05 Mars/Olympus", "YYYY-MM-DD z"), ("2021-13-45", "YYYY-MM-DD"), ("2021-02-30", "YYYY-MM-DD"), ("5", "[Day] DD"), ("2021", "[YYYY]")]
    for text, fmt in bad:
        n += 1
        try:
            r = pendulum.from_format(text, fmt)
            fails.append({"what": "mismatch", "fmt": fmt, "text": text, "got": repr(r), "expected": "ValueError"})
        except ValueError:
            pass
        except BaseException as er:  # noqa: BLE001
            fails.append({"what": "mismatch", "fmt": fmt, "text": text, "error": f"{type(er).__name__}: {er}"[:120], "expected": "ValueError"})
    ctx.record("from_format_defaults_and_mismatch", n, n, "Formatter.parse with an injected 'now': fields absent from the format come from 'now' (time-only), or are 1 / 0 once a larger unit is given; "
               f"{len(bad)} strings that do not match their format (or denote an impossible date) raise ValueError", failures=fails, secs=round(time.time() - t0, 1))


def run(ctx):
    warnings.simplefilter("ignore")
    tokens(ctx)
    localized(ctx)
    roundtrip(ctx)
    defaults_and_mismatch(ctx)
