"""Constructive oracle for ISO 8601 strings (C07, C13, C17): every string is rendered FROM the value it denotes,
so the expected result is known without parsing anything.  Pure stdlib: imported by the in-process harness
(pure-Python backend) and by the Rust worker alike."""
from __future__ import annotations

import datetime as _dt
import random

DATE_FORMS = ("Y-M-D", "YMD", "Y-O", "YO", "Y-Ww-D", "YWwD", "Y-Ww", "YWw", "Y-M")
TIME_STRUCTS = ("hh:mm:ss", "hhmmss", "hh:mm", "hhmm", "hh")
TZ_FORMS = ("", "Z", "+hh", "-hh", "+hhmm", "-hhmm", "+hh:mm", "-hh:mm")


def render_date(d, form):
    """(text, denoted date) - forms that leave out the day denote the first day of the month / week"""
    y = f"{d.year:04d}"
    if form == "Y-M-D":
        return f"{y}-{d.month:02d}-{d.day:02d}", d
    if form == "YMD":
        return f"{y}{d.month:02d}{d.day:02d}", d
    if form == "Y-M":
        return f"{y}-{d.month:02d}", d.replace(day=1)
    doy = d.timetuple().tm_yday
    if form == "Y-O":
        return f"{y}-{doy:03d}", d
    if form == "YO":
        return f"{y}{doy:03d}", d
    iy, iw, iwd = d.isocalendar()
    if not 1 <= iy <= 9999:
        return None, None
    iy_s = f"{iy:04d}"
    if form == "Y-Ww-D":
        return f"{iy_s}-W{iw:02d}-{iwd}", d
    if form == "YWwD":
        return f"{iy_s}W{iw:02d}{iwd}", d
    monday = d - _dt.timedelta(days=iwd - 1) if d.toordinal() - (iwd - 1) >= 1 else None
    if monday is None:
        return None, None
    if form == "Y-Ww":
        return f"{iy_s}-W{iw:02d}", monday
    if form == "YWw":
        return f"{iy_s}W{iw:02d}", monday
    raise ValueError(form)


def render_time(h, mi, s, tstruct, frac, fsep):
    """(text, (h, mi, s, us)) - structures without seconds/minutes denote zero for them; a fraction only follows seconds"""
    if tstruct == "hh":
        return f"{h:02d}", (h, 0, 0, 0)
    if tstruct in ("hh:mm", "hhmm"):
        c = ":" if ":" in tstruct else ""
        return f"{h:02d}{c}{mi:02d}", (h, mi, 0, 0)
    c = ":" if ":" in tstruct else ""
    t = f"{h:02d}{c}{mi:02d}{c}{s:02d}"
    us = 0
    if frac:
        t += fsep + frac
        us = int((frac + "000000")[:6])
    return t, (h, mi, s, us)


def render_tz(form, minutes):
    """(text, offset seconds or None); forms without minutes denote whole hours"""
    if form == "":
        return "", None
    if form == "Z":
        return "Z", 0
    sign = form[0]
    a = abs(minutes)
    hh, mm = divmod(a, 60)
    if "mm" not in form:
        mm = 0
        t = f"{sign}{hh:02d}"
    elif ":" in form:
        t = f"{sign}{hh:02d}:{mm:02d}"
    else:
        t = f"{sign}{hh:02d}{mm:02d}"
    off = (hh * 60 + mm) * 60
    return t, (-off if sign == "-" else off)


def expected(d, tm, off):
    tz = None if off is None else _dt.timezone(_dt.timedelta(seconds=off))
    if tm is None:
        return d
    if d is None:
        return _dt.time(*tm, tzinfo=tz)
    return _dt.datetime(d.year, d.month, d.day, *tm, tzinfo=tz)


def same(got, exp):
    """type, fields and UTC offset agree (tzinfo classes differ: FixedTimezone vs datetime.timezone)"""
    if isinstance(exp, _dt.datetime):
        if not isinstance(got, _dt.datetime):
            return False
    elif isinstance(exp, _dt.date):
        return type(got) in (_dt.date,) + tuple(c for c in type(got).__mro__ if c is _dt.date) and not isinstance(got, _dt.datetime) and \
            (got.year, got.month, got.day) == (exp.year, exp.month, exp.day)
    elif not isinstance(got, _dt.time):
        return False
    if got.replace(tzinfo=None) != exp.replace(tzinfo=None):
        return False
    if (got.tzinfo is None) != (exp.tzinfo is None):
        return False
    if got.tzinfo is None:
        return True
    ref = got if isinstance(got, _dt.datetime) else None
    eref = exp if isinstance(exp, _dt.datetime) else None
    return got.tzinfo.utcoffset(ref) == exp.tzinfo.utcoffset(eref)


def interesting_dates(lo_year=1583, hi_year=9999, step=1):
    """month ends, year ends, leap days, ISO week boundaries"""
    for y in range(lo_year, hi_year + 1, step):
        for m in range(1, 13):
            first = _dt.date(y, m, 1)
            yield first
            nxt = _dt.date(y + (m == 12), m % 12 + 1, 1) if not (y == 9999 and m == 12) else None
            last = (nxt - _dt.timedelta(days=1)) if nxt else _dt.date(9999, 12, 31)
            yield last
        for day in (2, 3, 4, 5, 6, 7):
            yield _dt.date(y, 1, day)
        for day in (25, 26, 27, 28, 29, 30):
            yield _dt.date(y, 12, day)


def cases(rng, dates, n_per_date=1, full_time=False):
    """yields (text, expected, descriptor) for each date in every date form x a time/fraction/offset choice"""
    for d in dates:
        for form in DATE_FORMS:
            dtext, dd = render_date(d, form)
            if dtext is None:
                continue
            yield dtext, dd, {"form": form, "date": str(dd)}
            for _ in range(n_per_date):
                ts = rng.choice(TIME_STRUCTS)
                h, mi, s = rng.choice(((0, 0, 0), (23, 59, 59), (rng.randrange(24), rng.randrange(60), rng.randrange(60))))
                frac = ""
                fsep = "."
                if ts in ("hh:mm:ss", "hhmmss") and rng.random() < 0.7:
                    k = rng.randrange(1, 10)
                    frac = "".join(rng.choice("0123456789") for _ in range(k))
                    fsep = rng.choice(".,")
                ttext, tm = render_time(h, mi, s, ts, frac, fsep)
                tzf = rng.choice(TZ_FORMS)
                ztext, off = render_tz(tzf, rng.choice((0, 1, 59, 60, 330, 23 * 60 + 59, rng.randrange(0, 24 * 60))))
                sep = rng.choice("T ")
                yield dtext + sep + ttext + ztext, expected(dd, tm, off), {"form": form, "date": str(dd), "sep": sep, "time": ts, "frac": fsep + frac if frac else "", "tz": tzf}


def time_cases(rng, n):
    """time-only strings: with the T designator in every structure; without it in the extended structures, and as
    bare 'hh' / 'hhmmss' (the only basic forms that cannot be read as a date)"""
    for _ in range(n):
        ts = rng.choice(TIME_STRUCTS)
        h, mi, s = rng.choice(((0, 0, 0), (9, 5, 7), (23, 59, 59), (rng.randrange(24), rng.randrange(60), rng.randrange(60))))
        frac, fsep = "", "."
        if ts in ("hh:mm:ss", "hhmmss") and rng.random() < 0.7:
            frac = "".join(rng.choice("0123456789") for _ in range(rng.randrange(1, 10)))
            fsep = rng.choice(".,")
        ttext, tm = render_time(h, mi, s, ts, frac, fsep)
        tzf = rng.choice(TZ_FORMS)
        ztext, off = render_tz(tzf, rng.choice((0, 1, 59, 60, 330, 23 * 60 + 59, rng.randrange(0, 24 * 60))))
        lead = rng.choice(("T", "")) if ":" in ts else "T"
        yield lead + ttext + ztext, expected(None, tm, off), {"form": "time", "lead": lead, "time": ts, "frac": fsep + frac if frac else "", "tz": tzf}
    for h, mi, s in ((0, 0, 0), (0, 12, 7), (9, 12, 7), (20, 12, 7), (23, 59, 59)):
        yield f"{h:02d}{mi:02d}{s:02d}", _dt.time(h, mi, s), {"form": "time", "lead": "", "time": "hhmmss", "bare": True}
        yield f"{h:02d}", _dt.time(h), {"form": "time", "lead": "", "time": "hh", "bare": True}


def invalid_cases():
    """impossible dates, weeks, ordinals, times: must be rejected with a ValueError"""
    out = []
    for y in (1583, 1900, 2000, 2001, 2004, 2015, 2020, 2021, 9999):
        leap = (y % 4 == 0 and y % 100 != 0) or y % 400 == 0
        long_year = _dt.date(y, 12, 28).isocalendar()[1] == 53
        ys = f"{y:04d}"
        out += [f"{ys}-02-{30 if leap else 29}", f"{ys}02{30 if leap else 29}", f"{ys}-04-31", f"{ys}-13-01", f"{ys}-00-10", f"{ys}-01-00", f"{ys}-01-32",
                f"{ys}-{367 if leap else 366}", f"{ys}{367 if leap else 366}", f"{ys}-000", f"{ys}000", f"{ys}-999",
                f"{ys}-W00", f"{ys}W00", f"{ys}-W00-1", f"{ys}-W01-0", f"{ys}W010", f"{ys}-W01-8", f"{ys}W018", f"{ys}-W54", f"{ys}-W54-1", f"{ys}-W99-9"]
        if not long_year:
            out += [f"{ys}-W53", f"{ys}-W53-1", f"{ys}W531", f"{ys}W53"]
        out += [f"{ys}-01-01T24:00:00", f"{ys}-01-01T23:60:00", f"{ys}-01-01T23:59:60", f"{ys}-01-01T99", f"{ys}0101T246060", f"{ys}-001T25:00"]
    out += ["T24", "T23:60", "T23:59:60", "24:00", "23:60:00", "0000-01-01", "0000-001", "0000-W01-1"]
    # offsets of 24 h or more / minutes above 59
    out += ["2021-06-15T12:30:15+24:00", "2021-06-15T12:30:15-2400", "2021-06-15T12:30:15+95:30", "2021-06-15T12:30:15+05:99", "20210615T123015+0560", "2021-06-15T12:30:15+24",
            "12:30:15+24:00", "T12:30-99"]
    return out


# =========================================================================================== durations (C13)
DUS = 86400 * 10 ** 6
SCALE_US = {"W": 7 * DUS, "D": DUS, "H": 3600 * 10 ** 6, "Mi": 60 * 10 ** 6, "S": 10 ** 6}
_DUR_RE = None


def dur_oracle(text):
    """independent oracle: (years, months, exact Fraction of microseconds of the W/D/H/M/S part) or None when the
    string is not a well-formed duration (designators in order, W alone, a fraction only on the last component and
    never on years/months, at least one component) or its native value does not fit a timedelta"""
    import re
    from fractions import Fraction

    global _DUR_RE
    if _DUR_RE is None:
        num = r"(\d+)(?:[.,](\d+))?"
        _DUR_RE = re.compile(rf"P(?:{num}W|(?:{num}Y)?(?:{num}M)?(?:{num}D)?(?:T(?:{num}H)?(?:{num}M)?(?:{num}S)?)?)")
    m = _DUR_RE.fullmatch(text)
    if m is None:
        return None
    g = m.groups()
    names = ("W", "Y", "Mo", "D", "H", "Mi", "S")
    comps = [(names[i], g[2 * i], g[2 * i + 1]) for i in range(7) if g[2 * i] is not None]
    if not comps:
        return None
    for i, (u, _, fr) in enumerate(comps):
        if fr is not None and (i != len(comps) - 1 or u in ("Y", "Mo")):
            return None
    years = months = 0
    tot = Fraction(0)
    for u, iv, fr in comps:
        if u == "Y":
            years = int(iv)
        elif u == "Mo":
            months = int(iv)
        else:
            tot += (int(iv) + (Fraction(int(fr), 10 ** len(fr)) if fr else 0)) * SCALE_US[u]
    native = tot + (years * 365 + months * 30) * DUS
    if not (-999999999 * DUS <= round(native) <= 999999999 * DUS + DUS - 1):
        return None
    return years, months, tot


def render_duration(comps, fsep="."):
    """comps: [(unit, integer string, fraction string or '')] in written order"""
    letter = {"Y": "Y", "Mo": "M", "W": "W", "D": "D", "H": "H", "Mi": "M", "S": "S"}
    out = "P"
    t = False
    for u, iv, fr in comps:
        if u in ("H", "Mi", "S") and not t:
            out += "T"
            t = True
        out += iv + ((fsep + fr) if fr else "") + letter[u]
    return out


def duration_cases(rng, n, max_digits=10):
    """well-formed durations: any non-empty subset of Y M D H M S (or W alone), integers of 1..max_digits digits,
    optionally a fraction of 1..9 digits on the last component"""
    units = ("Y", "Mo", "D", "H", "Mi", "S")
    for _ in range(n):
        if rng.random() < 0.12:
            chosen = ["W"]
        else:
            mask = rng.randrange(1, 64)
            chosen = [u for i, u in enumerate(units) if mask >> i & 1]
        comps = []
        for u in chosen:
            r = rng.random()
            nd = 1 if r < 0.3 else 2 if r < 0.6 else rng.randrange(1, min(6, max_digits + 1)) if r < 0.9 or max_digits < 6 else rng.randrange(6, max_digits + 1)
            iv = "".join(rng.choice("0123456789") for _ in range(nd))
            comps.append([u, iv, ""])
        last = comps[-1]
        if last[0] not in ("Y", "Mo") and rng.random() < 0.5:
            last[2] = "".join(rng.choice("0123456789") for _ in range(rng.randrange(1, 10)))
        fsep = rng.choice(".,")
        text = render_duration(comps, fsep)
        yield text, {"units": [c[0] for c in comps], "frac_unit": last[0] if last[2] else None, "frac_len": len(last[2]),
                     "max_int": max(int(c[1]) for c in comps)}


def invalid_durations():
    out = ["P1M1Y", "P1D1M", "P1D1Y", "PT1M1H", "PT1S1M", "PT1S1H", "P1.5Y", "P1,5Y", "P1.5M", "P1Y1.5M", "P1.5Y1D", "P1.5DT1H", "P1.5DT0H", "PT1.5H1M", "PT1.5H1S",
           "PT1.5M1S", "P1W1D", "P1WT1H", "P1W1Y", "P1Y1W", "P1.5W1D", "P1000000000D", "P142857143W", "P4294967296D", "P4294967297Y", "P1Y4294967296M", "PT99999999999999999999S",
           "P99999999999D", "P10000000000Y", "P2739727Y", "P1.D", "P.5D", "P1.W", "PT1.S", "P-1D", "P1DT-1H", "P1d", "p1D", "P1D ", " P1D", "P1DT1H1D", "PTT1H", "P1YM", "P1H",
           "PT1D", "PT1Y", "P1S"]
    return out


def interval_cases(rng, n):
    """(text, start fields, offset seconds or None, duration text or None, end fields/offset) for the three forms"""
    import datetime as _dt

    def rand_dt():
        y = rng.choice((1999, 2000, 2020, 2024, rng.randrange(1600, 9000)))
        d = _dt.datetime(y, rng.randrange(1, 13), rng.choice((1, 15, 28, rng.randrange(1, 29))), rng.randrange(24), rng.randrange(60), rng.randrange(60),
                         rng.choice((0, 0, 500000, rng.randrange(10 ** 6))))
        off = rng.choice((None, 0, 0, 3600, -3600, 19800, -34200, rng.randrange(-1439, 1440) * 60))
        return d, off

    def render(d, off):
        s = d.strftime("%Y-%m-%dT%H:%M:%S") if d.year >= 1000 else None
        if d.microsecond:
            s += f".{d.microsecond:06d}"
        if off is None:
            return s
        if off == 0 and rng.random() < 0.5:
            return s + "Z"
        sign = "-" if off < 0 else "+"
        a = abs(off) // 60
        return s + f"{sign}{a // 60:02d}:{a % 60:02d}"

    for _ in range(n):
        a, oa = rand_dt()
        form = rng.choice(("start/end", "start/duration", "duration/end"))
        if form == "start/end":
            b, ob = rand_dt()
            yield f"{render(a, oa)}/{render(b, ob)}", {"form": form, "start": (a, oa), "end": (b, ob), "duration": None}
        else:
            dtext, dd = next(duration_cases(rng, 1, max_digits=3))
            if form == "start/duration":
                yield f"{render(a, oa)}/{dtext}", {"form": form, "start": (a, oa), "end": None, "duration": dtext, "frac_unit": dd["frac_unit"]}
            else:
                yield f"{dtext}/{render(a, oa)}", {"form": form, "start": None, "end": (a, oa), "duration": dtext, "frac_unit": dd["frac_unit"]}
