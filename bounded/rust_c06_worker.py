"""Differential: Rust precise_diff vs the Python precise_diff; prints one JSON line."""
import datetime
import json
import random
import sys

payload = json.loads(sys.stdin.read())
import pendulum
import pendulum._helpers as py
import pendulum._pendulum as rs

rng = random.Random(payload["seed"])
fails = []
n = 0
years = [1, 4, 100, 400, 1900, 1999, 2000, 2001, 2004, 2023, 2024, 2100, 9996, 9999]
def tup(r):
    return (r.years, r.months, r.days, r.hours, r.minutes, r.seconds, r.microseconds, r.total_days)
def cmp(a, b):
    global n
    n += 1
    try:
        x = tup(py.precise_diff(a, b))
    except Exception as e:  # noqa: BLE001
        x = repr(type(e))
    try:
        y = tup(rs.precise_diff(a, b))
    except Exception as e:  # noqa: BLE001
        y = repr(type(e))
    if x != y:
        fails.append({"d1": str(a), "d2": str(b), "python": x, "rust": y})
# every (start month/day, end month/day) x leap patterns x time-of-day borrow
times = [(0, 0, 0, 0), (23, 59, 59, 999999), (12, 0, 0, 1)]
pairs = [(y1, y2) for y1 in years for y2 in years if abs(y1 - y2) <= 5 or rng.random() < 0.05]
days = [1, 2, 15, 27, 28, 29, 30, 31]
for (y1, y2) in pairs:
    if not payload["full"] and rng.random() < 0.7:
        continue
    for m1 in range(1, 13):
        for m2 in range(1, 13):
            for d1 in days:
                for d2 in days:
                    try:
                        a = datetime.date(y1, m1, d1)
                        b = datetime.date(y2, m2, d2)
                    except ValueError:
                        continue
                    if rng.random() < (1.0 if payload["full"] else 0.15):
                        cmp(a, b)
                    if rng.random() < 0.03:
                        t1, t2 = rng.choice(times), rng.choice(times)
                        cmp(datetime.datetime(y1, m1, d1, *t1), datetime.datetime(y2, m2, d2, *t2))
# near-equal endpoints: borrow chains decided by the smallest units (both orders)
for _ in range(payload.get("n_near", 4000)):
    base = datetime.datetime(rng.choice(years[3:-2]), rng.randrange(1, 13), rng.randrange(1, 29), rng.randrange(24), rng.randrange(60), rng.randrange(60), rng.randrange(10 ** 6))
    for delta in (1, 400, 999999, 10 ** 6, 59 * 10 ** 6 + 5, 3600 * 10 ** 6 - 1, 86400 * 10 ** 6 - 1, 86400 * 10 ** 6 + 1):
        other = base + datetime.timedelta(microseconds=delta)
        cmp(base, other)
        cmp(other, base)
    if rng.random() < 0.3:
        tz = pendulum.timezone(rng.choice(["Europe/Paris", "Asia/Tokyo", "UTC"]))
        a = base.replace(tzinfo=tz)
        b = (base + datetime.timedelta(microseconds=rng.choice((1, 400, 999999)))).replace(tzinfo=tz)
        cmp(a, b)
        cmp(b, a)
# zones
zs = ["Europe/Paris", "America/New_York", "UTC", "Asia/Tokyo", "Australia/Lord_Howe"]
for _ in range(payload["n_zone"]):
    za, zb = rng.choice(zs), rng.choice(zs)
    ta, tb = rng.randrange(0, 2 * 10 ** 9), rng.randrange(0, 2 * 10 ** 9)
    a = pendulum.from_timestamp(ta, tz=za)
    b = pendulum.from_timestamp(tb, tz=zb)
    na = datetime.datetime(a.year, a.month, a.day, a.hour, a.minute, a.second, a.microsecond, tzinfo=a.tzinfo)
    nb = datetime.datetime(b.year, b.month, b.day, b.hour, b.minute, b.second, b.microsecond, tzinfo=b.tzinfo)
    cmp(na, nb)
print(json.dumps({"evaluations": n, "failures": fails[:30], "n_fail": len(fails), "backend_file": rs.__file__}))
