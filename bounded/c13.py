"""Bounded stand-ins for C13: constructive-oracle sweeps of duration and interval parsing on both backends.
The pure-Python duration parser is ALSO proved per shape (contracts/parsing.py); the compiled parser is only checked here."""


# ---- known-finding regions: the compiled parser only
def kf_rust_fraction_precision(fl):
    """fractions of W / D are carried down with the minutes rounded to a whole number, fractions of H with the seconds
    rounded: the result is off by up to 30 s (W, D) or 0.5 s (H)"""
    if not (fl.get("backend") == "rust" and fl.get("kind") == "wrong" and not fl.get("wrapped") and fl.get("ym_ok")):
        return False
    u, err = fl.get("frac_unit"), fl.get("abs_err_us", 1e18)
    return (u in ("W", "D") and err <= 30_000_001) or (u == "H" and err <= 500_001)


def kf_rust_u32_wrap(fl):
    """integers are accumulated in u32 without overflow checks: a component >= 2**32 wraps (and the wrapped value may then
    escape as OverflowError from timedelta)"""
    return fl.get("backend") == "rust" and fl.get("wrapped") is True and fl.get("kind") in ("wrong", "accepted-invalid", "escaped", "rejected")


def kf_rust_overflow_escapes(fl):
    """a duration that does not fit a timedelta escapes as OverflowError (the Python wrapper builds the Duration outside the
    ValueError-only fallback chain)"""
    return fl.get("backend") == "rust" and fl.get("kind") == "escaped" and "OverflowError" in fl.get("error", "")


def kf_rust_empty_fraction(fl):
    """'P1.W', 'P1.D', 'PT1.S': a separator with no fraction digits is accepted"""
    import re

    return fl.get("backend") == "rust" and fl.get("kind") == "accepted-invalid" and re.search(r"\d[.,][A-Z]", fl.get("text", "")) is not None


def kf_rust_weeks_with_time(fl):
    """'P1WT1H', 'P1W1Y': weeks combined with a time part or followed by years are accepted"""
    import re

    return fl.get("backend") == "rust" and fl.get("kind") == "accepted-invalid" and re.fullmatch(r"P\d+(?:[.,]\d+)?W.+", fl.get("text", "")) is not None


def kf_rust_interval_fraction(fl):
    """intervals inherit the compiled parser's coarse W / D / H fractions"""
    return fl.get("backend") == "rust" and fl.get("kind") == "wrong" and fl.get("form") in ("start/duration", "duration/end") and fl.get("frac_unit") in ("W", "D", "H")


def kf_float_decomposition(fl):
    """either backend: parser.py adds the duration component by component, and Duration derives its components from float
    seconds - from 2**32 s (about 136 years) on, the microsecond component can be off by one (same defect as C10-float-paths)"""
    if not (fl.get("kind") == "wrong" and fl.get("form") in ("start/duration", "duration/end") and fl.get("big_duration") is True):
        return False
    # a double carries seconds with 53 bits: from 2**32 s on its grid is coarser than a microsecond (4 us at 1000 years); the
    # decomposition error is a few grid steps
    return fl.get("err_us", 10 ** 9) <= max(1, fl.get("duration_s", 0) * 2.0 ** -50 * 10 ** 6)


def run(ctx):
    from bounded.c07 import run_both_backends

    run_both_backends(ctx, ["dur_worker.py"], seed_shift=13)
