"""Bounded stand-in for C18 on the real functions."""
import random
import string
import time


def run(ctx):
    import pendulum
    from pendulum.locales.locale import Locale

    from contracts.humans import LOCALES

    t0 = time.time()
    rng = random.Random(ctx.seed + 18)
    fails = []
    n = 0
    counts = list(range(0, 32)) + [99, 100, 101, 102, 111, 121, 1000] if ctx.tier == "quick" else list(range(0, 1001))
    base = pendulum.datetime(2000, 1, 1, 0, 0, 0)
    units = ("years", "months", "weeks", "days", "hours", "minutes", "seconds")
    import importlib

    for loc in LOCALES:
        lo = Locale.load(loc)
        # independent oracle for the plural class and the phrase: the rule and the templates of the locale's own data module,
        # read directly (not through the Locale object).  Counts ascend, so a class remembered for 1 or 2 would resurface at 101, 102.
        data = importlib.import_module(f"pendulum.locales.{loc.replace('-', '_')}.locale").locale
        rule, utempl = data["plural"], data["translations"]["units"]
        single = {"years": 10 ** 9, "months": 10 ** 9, "weeks": 10 ** 9, "days": 7, "hours": 24, "minutes": 60, "seconds": 60}
        for c in counts:
            n += 1
            try:
                if lo.plural(c) != rule(c):
                    fails.append({"locale": loc, "what": "plural class", "count": c, "got": lo.plural(c), "expected": rule(c)})
                for unit in units:
                    if 0 < c < single[unit]:
                        exp = utempl[unit[:-1]][rule(c)].format(c)
                        got = pendulum.duration(**{unit: c}).in_words(locale=loc)
                        got2 = pendulum.format_diff(pendulum.duration(**{unit: c}) and base.diff(base.add(**{unit: c})), True, True, loc) if unit != "years" or c < 7000 else exp
                        if got != exp or (got2 != exp and unit not in ("days", "weeks", "months", "years") and not (unit == "seconds" and c <= 10)):  # (<= 10 s is "a few seconds")
                            fails.append({"locale": loc, "what": "phrase of count and unit", "unit": unit, "count": c, "got": [got, got2], "expected": exp})
            except Exception as e:  # noqa: BLE001
                fails.append({"locale": loc, "what": "plural oracle", "count": c, "error": f"{type(e).__name__}: {e}"})
            try:
                s = lo.ordinalize(c)
                assert isinstance(s, str) and s.startswith(str(c))
                p = lo.plural(c)
                assert isinstance(p, str)
            except Exception as e:  # noqa: BLE001
                fails.append({"locale": loc, "what": "ordinalize/plural", "count": c, "error": f"{type(e).__name__}: {e}"})
            for unit in units:
                if unit == "years" and c > 7000:
                    continue
                other = base.add(**{unit: c})
                for (a, b) in ((base, other), (other, base)):
                    for ref in (None, b):
                        for absolute in (False, True):
                            n += 1
                            try:
                                if ref is None:
                                    with_now = pendulum.format_diff(a.diff(b), True, absolute, loc)
                                    txt = with_now
                                else:
                                    txt = a.diff_for_humans(b, absolute=absolute, locale=loc)
                                ok = isinstance(txt, str) and len(txt) > 0 and "{" not in txt and "}" not in txt
                                if not ok:
                                    fails.append({"locale": loc, "what": "diff_for_humans", "unit": unit, "count": c, "text": txt})
                            except Exception as e:  # noqa: BLE001
                                fails.append({"locale": loc, "what": "diff_for_humans", "unit": unit, "count": c, "absolute": absolute, "error": f"{type(e).__name__}: {e}"})
                n += 1
                try:
                    d = pendulum.duration(**{unit: c})
                    w1 = d.in_words(locale=loc)
                    w2 = (other - base).in_words(locale=loc)
                    w3 = (-d).in_words(locale=loc)
                    for w in (w1, w2, w3):
                        assert isinstance(w, str) and w and "{" not in w
                except Exception as e:  # noqa: BLE001
                    fails.append({"locale": loc, "what": "in_words", "unit": unit, "count": c, "error": f"{type(e).__name__}: {e}"})
        # locale-dependent format tokens: 12 months x 7 weekdays
        for m in range(1, 13):
            for d in range(1, 8):
                n += 1
                x = pendulum.datetime(2021, m, d, 15, 4, 5)
                try:
                    for tok in ("dddd", "ddd", "dd", "MMMM", "MMM", "Do", "A", "LT", "LTS", "L", "LL", "LLL", "LLLL", "Mo", "DDDo", "Qo"):
                        r = x.format(tok, locale=loc)
                        assert isinstance(r, str) and r
                except Exception as e:  # noqa: BLE001
                    fails.append({"locale": loc, "what": "format tokens", "month": m, "day": d, "error": f"{type(e).__name__}: {e}"})
    # direction and magnitude on random instants
    for _ in range(3000 if ctx.tier == "quick" else 100000):
        n += 1
        a = base.add(seconds=rng.randrange(0, 10 ** 9))
        b = base.add(seconds=rng.randrange(0, 10 ** 9))
        if a == b:
            continue
        t = a.diff_for_humans(b, locale="en")
        if (a < b) != t.endswith("before") or (a > b) != t.endswith("after"):
            fails.append({"what": "direction", "a": str(a), "b": str(b), "text": t})
    ctx.record("humans_all_locales", n, n, "diff_for_humans/format_diff x {now, other} x {earlier, later} x absolute, Duration/Interval.in_words (incl. negative), ordinalize, plural, 16 locale format tokens x 12 months x 7 weekdays, "
               f"the plural class and the single-unit phrase against the locale's own data module (rule and template read directly), "
               f"for all {len(LOCALES)} locales x 7 units x counts " + ("0..1000" if ctx.tier != "quick" else "0..31, 99..102, 111, 121, 1000") + ": a non-empty string, no leftover placeholder, no exception; direction on random instants",
               failures=fails, exhaustive=ctx.tier != "quick", secs=round(time.time() - t0, 1), samples=[{"locale": "fr", "text": pendulum.datetime(2000, 1, 1).diff_for_humans(pendulum.datetime(2000, 1, 4), locale="fr")}])
