"""Bounded stand-ins for C17: totality fuzz of pendulum.parse on both backends + backend agreement on every string that
both accept.  (The pure-Python path is also proved per string shape: contracts/parsing.py.)"""
import json
import os
import re
import shutil
import tempfile
import threading
import time

ROOT = os.path.dirname(os.path.dirname(os.path.abspath(__file__)))


def _dur_fraction_unit(text):
    m = re.search(r"\d[.,]\d+([WDHMS])", text)
    if not m or "P" not in text:
        return None
    u = m.group(1)
    if u == "M":
        return "Mi" if "T" in text[:m.start()] else "Mo"
    return u


def kf_rust_duration_values(fl):
    """both backends accept, values differ because of the compiled parser's coarse W / D / H fractions (C13-rust-fraction-precision)
    or u32 wrap-around (C13-rust-u32-wrap)"""
    if fl.get("kind") != "backends-differ":
        return False
    t = fl.get("text", "")
    return "P" in t and (_dur_fraction_unit(t) in ("W", "D", "H") or any(int(x) >= 2 ** 32 for x in re.findall(r"\d+", t)))


def kf_dateutil_unusable_offset(fl):
    """strict=False: dateutil accepts '+205:30'; the DateTime built from its tzoffset has an offset of 24 h or more and its
    utcoffset() raises"""
    return fl.get("kind") == "bad-type" and "unusable DateTime" in (fl.get("error") or "") and (fl.get("options") or {}).get("strict") is False


def kf_rust_unusable_offset(fl):
    """compiled parser accepts UTC offsets of 24 h or more ('T12-30:15' is read as 12:00 -30:15): the DateTime's utcoffset() raises"""
    return fl.get("backend") == "rust" and fl.get("kind") == "bad-type" and "unusable DateTime" in (fl.get("error") or "") and \
        (fl.get("options") or {}).get("strict") is not False


def kf_slash_date_vs_interval(fl):
    """'2021/0615': the compiled parser reads '/' as a date separator (2021-06-15) while the pure-Python chain tries the interval
    form first (year 2021 / year 0615)"""
    return fl.get("kind") == "backends-differ" and "/" in fl.get("text", "") and fl.get("python", [None])[0] == "Interval" and fl.get("rust", [None])[0] != "Interval"


def kf_rust_wraparound(fl):
    """the compiled parser accumulates numbers in u32 without overflow checks (same defect as C13-rust-u32-wrap)"""
    return fl.get("backend") == "rust" and fl.get("kind") == "wrapped-or-escaped" and fl.get("outcome") == "ok"


def run(ctx):
    from bounded import rustdiff
    from bounded.c07 import _worker

    repo = os.environ.get("PYVC_REPO", "/repo")
    timeout = 1500 if ctx.tier == "quick" else 8 * 3600
    scratch = tempfile.mkdtemp(prefix="pyvc_fuzz_")
    results = {}
    try:
        def py():
            env = dict(os.environ, PENDULUM_EXTENSIONS="0", PYTHONPATH=f"{os.path.join(repo, 'src')}:{ROOT}", PYTHONHASHSEED="0")
            try:
                results["python"] = _worker("fuzz_worker.py", env, dict(backend="python", seed=ctx.seed + 17, tier=ctx.tier, result_file=os.path.join(scratch, "py.jsonl")), timeout)
            except Exception as e:  # noqa: BLE001
                results["python"] = e

        th = threading.Thread(target=py)
        th.start()
        with rustdiff.rust_overlay(repo) as (ov, info):
            if ov is None:
                results["rust"] = RuntimeError(f"rust backend could not be rebuilt: {info}")
            else:
                env = dict(os.environ, PENDULUM_EXTENSIONS="1", PYTHONPATH=f"{ov}:{ROOT}", PYTHONHASHSEED="0")
                try:
                    results["rust"] = _worker("fuzz_worker.py", env, dict(backend="rust", seed=ctx.seed + 17, tier=ctx.tier, result_file=os.path.join(scratch, "rs.jsonl")), timeout)
                    results["rust"]["build"] = info
                except Exception as e:  # noqa: BLE001
                    results["rust"] = e
        th.join()
        for backend in ("python", "rust"):
            out = results[backend]
            if isinstance(out, Exception):
                ctx.run.errors.append(f"{backend} fuzz did not run: {out}")
                continue
            for it in out["items"]:
                ctx.record(it["name"], it["evaluations"], it["distinct"], it["rule"], failures=it["failures"], kind="rust-differential" if backend == "rust" else "stand-in",
                           secs=it.get("secs"), samples=[{"backend": out["module"]}] + [{"class": c} for c in it.get("failure_classes", [])[:4]])
        if not any(isinstance(r, Exception) for r in results.values()):
            t0 = time.time()
            py_res = {}
            for line in open(os.path.join(scratch, "py.jsonl")):
                text, oi, kind, val = json.loads(line)
                py_res[(text, oi)] = (kind, val)
            n = both = 0
            fails = []
            classes = {}
            only = {"python-only": 0, "rust-only": 0}
            for line in open(os.path.join(scratch, "rs.jsonl")):
                text, oi, kind, val = json.loads(line)
                if text == "now":
                    continue
                n += 1
                p = py_res.get((text, oi))
                if p is None:
                    only["rust-only"] += 1
                    continue
                both += 1
                if p[1] != val:
                    fl = {"text": text, "options_index": oi, "kind": "backends-differ", "python": p[1], "rust": val}
                    key = (fl["python"][0], _dur_fraction_unit(text), "P" in text)
                    classes[key] = classes.get(key, 0) + 1
                    if classes[key] <= 6 and len(fails) < 80:
                        fails.append(fl)
            only["python-only"] = len([k for k in py_res if k[0] != "now"]) - both
            n += only["python-only"]
            ctx.record("backends_agree_when_both_accept", n, both, f"for every fuzzed string (options {{}}, {{exact}}) that BOTH backends accept ({both} of the {n} accepted by at least one; accepted by one only: {only}) "
                       "the two results have the same type, fields, offset / years, months and native value", failures=fails, kind="rust-differential",
                       secs=round(time.time() - t0, 1), samples=[{"class": [list(map(str, k)), v]} for k, v in list(classes.items())[:5]])
    finally:
        shutil.rmtree(scratch, ignore_errors=True)
