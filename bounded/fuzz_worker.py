"""Totality fuzz of pendulum.parse (C17) for ONE backend (subprocess; environment selects the backend):
every single (quick: + seeded double) character edit of valid C07/C13 forms over the alphabet [0-9:TZW/P+-., YMDHS],
truncations, concatenations, random and non-ASCII strings, x option combinations.

Outcome classes:  ok (supported type) | ValueError | escaped (any other exception) | bad-type.
The outcomes are written to a result file so that the parent can compare the two backends string by string.
"""
import datetime as _dt
import itertools
import json
import os
import random
import sys
import time
import warnings

warnings.simplefilter("ignore")
sys.path.insert(0, os.path.dirname(os.path.dirname(os.path.abspath(__file__))))
payload = json.loads(sys.stdin.read())

import pendulum
from pendulum.parsing import parse_iso8601

backend = "rust" if parse_iso8601.__module__ == "pendulum._pendulum" else "python"
if payload["backend"] != backend:
    print(json.dumps({"error": f"expected backend {payload['backend']}, loaded {parse_iso8601.__module__}"}))
    sys.exit(0)
rng = random.Random(payload["seed"])
tier = payload["tier"]
ALPH = "0123456789:TZW/P+-., YMDHS"
SEEDS = ["2021-06-15", "20210615", "2021-166", "2021166", "2021-W24-2", "2021W242", "2021-W24", "2021W24", "2021-06", "2021", "12:30:15", "T12:30:15", "123015", "12:30", "12", "T1230",
         "2021-06-15T12:30:15", "2021-06-15 12:30:15.123456", "2021-06-15T12:30:15Z", "2021-06-15T12:30:15+05:30", "20210615T123015-0530", "2021-06-15T12,5", "2021-12-31T23:59:59.999999999+23:59",
         "P1Y2M3DT4H5M6S", "P1W", "PT1.5S", "P1.5D", "P1Y", "PT1H", "P3D", "P999999999D", "PT0.000001S",
         "2021-06-15T12:30:15Z/2021-07-15T12:30:15Z", "2021-06-15T12:30:15Z/P1Y2M", "P1DT2H/2021-06-15T12:30:15Z", "2021-06-15/2021-07-15", "2021-06-15/P1D", "P1D/2021-06-15", "12:00/13:00",
         "9999-12-31/P1D", "P1D/0001-01-01",
         "2021/06/15", "2021:06:15 2:3:4", "2:3", "2021/06/15 12:30:15.5", "now"]
OPTS = [{}, {"exact": True}, {"strict": False}, {"tz": "Europe/Paris"}, {"tz": "America/New_York", "exact": True}, {"day_first": True, "strict": False}, {"year_first": False, "strict": False},
        {"tz": None}]
SUPPORTED = (pendulum.DateTime, pendulum.Date, pendulum.Time, pendulum.Duration, pendulum.Interval)


def edits(s):
    yield s
    for i in range(len(s) + 1):
        for c in ALPH:
            yield s[:i] + c + s[i:]
            if i < len(s):
                yield s[:i] + c + s[i + 1:]
        if i < len(s):
            yield s[:i] + s[i + 1:]
    for i in range(len(s)):
        yield s[:i]


def outcome(text, opts):
    try:
        r = pendulum.parse(text, **opts)
    except ValueError as e:
        return "ValueError", None
    except BaseException as e:  # noqa: BLE001
        return "escaped", f"{type(e).__name__}: {e}"[:120]
    if not isinstance(r, SUPPORTED):
        return "bad-type", type(r).__name__
    try:
        return "ok", summary(r)
    except BaseException as e:  # noqa: BLE001 - a returned value whose own accessors raise is not a supported value
        return "bad-type", f"unusable {type(r).__name__}: {type(e).__name__}: {e}"[:120]


def summary(r):
    if isinstance(r, pendulum.Interval):
        return ["Interval", summary(r.start), summary(r.end)]
    if isinstance(r, pendulum.Duration):
        return ["Duration", r.years, r.months, _dt.timedelta.days.__get__(r), _dt.timedelta.seconds.__get__(r), _dt.timedelta.microseconds.__get__(r)]
    if isinstance(r, pendulum.DateTime):
        off = r.utcoffset()
        return ["DateTime", r.year, r.month, r.day, r.hour, r.minute, r.second, r.microsecond, None if off is None else off.total_seconds()]
    if isinstance(r, pendulum.Date):
        return ["Date", r.year, r.month, r.day]
    return ["Time", r.hour, r.minute, r.second, r.microsecond]


def corpus():
    seen = set()
    for s in SEEDS:
        for m in edits(s):
            if m not in seen:
                seen.add(m)
                yield m
    # double edits (seeded), concatenations, random strings
    n2 = 60000 if tier == "quick" else 1000000
    for _ in range(n2):
        s = rng.choice(SEEDS)
        for _k in range(2):
            i = rng.randrange(len(s) + 1)
            c = rng.choice(ALPH)
            r = rng.random()
            s = s[:i] + c + s[i:] if r < 0.4 else (s[:i] + c + s[i + 1:] if r < 0.8 else s[:i] + s[i + 1:])
        if s not in seen:
            seen.add(s)
            yield s
    for a, b in itertools.product(SEEDS[:30], repeat=2):
        for sep in ("", " ", "/", "T"):
            s = a + sep + b
            if s not in seen:
                seen.add(s)
                yield s
    exotic = "٠١٢０１²½−–​é中퟿\x00\n\t"
    for _ in range(20000 if tier == "quick" else 300000):
        k = rng.randrange(0, 24)
        pool = ALPH + (exotic if rng.random() < 0.3 else "") + ("abcxyz" if rng.random() < 0.2 else "")
        s = "".join(rng.choice(pool) for _ in range(k))
        if s not in seen:
            seen.add(s)
            yield s
    # digits that are not ASCII but satisfy \d / str.isdigit
    for s in ("٢٠٢١-06-15", "2021-٠٦-15", "P١D", "２０２１-06-15T12:30:15", "12:٣٠", "PT1.٥S", "2021-W٢٤-2"):
        if s not in seen:
            seen.add(s)
            yield s


t0 = time.time()
n = 0
counts = {}
fails = []
classes = {}
res_path = payload["result_file"]
with open(res_path, "w") as out:
    for text in corpus():
        opts_list = OPTS if len(text) <= 12 or n % 7 == 0 else OPTS[:2]
        for oi, opts in enumerate(opts_list):
            n += 1
            kind, detail = outcome(text, opts)
            counts[kind] = counts.get(kind, 0) + 1
            if oi < 2 and kind == "ok":
                out.write(json.dumps([text, oi, kind, detail], ensure_ascii=True) + "\n")   # accepted strings only: compared across backends
            if kind in ("escaped", "bad-type"):
                key = (kind, (detail or "").split(":")[0], opts.get("strict") is False, "tz" in opts)
                classes[key] = classes.get(key, 0) + 1
                if classes[key] <= 5 and len(fails) < 60:
                    fails.append({"text": text, "options": opts, "backend": backend, "kind": kind, "error": detail})
# ---- no silently wrapped-around numbers: 11-digit (and longer) components are either rejected or exact
from bounded import isogen

t1 = time.time()
wfails = []
wn = 0
for big in (2 ** 32, 2 ** 32 + 1, 2 ** 33 + 5, 99999999999, 10 ** 19 + 3, 2 ** 64 + 7):
    for tmpl in ("P{}Y", "P{}M", "P{}W", "P{}D", "PT{}H", "PT{}M", "PT{}S", "P1Y{}M", "P{}DT1S", "PT1H{}S", "PT0.{}S", "P1DT{}.5S"):
        text = tmpl.format(big)
        for full in (text, f"2021-06-15T00:00:00Z/{text}", f"{text}/2021-06-15T00:00:00Z"):
            wn += 1
            kind, detail = outcome(full, {})
            if kind == "ValueError":
                continue
            exp = isogen.dur_oracle(text)
            ok = False
            if kind == "ok" and exp is not None and detail[0] == "Duration":
                native = (detail[3] * 86400 + detail[4]) * 10 ** 6 + detail[5]
                ok = detail[1] == exp[0] and detail[2] == exp[1] and abs(native - (exp[2] + (exp[0] * 365 + exp[1] * 30) * isogen.DUS)) * 2 <= 1
            elif kind == "ok" and exp is not None and detail[0] == "Interval":
                ok = True  # endpoints are checked by C13's interval sweep; here only wrap-around of huge numbers matters
            if not ok:
                wfails.append({"text": full, "backend": backend, "kind": "wrapped-or-escaped", "outcome": kind, "detail": detail})
items_extra = [{"name": f"{backend}.no_wraparound", "evaluations": wn, "distinct": wn, "exhaustive": False, "failures": wfails[:40],
                "rule": "durations (alone and inside intervals) with one component of 2^32, 2^32+1, 2^33+5, 99999999999, 10^19+3, 2^64+7: rejected with a ValueError or parsed to the exact value, "
                        "never a wrapped-around value and never another exception", "secs": round(time.time() - t1, 1)}]

print(json.dumps({"backend": backend, "module": parse_iso8601.__module__, "items": items_extra + [{
    "name": f"{backend}.totality_fuzz", "evaluations": n, "distinct": n, "exhaustive": False, "failures": fails,
    "failure_classes": [{"class": list(k), "count": v} for k, v in classes.items()],
    "rule": f"every single-character insertion/replacement/deletion over [0-9:TZW/P+-., YMDHS] and every truncation of {len(SEEDS)} valid date/time/duration/interval/common forms, seeded double edits, "
            "pairwise concatenations, random strings incl. non-ASCII digits, x options {exact, strict, tz, day_first, year_first}: pendulum.parse returns a DateTime/Date/Time/Duration/Interval or "
            f"raises a ValueError, never anything else; outcomes {counts}", "secs": round(time.time() - t0, 1)}]}, default=str))
