"""Bounded stand-ins for C06: Rust precise_diff vs the proved Python one; Interval identities on real objects."""
import datetime as _dt
import os
import random
import time


def kf_full_month(fl):
    return fl.get("full_month_arm") is True


def kf_ambiguous_endpoint(fl):
    """known finding C06-ambiguous-endpoint-fold: an endpoint on a repeated wall time (its later occurrence) is rebuilt by
    Interval.__init__ as a native datetime WITHOUT its fold, so precise_diff decomposes the earlier occurrence"""
    return fl.get("clause") == "differently_named_zones_decomposed_in_UTC" and fl.get("ambiguous_endpoint") is True


def interval_identities(ctx):
    import pendulum
    from pendulum._helpers import is_leap

    rng = random.Random(ctx.seed + 6)
    N = 15000 if ctx.tier == "quick" else 600000
    fails = []
    n = 0
    DIM = (31, 28, 31, 30, 31, 30, 31, 31, 30, 31, 30, 31)
    def dim(y, m):
        return DIM[m - 1] + (1 if m == 2 and is_leap(y) else 0)
    for _ in range(N):
        y1 = rng.choice((2019, 2020, 2021, 2024, rng.randrange(2, 9990)))
        y2 = y1 + rng.choice((0, 0, 1, 1, 4, rng.randrange(0, 8)))
        try:
            a = pendulum.datetime(y1, rng.randrange(1, 13), rng.choice((1, 28, 29, 30, 31, rng.randrange(1, 29))), rng.randrange(24), rng.randrange(60), rng.randrange(60), rng.choice((0, 1, 999999)))
            b = pendulum.datetime(y2, rng.randrange(1, 13), rng.choice((1, 28, 29, 30, 31, rng.randrange(1, 29))), rng.randrange(24), rng.randrange(60), rng.randrange(60), rng.choice((0, 1, 999999)))
        except ValueError:
            continue
        if a > b:
            a, b = b, a
        mode = rng.random()
        if mode < 0.3:
            a, b = a.date(), b.date()
        elif mode < 0.5:
            a, b = a.naive(), b.naive()
        elif mode < 0.7:
            tz = pendulum.timezone(rng.randrange(-43200, 43200, 900))
            a, b = a.replace(tzinfo=tz), b.replace(tzinfo=tz)
        n += 1
        iv = b - a
        comps = (iv.years, iv.months, iv.weeks, iv.remaining_days, iv.hours, iv.minutes, iv.remaining_seconds, iv.microseconds)
        rev = a - b
        rc = (rev.years, rev.months, rev.weeks, rev.remaining_days, rev.hours, rev.minutes, rev.remaining_seconds, rev.microseconds)
        days = iv.weeks * 7 + iv.remaining_days
        ok = all(c >= 0 for c in comps) and iv.months <= 11 and days <= 30 and iv.hours <= 23 and iv.minutes <= 59 and iv.remaining_seconds <= 59 and iv.microseconds < 10 ** 6
        ok = ok and rc == tuple(-c for c in comps) and iv.in_months() == 12 * iv.years + iv.months
        back = a + iv
        if isinstance(a, _dt.datetime):
            back2 = a.add(years=iv.years, months=iv.months, weeks=iv.weeks, days=iv.remaining_days, hours=iv.hours, minutes=iv.minutes, seconds=iv.remaining_seconds, microseconds=iv.microseconds)
        else:
            back2 = a.add(years=iv.years, months=iv.months, weeks=iv.weeks, days=iv.remaining_days)
        ok = ok and back == b and back2 == b
        if not ok:
            # the known 'exactly a full month' arm
            tod = lambda x: ((x.hour * 60 + x.minute) * 60 + x.second) * 10 ** 6 + x.microsecond if isinstance(x, _dt.datetime) else 0
            dd = b.day - a.day - (1 if tod(b) < tod(a) else 0)
            py_, pm_ = (b.year - 1, 12) if b.month == 1 else (b.year, b.month - 1)
            arm = dd < 0 and dd == dim(b.year, b.month) - dim(py_, pm_)
            fails.append({"a": str(a), "b": str(b), "components": list(comps), "reversed": list(rc), "a_plus_iv": str(back), "full_month_arm": bool(arm)})
    # endpoints in differently named zones are decomposed as the same two instants expressed in UTC - also when the two zones
    # happen to share their offset (Paris/Berlin, a fixed +01:00 against Madrid in winter, London against UTC): oracle = the
    # components of the two instants converted to UTC first
    pairs = (("Europe/Paris", "Europe/Berlin"), ("Europe/Madrid", 3600), (3600, "Europe/Paris"), ("Europe/London", "UTC"), ("America/Toronto", "America/New_York"),
             ("Europe/Paris", "America/Toronto"), ("Asia/Kolkata", 19800), ("Asia/Tokyo", "Europe/Paris"), ("Pacific/Auckland", "Pacific/Fiji"))
    fields = lambda iv: (iv.years, iv.months, iv.weeks, iv.remaining_days, iv.hours, iv.minutes, iv.remaining_seconds, iv.microseconds)
    for _ in range(N // 5):
        z1, z2 = rng.choice(pairs)
        y1 = rng.choice((2019, 2020, 2023, 2024))
        try:
            a = pendulum.datetime(y1, rng.randrange(1, 13), rng.choice((1, 1, 28, 29, 30, 31, rng.randrange(1, 29))), rng.choice((0, 0, 1, 12, 23, rng.randrange(24))), rng.randrange(60), 0, tz=pendulum.timezone(z1))
            b = pendulum.datetime(y1 + rng.choice((0, 0, 1)), rng.randrange(1, 13), rng.choice((1, 1, 28, 29, 30, 31, rng.randrange(1, 29))), rng.choice((0, 0, 1, 12, 23, rng.randrange(24))), rng.randrange(60), 0, tz=pendulum.timezone(z2))
        except ValueError:
            continue
        if a > b:
            a, b = b, a
        n += 1
        got, exp = fields(b - a), fields(b.in_timezone("UTC") - a.in_timezone("UTC"))
        grev = fields(a - b)
        if got != exp or grev != tuple(-c for c in exp) or (b - a).in_months() != 12 * exp[0] + exp[1]:
            amb = lambda x: x.tzinfo.utcoffset(x.naive().replace(fold=0)) != x.tzinfo.utcoffset(x.naive().replace(fold=1)) and x.fold == 1
            fails.append({"a": str(a), "b": str(b), "zones": [str(z1), str(z2)], "ambiguous_endpoint": bool(amb(a) or amb(b)), "components": list(got), "reversed": list(grev), "components_of_the_instants_in_UTC": list(exp),
                          "clause": "differently_named_zones_decomposed_in_UTC", "full_month_arm": False})
    ctx.record("interval_identities", n, n, "b - a on real Date / naive / UTC / fixed-offset pairs (month-end days, leap years, time borrows): non-negative canonical components, reversed == negated, "
               "in_months, a + (b - a) == b and add(components) == b; pairs in differently named zones (incl. equal offsets) decomposed as their instants in UTC", failures=fails, samples=[{"a": "2022-05-02", "b": "2022-06-01", "note": "known finding C06-full-month"}])


def rust(ctx):
    from bounded import rustdiff

    repo = os.environ.get("PYVC_REPO", "/repo")
    with rustdiff.rust_overlay(repo) as (ov, info):
        if ov is None:
            ctx.run.errors.append(f"rust backend could not be rebuilt: {info}")
            return
        out = rustdiff.run_worker(ov, "rust_c06_worker.py", dict(seed=ctx.seed, full=ctx.tier == "thorough", n_zone=3000 if ctx.tier == "quick" else 100000))
        ctx.record("rust.precise_diff", out["evaluations"], out["evaluations"], "Rust precise_diff == Python precise_diff field by field: (start month/day) x (end month/day) x leap patterns "
                   "{1,4,100,400,1900,2000,2024,2100,9996,...} x time-of-day borrows, plus seeded aware pairs in 5 zones"
                   + (" (all combinations)" if ctx.tier == "thorough" else " (seeded 15% sample)") + f" [cargo build {info:.0f}s]", failures=out["failures"], kind="rust-differential",
                   exhaustive=False, samples=[{"backend": os.path.basename(out["backend_file"])}])


def run(ctx):
    interval_identities(ctx)
    rust(ctx)


def kf_rust_utc_date_shift(fl):
    """known finding C06-rust-utc-shift: the Rust precise_diff normalises the UTC shift of differently named zones by
    hand (hour -= offset/3600 ... day -= 1) with `> 24` / `> 60` comparisons and no month carry; when the shift moves an
    endpoint onto another calendar day its day component differs from the pure-Python helper by one day (or a month)"""
    import datetime as dt_

    try:
        a, b = dt_.datetime.fromisoformat(fl["d1"]), dt_.datetime.fromisoformat(fl["d2"])
    except Exception:  # noqa: BLE001
        return False
    if a.tzinfo is None or b.tzinfo is None:
        return False
    shifted = lambda x: (x - x.utcoffset()).date() != x.date() or (x - x.utcoffset()).hour == 0
    return (shifted(a) or shifted(b)) and isinstance(fl.get("python"), list) and isinstance(fl.get("rust"), list) and fl["python"][7] == fl["rust"][7]
