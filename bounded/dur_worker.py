"""Constructive-oracle sweep of ISO 8601 duration and interval parsing (C13) for ONE backend (subprocess; the
environment selects the backend).  JSON payload on stdin, one JSON line on stdout."""
import datetime as _dt
import json
import re
import os
import random
import sys
import time
import warnings

warnings.simplefilter("ignore")
sys.path.insert(0, os.path.dirname(os.path.dirname(os.path.abspath(__file__))))
payload = json.loads(sys.stdin.read())

import pendulum
from pendulum.parsing import parse_iso8601

from bounded import isogen

backend = "rust" if parse_iso8601.__module__ == "pendulum._pendulum" else "python"
if payload["backend"] != backend:
    print(json.dumps({"error": f"expected backend {payload['backend']}, loaded {parse_iso8601.__module__}"}))
    sys.exit(0)
rng = random.Random(payload["seed"])
tier = payload["tier"]
out = {"backend": backend, "module": parse_iso8601.__module__, "items": []}
CAP = 60
US = _dt.timedelta(microseconds=1)


def native_us(d):
    return _dt.timedelta.__floordiv__(_dt.timedelta(days=_dt.timedelta.days.__get__(d), seconds=_dt.timedelta.seconds.__get__(d),
                                                    microseconds=_dt.timedelta.microseconds.__get__(d)), US)


def check_duration(text, desc):
    exp = isogen.dur_oracle(text)
    base = dict(desc, text=text, backend=backend, wrapped=any(int(x) >= 2 ** 32 for x in re.findall(r"\d+", text)))
    try:
        r = pendulum.parse(text)
    except ValueError as e:
        if exp is None:
            return None
        return dict(base, kind="rejected", error=f"{type(e).__name__}: {e}"[:120])
    except BaseException as e:  # noqa: BLE001
        return dict(base, kind="escaped", error=f"{type(e).__name__}: {e}"[:120], valid=exp is not None)
    if exp is None:
        return dict(base, kind="accepted-invalid", got=repr(r))
    if not isinstance(r, pendulum.Duration):
        return dict(base, kind="wrong-type", got=repr(r))
    want = exp[2] + (exp[0] * 365 + exp[1] * 30) * isogen.DUS
    err = native_us(r) - want
    if r.years != exp[0] or r.months != exp[1] or abs(err) * 2 > 1:
        return dict(base, kind="wrong", got=repr(r), expected=f"years={exp[0]} months={exp[1]} remaining_us={float(exp[2])}", abs_err_us=float(abs(err)),
                    ym_ok=(r.years == exp[0] and r.months == exp[1]))
    return None


def sweep(name, it, rule, fn):
    t0 = time.time()
    n = 0
    fails = []
    classes = {}
    for text, desc in it:
        n += 1
        f = fn(text, desc)
        if f is not None:
            key = (f["kind"], f.get("frac_unit"), f.get("wrapped"), f.get("form"), f.get("half_us"), f.get("big_duration"), f.get("ym_ok"),
                   f.get("error", "").split(":")[0], (f.get("abs_err_us") or 0) > 30_000_001)
            classes[key] = classes.get(key, 0) + 1
            if classes[key] <= 4 and len(fails) < CAP:
                fails.append(f)
    out["items"].append({"name": f"{backend}.{name}", "evaluations": n, "distinct": n, "exhaustive": False, "failures": fails,
                         "failure_classes": [{"class": list(map(str, k)), "count": v} for k, v in sorted(classes.items(), key=lambda kv: -kv[1])][:30],
                         "rule": rule, "secs": round(time.time() - t0, 1)})


N = 30000 if tier == "quick" else 1500000
sweep("durations", isogen.duration_cases(rng, N),
      "seeded well-formed durations: any subset of Y M D H M S (or W alone), integers of 1..10 digits, a fraction of 1..9 digits after '.' or ',' on the last component: "
      "pendulum.parse gives years and months as written and a native value within half a microsecond of the exact rational value; unrepresentable values are rejected with a ValueError",
      check_duration)
sweep("durations_invalid", ((t, {}) for t in isogen.invalid_durations()),
      "out-of-order designators, fractional years/months, a fraction before the last component, weeks mixed with other units, values too large for a timedelta or for the "
      "parser's integers, malformed numbers: rejected with a ValueError (never another exception, never a wrapped value)", check_duration)


def check_interval(text, desc):
    base = dict(form=desc["form"], text=text, backend=backend, frac_unit=desc.get("frac_unit"))
    if desc["duration"] is not None:
        o = isogen.dur_oracle(desc["duration"])
        if o is not None:
            # Duration keeps its value in float seconds: exact only below 2**32 s (C09/C10 float finding)
            base["big_duration"] = abs(o[2] + (o[0] * 365 + o[1] * 30) * isogen.DUS) >= 2 ** 32 * 10 ** 6

    def mk(p):
        d, off = p
        tz = pendulum.UTC if off is None else pendulum.FixedTimezone(off)
        return pendulum.datetime(d.year, d.month, d.day, d.hour, d.minute, d.second, d.microsecond, tz=tz)

    try:
        r = pendulum.parse(text)
    except BaseException as e:  # noqa: BLE001
        return dict(base, kind="rejected" if isinstance(e, ValueError) else "escaped", error=f"{type(e).__name__}: {e}"[:120])
    if not isinstance(r, pendulum.Interval):
        return dict(base, kind="wrong-type", got=repr(r))
    try:
        if desc["duration"] is None:
            s, e = mk(desc["start"]), mk(desc["end"])
        else:
            y, m, rem = isogen.dur_oracle(desc["duration"])
            # "rounded to the microsecond": the tie rule is not specified, so either neighbour of an exact half is accepted
            lo = rem.numerator // rem.denominator
            cands = [c for c in (lo, lo + 1) if abs(rem - c) * 2 <= 1]
            pick = cands[0]
            if desc["start"] is not None:
                s = mk(desc["start"])
                got_us = round((r.end - s.add(years=y, months=m)).total_seconds() * 10 ** 6) if len(cands) > 1 else None
                pick = got_us if got_us in cands else pick
                e = s.add(years=y, months=m).add(microseconds=pick)
            else:
                e = mk(desc["end"])
                got_us = round((e.subtract(years=y, months=m) - r.start).total_seconds() * 10 ** 6) if len(cands) > 1 else None
                pick = got_us if got_us in cands else pick
                s = e.subtract(years=y, months=m).subtract(microseconds=pick)
    except (ValueError, OverflowError):
        return None
    f = lambda v: (v.year, v.month, v.day, v.hour, v.minute, v.second, v.microsecond, v.utcoffset())
    if f(r.start) != f(s) or f(r.end) != f(e):
        d_got = _dt.datetime.__sub__(r.end, r.start)
        d_exp = _dt.datetime.__sub__(e, s)
        err_us = abs(_dt.timedelta.__sub__(d_got, d_exp) // US)
        return dict(base, kind="wrong", got=f"{r.start!r} .. {r.end!r}", expected=f"{s!r} .. {e!r}", err_us=err_us, duration_s=abs(d_exp.total_seconds()),
                    half_us=desc["duration"] is not None and err_us <= 1)
    return None


sweep("intervals", isogen.interval_cases(rng, 8000 if tier == "quick" else 300000),
      "'start/end', 'start/duration', 'duration/end' with naive / Z / +-hh:mm datetimes and seeded durations: the Interval has exactly those endpoints (fields and offset), "
      "the missing one being start.add(duration) / end.subtract(duration) (years and months first, then the exact remaining length)", check_interval)
print(json.dumps(out, default=str))
