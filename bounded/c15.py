"""Bounded stand-ins and conformance sweeps for C15 (never counted as proved)."""
import calendar
import datetime
import os
import random
import time

from pyvc import spec


def spec_sweep(ctx):
    """the trusted spec library against the standard library, natively"""
    t0 = time.time()
    fails = []
    n = 0
    if ctx.tier == "thorough":
        ords = range(1, spec.MAXORD + 1)
    else:
        rng = random.Random(ctx.seed)
        ords = sorted(set([1, 2, spec.MAXORD] + [datetime.date(y, m, d).toordinal() for y in range(1, 10000) for (m, d) in ((1, 1), (2, 28), (3, 1), (12, 31))]
                          + [rng.randrange(1, spec.MAXORD + 1) for _ in range(100000)]))
    for o in ords:
        d = datetime.date.fromordinal(o)
        y, m, dd = d.year, d.month, d.day
        n += 1
        iso = d.isocalendar()
        w1 = spec.iso_week1_monday(iso[0])
        ok = (spec.ordinal(y, m, dd) == o and spec.iso_weekday(y, m, dd) == d.isoweekday() and spec.weekday0(y, m, dd) == d.weekday()
              and spec.dim(y, m) == calendar.monthrange(y, m)[1] and bool(spec.leap(y)) == calendar.isleap(y)
              and spec.doy(y, m, dd) == d.timetuple().tm_yday and w1 + 7 * (iso[1] - 1) + iso[2] - 1 == o
              and bool(spec.iso_long_year(y)) == (datetime.date(y, 12, 28).isocalendar()[1] == 53)
              and bool(spec.valid_date(y, m, dd)))
        if not ok:
            fails.append({"date": [y, m, dd]})
    ctx.record("spec.calendar_vs_stdlib", n, n, "spec functions (ordinal, weekday, dim, leap, doy, ISO week, long year) == datetime/calendar on "
               + ("every date 0001-01-01..9999-12-31" if ctx.tier == "thorough" else "all year/month boundaries + 100k seeded dates"),
               exhaustive=ctx.tier == "thorough", failures=fails, kind="conformance-sweep", secs=round(time.time() - t0, 1),
               samples=[{"date": [2024, 2, 29], "ordinal": spec.ordinal(2024, 2, 29)}])


def python_runtime(ctx):
    """engine-vs-CPython cross check: the proved contracts evaluated natively on the real functions"""
    import pendulum
    import pendulum._helpers as py
    from pyvc.contract import REGISTRY
    from pyvc import replay

    rng = random.Random(ctx.seed + 7)
    n = 0
    fails = []
    def run(qn, args):
        nonlocal n
        case = REGISTRY[qn].cases[0]
        out = replay.call_real(qn, args)
        clauses, pre = replay.eval_contract_natively(case, args, out)
        if pre:
            n += 1
            bad = [l for l, ok in clauses if not ok]
            if bad:
                fails.append({"fn": qn, "args": {k: repr(v) for k, v in args.items()}, "failed": bad})
    N = 3000 if ctx.tier == "quick" else 100000
    for _ in range(N):
        o = rng.randrange(1, spec.MAXORD + 1)
        d = datetime.date.fromordinal(o)
        run("pendulum._helpers.week_day", dict(year=d.year, month=d.month, day=d.day))
        run("pendulum._helpers._day_number", dict(year=d.year, month=d.month, day=d.day))
        run("pendulum._helpers.is_leap", dict(year=d.year))
        run("pendulum._helpers.is_long_year", dict(year=d.year))
        run("pendulum._helpers.days_in_year", dict(year=d.year))
        t = (o - spec.E0) * 86400 + rng.randrange(86400)
        off = rng.randrange(-86399, 86400)
        run("pendulum._helpers.local_time", dict(unix_time=t, utc_offset=off, microseconds=rng.randrange(10 ** 6)))
        pd = pendulum.Date(d.year, d.month, d.day)
        for g in ("day_of_week", "day_of_year", "week_of_year", "days_in_month", "quarter", "is_leap_year", "is_long_year"):
            run(f"pendulum.date.Date.{g}", dict(self=pd))
    ctx.record("python.contracts_at_runtime", n, n, "the sidecar contracts of the proved functions evaluated natively on the real functions (PENDULUM_EXTENSIONS=0) for seeded dates/timestamps; guards the VC generator against misreading Python",
               failures=fails, kind="engine-cross-check", samples=[{"fn": "week_day", "args": [2024, 2, 29], "result": py.week_day(2024, 2, 29)}])


def getters_vs_stdlib(ctx, backend_note="python backend"):
    import pendulum

    rng = random.Random(ctx.seed + 11)
    fails = []
    n = 0
    N = 20000 if ctx.tier == "quick" else 400000
    for i in range(N):
        o = rng.randrange(1, spec.MAXORD + 1)
        d = datetime.date.fromordinal(o)
        for obj in (pendulum.Date(d.year, d.month, d.day), pendulum.DateTime(d.year, d.month, d.day, 12, tzinfo=pendulum.UTC)):
            n += 1
            mc = calendar.monthcalendar(d.year, d.month)
            wom = next(i for i, row in enumerate(mc) if d.day in row) + 1
            exp = dict(day_of_week=d.weekday(), day_of_year=d.timetuple().tm_yday, week_of_year=d.isocalendar()[1], week_of_month=wom,
                       days_in_month=calendar.monthrange(d.year, d.month)[1], quarter=(d.month - 1) // 3 + 1)
            got = {k: int(getattr(obj, k)) for k in exp}
            got["is_leap_year"], exp["is_leap_year"] = obj.is_leap_year(), calendar.isleap(d.year)
            got["is_long_year"], exp["is_long_year"] = obj.is_long_year(), datetime.date(d.year, 12, 28).isocalendar()[1] == 53
            if got != exp:
                fails.append({"obj": repr(obj), "got": got, "expected": exp})
    ctx.record("getters_vs_stdlib", n, n, f"Date/DateTime getters == datetime/calendar on seeded dates ({backend_note})", failures=fails,
               samples=[{"date": "2024-02-29", "day_of_year": 60}])


def rust(ctx):
    from bounded import rustdiff

    repo = os.environ.get("PYVC_REPO", "/repo")
    with rustdiff.rust_overlay(repo) as (ov, info):
        if ov is None:
            ctx.run.errors.append(f"rust backend could not be rebuilt: {info}")
            return
        thorough = ctx.tier == "thorough"
        out = rustdiff.run_worker(ov, "rust_c15_worker.py", dict(seed=ctx.seed, all_dates=True, all_boundaries=thorough, n_local_time=200000))
        for it in out["items"]:
            ctx.record(it["name"], it["evaluations"], it["distinct"], it["rule"] + f" [cargo build {info:.0f}s]", exhaustive=it["exhaustive"],
                       failures=it["failures"], kind="rust-differential", samples=[{"backend": os.path.basename(out["backend_file"])}])


def run(ctx):
    spec_sweep(ctx)
    python_runtime(ctx)
    getters_vs_stdlib(ctx)
    rust(ctx)
