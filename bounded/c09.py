"""Bounded stand-ins for C09: what A-FLOAT hides (IEEE rounding in total_seconds / % / round)."""
import random
from datetime import timedelta


def _magnitudes(rng, n):
    for _ in range(n):
        e = rng.uniform(0, 16.9)  # up to ~8.6e16 us = 1e6 days; extended below
        yield int(10 ** e)


def float_lemma(ctx):
    import pendulum
    from pendulum import Duration

    rng = random.Random(ctx.seed)
    N = 40000 if ctx.tier == "quick" else 2000000
    fails = []
    n = 0
    n_exact = 0
    def check(args):
        nonlocal n
        n += 1
        try:
            d = Duration(**args)
        except OverflowError:
            try:
                timedelta(**{k: v for k, v in args.items() if k not in ("years", "months")}, )
            except OverflowError:
                return
            return
        y, mo = args.get("years", 0), args.get("months", 0)
        a2 = {k: v for k, v in args.items() if k not in ("years", "months")}
        a2["days"] = a2.get("days", 0) + 365 * y + 30 * mo
        td = timedelta(**a2)
        T = (td.days * 86400 + td.seconds) * 10 ** 6 + td.microseconds
        R = T - (365 * y + 30 * mo) * 86400 * 10 ** 6
        s = -1 if R < 0 else 1
        comps = (d.weeks, d.remaining_days, d.hours, d.minutes, d.remaining_seconds, d.microseconds)
        total = ((d.weeks * 7 + d.remaining_days) * 86400 + d.hours * 3600 + d.minutes * 60 + d.remaining_seconds) * 10 ** 6 + d.microseconds
        exact = max(abs(T), abs(R)) < 2 ** 32 * 10 ** 6  # float-exact range: two roundings of half an ulp(2^-21 s) stay below 0.5 us
        nonlocal n_exact
        n_exact += exact
        ok = (timedelta.__eq__(d, td) and d.years == y and d.months == mo and (total == R or not exact)
              and all(c == 0 or (c < 0) == (s < 0) for c in comps)
              and abs(d.remaining_days) < 7 and abs(d.hours) < 24 and abs(d.minutes) < 60 and abs(d.remaining_seconds) < 60 and abs(d.microseconds) < 10 ** 6)
        if ok and exact:
            r = Duration(years=d.years, months=d.months, weeks=d.weeks, days=d.remaining_days, hours=d.hours, minutes=d.minutes,
                         seconds=d.remaining_seconds, microseconds=d.microseconds)
            ok = timedelta.__eq__(r, d) and (r.weeks, r.remaining_days, r.hours, r.minutes, r.remaining_seconds, r.microseconds) == comps
        if not ok:
            fails.append({"args": args, "components": list(comps), "R": R, "sum": total})
    names = ("days", "seconds", "microseconds", "milliseconds", "minutes", "hours", "weeks", "years", "months")
    # boundaries
    for us in (0, 1, -1, 999999, -999999, 10 ** 6, -10 ** 6, 2 ** 53 - 1, -(2 ** 53 - 1), 2 ** 53 + 1, 86399999999, -86399999999):
        check(dict(microseconds=us))
    for dd in (999999999, -999999999, 10 ** 6, -10 ** 6):
        check(dict(days=dd))
        check(dict(days=dd, microseconds=-1 if dd > 0 else 1))
    for _ in range(N):
        k = rng.randrange(1, 6)
        args = {}
        for name in rng.sample(names, k):
            cap = dict(days=4.9, seconds=9.9, microseconds=15.9, milliseconds=12.9, minutes=8.1, hours=6.3, weeks=4.1, years=2.4, months=3.4)[name]
            mag = int(10 ** rng.uniform(0, cap if rng.random() < 0.85 else cap + 2))
            args[name] = rng.choice((-1, 1)) * mag
        if rng.random() < 0.2:
            # sign-cancelling combination
            args = dict(days=args.get("days", 3), seconds=-args.get("days", 3) * 86400 + rng.randrange(-2, 3), microseconds=rng.randrange(-3, 4))
        check(args)
    # large totals: log-uniform microsecond magnitudes up to 1e9 days
    for _ in range(N // 4):
        us = int(10 ** rng.uniform(10, 19.9)) * rng.choice((-1, 1))
        check(dict(microseconds=us))
    ctx.record("float_lemma", n, n_exact, "Duration(**ints) on the real class vs integer arithmetic: equals native timedelta, components sign/range/sum, rebuild; "
               "mixed signs, cancelling combinations, |total| log-uniform up to 1e9 days; exact component sum and rebuild are required only in the float-exact range max(|native total|, |total without years/months|) < 2^32 s (distinct_nontrivial counts those), beyond it only the native value, years/months, signs and ranges", failures=fails,
               samples=[{"args": {"days": -1, "microseconds": 1}}])


def run(ctx):
    float_lemma(ctx)
