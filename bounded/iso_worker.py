"""Constructive-oracle sweep of the ISO 8601 date/time parser (C07) for ONE backend: run in a subprocess whose
PENDULUM_EXTENSIONS / PYTHONPATH select the backend.  Reads a JSON payload on stdin, prints one JSON line.

Items:  <backend>.iso_forms, <backend>.iso_times, <backend>.iso_invalid, <backend>.roundtrip, <backend>.options
"""
import datetime as _dt
import json
import os
import random
import sys
import time

sys.path.insert(0, os.path.dirname(os.path.dirname(os.path.abspath(__file__))))
payload = json.loads(sys.stdin.read())

import pendulum
from pendulum.parsing import parse_iso8601

from bounded import isogen

backend = "rust" if parse_iso8601.__module__ == "pendulum._pendulum" else "python"
if payload["backend"] != backend:
    print(json.dumps({"error": f"expected backend {payload['backend']}, loaded {parse_iso8601.__module__}"}))
    sys.exit(0)
wellformed_only = backend == "rust"  # the compiled parser (correctly) rejects basic/extended mixtures
rng = random.Random(payload["seed"])
out = {"backend": backend, "module": parse_iso8601.__module__, "items": []}
CAP = 40


def consistent(desc):
    ts = desc.get("time")
    if ts is None or ts == "hh":
        return True
    form = desc.get("form")
    if form == "time":
        return True
    basic_date = "-" not in form
    return (":" not in ts) == basic_date


def last_day_of_month(d):
    return (d + _dt.timedelta(days=1)).day == 1 if d < _dt.date.max else True


def check(text, exp, desc):
    try:
        got = parse_iso8601(text)
    except ValueError as e:
        return dict(desc, text=text, backend=backend, kind="rejected", error=f"{type(e).__name__}: {e}"[:160], expected=repr(exp))
    except BaseException as e:  # noqa: BLE001
        return dict(desc, text=text, backend=backend, kind="escaped", error=f"{type(e).__name__}: {e}"[:160], expected=repr(exp))
    if not isogen.same(got, exp):
        return dict(desc, text=text, backend=backend, kind="wrong", got=repr(got), expected=repr(exp))
    # the public entry point must agree with the native result it wraps
    try:
        pub = pendulum.parse(text, exact=True)
        if isinstance(exp, _dt.datetime):
            ok = isinstance(pub, pendulum.DateTime) and pub.replace(tzinfo=None) == exp.replace(tzinfo=None) and \
                pub.utcoffset() == (exp.utcoffset() if exp.tzinfo else _dt.timedelta(0))
        elif isinstance(exp, _dt.date):
            ok = type(pub) is pendulum.Date and (pub.year, pub.month, pub.day) == (exp.year, exp.month, exp.day)
        else:
            ok = type(pub) is pendulum.Time and pub.replace(tzinfo=None) == exp.replace(tzinfo=None)
            if ok and exp.tzinfo is not None and (pub.tzinfo is None or pub.utcoffset() != exp.utcoffset()):
                return dict(desc, text=text, backend=backend, kind="time-offset-dropped", got=repr(pub), expected=repr(exp))
        if not ok:
            return dict(desc, text=text, backend=backend, kind="wrong-public", got=repr(pub), expected=repr(exp))
    except BaseException as e:  # noqa: BLE001
        return dict(desc, text=text, backend=backend, kind="escaped-public", error=f"{type(e).__name__}: {e}"[:160], expected=repr(exp))
    return None


def sweep(name, it, rule, exhaustive=False):
    t0 = time.time()
    n = 0
    fails = []
    classes = {}
    for text, exp, desc in it:
        if wellformed_only and not consistent(desc):
            continue
        n += 1
        f = check(text, exp, desc)
        if f is not None:
            if desc.get("date"):
                y, m, d = map(int, desc["date"].split("-"))
                f["last_day_of_month"] = last_day_of_month(_dt.date(y, m, d))
            key = (f["kind"], f.get("form"), f.get("time"), f.get("lead"), f.get("bare"), f.get("last_day_of_month"))
            classes[key] = classes.get(key, 0) + 1
            if classes[key] <= 3 and len(fails) < CAP * 5:
                fails.append(f)
    out["items"].append({"name": f"{backend}.{name}", "evaluations": n, "distinct": n, "exhaustive": exhaustive, "failures": fails,
                         "failure_classes": [{"class": list(map(str, k)), "count": v} for k, v in sorted(classes.items(), key=lambda kv: -kv[1])][:40],
                         "rule": rule, "secs": round(time.time() - t0, 1)})


tier = payload["tier"]
if tier == "thorough":
    def all_dates():
        d = _dt.date(1583, 1, 1)
        one = _dt.timedelta(days=1)
        end = _dt.date(9999, 12, 31)
        while True:
            yield d
            if d == end:
                return
            d += one
    dates = all_dates()
    what = "every date 1583-01-01..9999-12-31"
    per = 0     # all dates x the 9 date forms alone (27.7M strings); times / fractions / offsets on the boundary dates below
else:
    dates = list(isogen.interesting_dates(1583, 9999, 29)) + list(isogen.interesting_dates(9990, 9999, 1)) + list(isogen.interesting_dates(1583, 1590, 1)) + \
        list(isogen.interesting_dates(1996, 2030, 1))
    what = f"{len(dates)} month/year/ISO-week boundary dates (every 29th year 1583..9999, all of 1583-1590, 1996-2030, 9990-9999)"
    per = 2
sweep("iso_forms", isogen.cases(rng, dates, per),
      f"{what} x 9 date forms (calendar/ordinal/week, basic/extended, reduced) alone and with a seeded time structure x fraction 1..9 digits after '.' or ',' x offset form x {{T, space}}: "
      "parse_iso8601 returns exactly the date, time, microsecond (truncated) and offset the string was rendered from; pendulum.parse(exact=True) wraps it in the narrowest type",
      exhaustive=tier == "thorough")
if tier == "thorough":
    bd = list(isogen.interesting_dates(1583, 9999, 7))
    sweep("iso_forms_with_times", isogen.cases(rng, bd, 4),
          f"{len(bd)} month/year/ISO-week boundary dates (every 7th year) x 9 date forms x 4 seeded time structure / fraction / offset / separator choices: exact date, time, microsecond and offset")
sweep("iso_times", isogen.time_cases(rng, 4000 if tier == "quick" else 200000),
      "time-only strings (T designator x 5 structures; no designator for extended structures; bare hh / hhmmss) x fractions x offsets: exact time and offset")

t0 = time.time()
fails = []
inv = isogen.invalid_cases()
for text in inv:
    try:
        r = parse_iso8601(text)
        fails.append({"text": text, "backend": backend, "kind": "accepted-invalid", "got": repr(r), "offset_out_of_range": bool(__import__("re").search(r"[+-](?:(?:2[4-9]|[3-9]\d)(?::?\d\d)?|\d\d:?[6-9]\d)$", text)),
                      "week_or_weekday_zero": ("W00" in text) or (text.endswith("-0") and "W" in text) or (("W" in text) and "-" not in text and len(text) == 8 and text.endswith("0"))})
    except ValueError:
        pass
    except BaseException as e:  # noqa: BLE001
        fails.append({"text": text, "backend": backend, "kind": "escaped", "error": f"{type(e).__name__}: {e}"[:160]})
_seen = {}
_kept = []
for f in fails:
    k = (f["kind"], f.get("week_or_weekday_zero"), f.get("offset_out_of_range"))
    _seen[k] = _seen.get(k, 0) + 1
    if _seen[k] <= 6:
        _kept.append(f)
out["items"].append({"name": f"{backend}.iso_invalid", "evaluations": len(inv), "distinct": len(inv), "exhaustive": False, "failures": _kept,
                     "failure_classes": [{"class": list(map(str, k)), "count": v} for k, v in _seen.items()],
                     "rule": "impossible dates (Feb 29/30, day 0/32, month 0/13), ordinals (000, 366 of a common year, 367), weeks (00, 53 of a short year, 54), weekdays (0, 8), times (24:00, :60) for 9 years: rejected with a ValueError",
                     "secs": round(time.time() - t0, 1)})

# ---- parse() inverts the renderers
t0 = time.time()
fails = []
n = 0
N = 6000 if tier == "quick" else 300000
renderers = (("isoformat", lambda x: x.isoformat(), "us"), ("isoformat(' ')", lambda x: x.isoformat(" "), "us"), ("str", str, "us"),
             ("to_iso8601_string", lambda x: x.to_iso8601_string(), "us"), ("to_rfc3339_string", lambda x: x.to_rfc3339_string(), "us"),
             ("to_atom_string", lambda x: x.to_atom_string(), "s"), ("to_w3c_string", lambda x: x.to_w3c_string(), "s"))
for _ in range(N):
    y = rng.choice((1583, 1999, 2000, 2024, 9999, rng.randrange(1583, 10000)))
    m = rng.randrange(1, 13)
    d = rng.choice((1, 28, rng.randrange(1, 29)))
    us = rng.choice((0, 0, 1, 999999, 500000, 100, 123450, rng.randrange(10 ** 6)))
    offm = rng.choice((None, 0, 60, -60, 330, -570, 1439, -1439, rng.randrange(-1439, 1440)))
    tz = "UTC" if offm is None else pendulum.FixedTimezone(offm * 60)
    try:
        x = pendulum.datetime(y, m, d, rng.randrange(24), rng.randrange(60), rng.randrange(60), us, tz=tz)
    except (ValueError, OverflowError):
        continue
    for name, f, prec in renderers:
        n += 1
        s = f(x)
        want = x if prec == "us" else x.replace(microsecond=0)
        try:
            r = pendulum.parse(s)
        except BaseException as e:  # noqa: BLE001
            fails.append({"renderer": name, "text": s, "backend": backend, "kind": "rejected", "error": f"{type(e).__name__}: {e}"[:160]})
            continue
        fields = lambda v: (v.year, v.month, v.day, v.hour, v.minute, v.second, v.microsecond)
        if not (isinstance(r, pendulum.DateTime) and fields(r) == fields(want) and r.utcoffset() == x.utcoffset() and r == want):
            fails.append({"renderer": name, "text": s, "backend": backend, "kind": "wrong", "got": repr(r), "expected": repr(want)})
out["items"].append({"name": f"{backend}.roundtrip", "evaluations": n, "distinct": n, "exhaustive": False, "failures": fails[:CAP],
                     "rule": "pendulum.parse(render(dt)) == dt with identical fields and UTC offset for render in isoformat, isoformat(' '), str, to_iso8601_string, to_rfc3339_string (to the microsecond) "
                             "and to_atom_string, to_w3c_string (to the second); dt in UTC or a fixed whole-minute offset -23:59..+23:59, years 1583..9999",
                     "secs": round(time.time() - t0, 1)})

# ---- options: tz applies only to strings without an offset; exact narrows
t0 = time.time()
fails = []
n = 0
for text, kind in (("2021-06-15", "date"), ("20210615", "date"), ("2021-166", "date"), ("2021-W24-2", "date"), ("12:30:15", "time"), ("T1230", "time"),
                   ("2021-06-15T12:30:15", "naive"), ("2021-06-15 12:30:15.123456", "naive"), ("2021-06-15T12:30:15+05:30", "aware"), ("2021-06-15T12:30:15Z", "aware")):
    for tzname in (None, "UTC", "Europe/Paris", "America/New_York", "Asia/Kolkata"):
        for exact in (False, True):
            n += 1
            kw = {"exact": exact}
            if tzname is not None:
                kw["tz"] = tzname
            try:
                r = pendulum.parse(text, **kw)
            except BaseException as e:  # noqa: BLE001
                fails.append({"text": text, "options": kw, "backend": backend, "kind": "escaped", "error": f"{type(e).__name__}: {e}"[:160]})
                continue
            if exact and kind == "date":
                ok = type(r) is pendulum.Date and (r.year, r.month, r.day) == (2021, 6, 15)
            elif exact and kind == "time":
                ok = type(r) is pendulum.Time and (r.hour, r.minute) == (12, 30)
            else:
                ok = isinstance(r, pendulum.DateTime)
                if kind == "aware":
                    ok = ok and r.utcoffset() == _dt.timedelta(seconds=19800 if "+05:30" in text else 0)
                else:
                    ok = ok and r.timezone_name == (tzname or "UTC")
                if kind != "time":
                    ok = ok and (r.year, r.month, r.day) == (2021, 6, 15)
                if kind != "date":
                    ok = ok and (r.hour, r.minute) == (12, 30)
                else:
                    ok = ok and (r.hour, r.minute, r.second, r.microsecond) == (0, 0, 0, 0)
            if not ok:
                fails.append({"text": text, "options": kw, "backend": backend, "kind": "wrong", "got": repr(r)})
out["items"].append({"name": f"{backend}.options", "evaluations": n, "distinct": n, "exhaustive": False, "failures": fails[:CAP],
                     "rule": "exact=True returns Date/Time/DateTime (narrowest type); otherwise a DateTime in the tz option (default UTC) unless the string carries its own offset, which wins",
                     "secs": round(time.time() - t0, 1)})
print(json.dumps(out, default=str))
