"""Bounded stand-in for C11: every accessor/operator against a native twin."""
import datetime as _dt
import random
import time
import zoneinfo

from bounded import zonesweep


def kf_same_tz_order(fl):
    """known finding C11-same-tz-order: two aware values sharing one tzinfo object are ordered by wall clock
    (CPython's rule), which inside a repeated hour is not the order of their instants"""
    if fl.get("check") == "ordering_is_ordering_of_instants":
        return fl.get("same_tzinfo_object") is True and fl.get("in_repeated_interval") is True
    # the same rule seen from the twins: two native values of one ZoneInfo object are ordered by wall clock, while a pendulum
    # value and a native one carry different tzinfo objects and are ordered by instant - inside a repeated interval, with the two
    # values on different offsets, the mixed comparison therefore differs from the all-native one
    return fl.get("check") in ("cmp<", "cmp<=", "cmp>") and fl.get("in_repeated_interval") is True and fl.get("same_zone") is True and fl.get("offsets_differ") is True


def kf_pep495_eq(fl):
    """known finding C11-pep495-eq: CPython never treats an aware value whose offset depends on fold as equal to a value
    with another tzinfo object (PEP 495); a pendulum DateTime carries pendulum's Timezone object, its native twin a
    ZoneInfo, so inside a repeated interval they do not compare equal"""
    return fl.get("check") in ("eq_hash_str", "date_time_astimezone", "cmp==") and fl.get("in_repeated_interval") is True


def kf_sub_same_zone(fl):
    """known finding C11-sub-same-zone: for two values of one zone pendulum's subtraction is the elapsed time (C05) while
    CPython's (common tzinfo object) is the wall-clock difference; they differ when the two offsets differ"""
    return fl.get("check") == "subtraction" and fl.get("same_zone") is True and fl.get("offsets_differ") is True


def run(ctx):
    import pendulum

    rng = random.Random(ctx.seed + 11)
    t0 = time.time()
    keys = ["Europe/Paris", "America/New_York", "Australia/Lord_Howe", "Asia/Kolkata", "UTC", "America/Sao_Paulo"]
    N = 1500 if ctx.tier == "quick" else 60000
    fails = []
    n = 0
    UTC = _dt.timezone.utc

    def twin():
        key = rng.choice(keys)
        trs = zonesweep.table_transitions(key)
        if trs and rng.random() < 0.7:
            T, a, b = rng.choice(trs)
            ts = T + rng.choice((-1, 0, 1, abs(a - b) // 2, abs(a - b) - 1, -3600, 7200))
        else:
            ts = rng.randrange(-2 * 10 ** 9, 4 * 10 ** 9)
        nat = (_dt.datetime(1970, 1, 1, tzinfo=UTC) + _dt.timedelta(seconds=ts, microseconds=rng.choice((0, 1, 999999)))).astimezone(zoneinfo.ZoneInfo(key))
        p = pendulum.instance(nat)
        return p, nat, key

    for _ in range(N):
        (p, nat, key), (q, nat2, key2) = twin(), twin()
        if rng.random() < 0.4:
            q, nat2 = q.in_timezone(p.timezone), nat2.astimezone(nat.tzinfo)
        n += 1
        res = {}
        for name, args in (("isoformat", ()), ("isoformat", ("T",)), ("strftime", ("%Y-%m-%d %H:%M:%S.%f %z %Z %j %a",)), ("timetuple", ()), ("utctimetuple", ()), ("toordinal", ()),
                           ("weekday", ()), ("isoweekday", ()), ("isocalendar", ()), ("timestamp", ()), ("utcoffset", ()), ("tzname", ()), ("dst", ()), ("ctime", ())):
            a, b = getattr(p, name)(*args), getattr(nat, name)(*args)
            if a != b:
                res[name] = (repr(a), repr(b))
        if not (p == nat and hash(p) == hash(nat) and str(p) == str(nat) and format(p, "") == format(nat, "") and format(p, "%H:%M") == format(nat, "%H:%M")):
            res["eq_hash_str"] = (str(p), str(nat))
        d, t = p.date(), p.time()
        if not (type(d) is pendulum.Date and d == nat.date() and type(t) is pendulum.Time and t == nat.time() and d.isoformat() == nat.date().isoformat() and hash(d) == hash(nat.date())
                and d.weekday() == nat.date().weekday() and t.isoformat() == nat.time().isoformat() and hash(t) == hash(nat.time()) and type(p.astimezone(q.tzinfo)) is pendulum.DateTime
                and p.astimezone(q.tzinfo) == nat.astimezone(nat2.tzinfo)):
            res["date_time_astimezone"] = (str(d), str(t))
        for opn, op in (("<", lambda x, y: x < y), ("<=", lambda x, y: x <= y), ("==", lambda x, y: x == y), (">", lambda x, y: x > y)):
            if op(p, q) != op(nat, nat2) or op(p, nat2) != op(nat, nat2):
                res["cmp" + opn] = (str(p), str(q))
        if (p - q).total_seconds() != (nat - nat2).total_seconds() or (p - nat2).total_seconds() != (nat - nat2).total_seconds():
            res["subtraction"] = (str(p), str(q))
        def amb(x):
            nv = _dt.datetime(x.year, x.month, x.day, x.hour, x.minute, x.second, x.microsecond)
            return x.tzinfo.utcoffset(nv.replace(fold=0)) != x.tzinfo.utcoffset(nv.replace(fold=1))

        for k_, v in res.items():
            conv = p.astimezone(q.tzinfo)
            fails.append({"check": k_, "p": p.isoformat(), "q": q.isoformat(), "zone": key, "detail": v, "in_repeated_interval": bool(amb(p) or amb(q) or amb(conv)),
                          "same_zone": p.timezone_name == q.timezone_name, "offsets_differ": p.utcoffset() != q.utcoffset()})
        # ordering of aware values is the ordering of their instants
        if (p < q) != (p.timestamp() < q.timestamp()) and p.timestamp() != q.timestamp():
            def amb(x):
                nv = _dt.datetime(x.year, x.month, x.day, x.hour, x.minute, x.second, x.microsecond)
                o0, o1 = x.tzinfo.utcoffset(nv.replace(fold=0)), x.tzinfo.utcoffset(nv.replace(fold=1))
                return o0 > o1
            fails.append({"check": "ordering_is_ordering_of_instants", "p": p.isoformat(), "q": q.isoformat(), "folds": [p.fold, q.fold],
                          "same_tzinfo_object": p.tzinfo is q.tzinfo, "in_repeated_interval": bool(amb(p) or amb(q))})
    ctx.record("accessors_vs_native_twins", n, n, "every standard accessor/operator of DateTime (and of the Date/Time it returns) against datetime(..., tzinfo=ZoneInfo(name), fold) twins: values around real "
               "transitions of 6 zones in both folds, pairs in the same and in different zones for the comparisons, subtraction, hash, str/format", failures=fails,
               secs=round(time.time() - t0, 1), samples=[{"p": "2013-10-27T02:30:00+01:00", "accessor": "utcoffset", "native": "1:00:00"}])
