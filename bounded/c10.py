"""Bounded stand-in for C10: Duration operators vs native timedelta on real objects."""
import random
from datetime import timedelta


def us_of(td):
    return (td.days * 86400 + timedelta.seconds.__get__(td)) * 10 ** 6 + timedelta.microseconds.__get__(td)


def run(ctx):
    from pendulum import Duration

    rng = random.Random(ctx.seed + 10)
    N = 20000 if ctx.tier == "quick" else 1000000
    fails = []
    n = 0
    nontrivial = 0

    def rnd_us():
        e = rng.uniform(0, 14.5) if rng.random() < 0.8 else rng.uniform(14.5, 19.5)
        return rng.choice((-1, 1)) * int(10 ** e)

    def same(x, y):
        if isinstance(y, timedelta):
            return isinstance(x, Duration) and us_of(x) == us_of(y)
        return x == y and type(x) is type(y)

    for i in range(N):
        a, b = rnd_us(), rnd_us()
        if i % 7 == 0:
            b = rng.choice((1, -1, 2, -2, 3)) * max(1, abs(a) // rng.choice((1, 2, 4, 8)))  # exercise ties / exact quotients
            while abs(b) > 86399999999999 * 10 ** 6:   # keep the operand itself inside timedelta's range
                b //= 4
        d, o_d, t_a, t_b = Duration(microseconds=a), Duration(microseconds=b), timedelta(microseconds=a), timedelta(microseconds=b)
        k = rng.choice((1, -1, 2, -2, 3, 7, -10, 1000, rng.randrange(-10 ** 6, 10 ** 6) or 5))
        f = rng.choice((0.5, -0.5, 1.5, 2.5, 0.1, -3.3, 1e-3, rng.uniform(-100, 100) or 1.0))
        checks = []
        for name, other, nat in (("Duration", o_d, t_b), ("timedelta", t_b, t_b)):
            checks += [(f"d+{name}", lambda o=other: d + o, lambda x=nat: t_a + x), (f"{name}+d", lambda o=other: o + d, lambda x=nat: x + t_a),
                       (f"d-{name}", lambda o=other: d - o, lambda x=nat: t_a - x)]
            if b != 0:
                checks += [(f"d//{name}", lambda o=other: d // o, lambda x=nat: t_a // x), (f"d/{name}", lambda o=other: d / o, lambda x=nat: t_a / x),
                           (f"d%{name}", lambda o=other: d % o, lambda x=nat: t_a % x),
                           (f"divmod(d,{name})[0]", lambda o=other: divmod(d, o)[0], lambda x=nat: divmod(t_a, x)[0]),
                           (f"divmod(d,{name})[1]", lambda o=other: divmod(d, o)[1], lambda x=nat: divmod(t_a, x)[1])]
        checks += [("-d", lambda: -d, lambda: -t_a), ("d*k", lambda: d * k, lambda: t_a * k), ("k*d", lambda: k * d, lambda: k * t_a),
                   ("d//k", lambda: d // k, lambda: t_a // k), ("d/k", lambda: d / k, lambda: t_a / k), ("d*f", lambda: d * f, lambda: t_a * f),
                   ("f*d", lambda: f * d, lambda: f * t_a), ("d/f", lambda: d / f, lambda: t_a / f),
                   ("==", lambda: d == t_a, True), ("hash", lambda: hash(d) == hash(t_a), True), ("<", lambda: (d < o_d), (t_a < t_b))]
        for label, fn, exp in checks:
            n += 1
            try:
                exp = exp() if callable(exp) else exp
            except OverflowError:
                continue
            try:
                got = fn()
            except Exception as e:  # noqa: BLE001
                got = e
            ok = same(got, exp) if not isinstance(exp, bool) else got == exp
            if isinstance(exp, float):
                ok = got == exp
            if not ok:
                fails.append({"op": label, "a_us": a, "b_us": b, "k": k, "f": f, "got": repr(got), "native": repr(exp),
                              "native_us": us_of(exp) if isinstance(exp, timedelta) else None,
                              "got_us": us_of(got) if isinstance(got, timedelta) else None})
        nontrivial += 1
    ctx.record("operators_vs_native", n, nontrivial, "Duration(microseconds=a) op {Duration, timedelta}(b) / int / float vs the same native timedelta operation "
               "(result class and microsecond value), |a|,|b| log-uniform up to 3e14 us, ties in round-half-even division included; "
               "distinct_nontrivial counts operand tuples", failures=fails, samples=[{"op": "d/k", "a_us": 5, "k": 2, "native": "2 us (tie -> even)"}])


def kf_float_paths(fl):
    """known finding C10-float-paths: Duration keeps its value in float seconds (normalisation, +, -, * int);
    once an operand or the exact result reaches 2^32 s (the end of the float-exact range, see C09) every operator
    works on an approximation: the result is within a relative 2^-48 of the native one instead of equal to it"""
    import ast as _ast
    from fractions import Fraction

    def num(x):
        try:
            return Fraction(_ast.literal_eval(x))
        except Exception:  # noqa: BLE001
            return None

    binary = "Duration" in fl["op"] or "timedelta" in fl["op"]
    if fl.get("native_us") is not None and fl.get("got_us") is not None:
        exact, got = Fraction(fl["native_us"]), Fraction(fl["got_us"])
    else:
        exact, got = num(fl["native"]), num(fl["got"])
        if exact is None or got is None:
            return False
    lim = 2 ** 32 * 10 ** 6
    if fl["op"] in ("d*k", "k*d") or fl["op"][:2] in ("d+", "d-") or fl["op"].endswith("+d"):
        # these build the result from float seconds: operand errors add up (k * ulp/2 for a product), so the
        # exact zone ends earlier
        lim = 2 ** 30 * 10 ** 6
    big = abs(fl["a_us"]) >= lim or (binary and abs(fl["b_us"]) >= lim) or (fl.get("native_us") is not None and abs(exact) >= lim)
    if not big:
        return False
    if "%" in fl["op"] or fl["op"].endswith("[1]"):
        # the remainder of an approximated operand: any value of the divisor's sign below the divisor's magnitude
        return abs(got) <= abs(fl["b_us"]) * (1 + Fraction(1, 2 ** 40))
    scale = max(abs(exact), abs(Fraction(fl["a_us"])) if fl.get("native_us") is not None else abs(exact), 1)
    return abs(got - exact) <= scale / 2 ** 48 + 64
