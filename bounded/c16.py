"""Bounded stand-ins for C16: brute-force reference on the real classes."""
import calendar
import datetime as _dt
import random
import time

from bounded import guard
from bounded.c12 import _day_skip_near, kf_hang  # noqa: F401  (region function re-exported for known_findings.json)


def ref_in_unit(d, unit):
    if unit == "month":
        return lambda x: (x.year, x.month) == (d.year, d.month)
    if unit == "quarter":
        return lambda x: x.year == d.year and (x.month - 1) // 3 == (d.month - 1) // 3
    return lambda x: x.year == d.year


def ref_days(d, unit, wd):
    inside = ref_in_unit(d, unit)
    start = _dt.date(d.year, 1, 1)
    out = []
    x = start
    while x.year == d.year:
        if inside(x) and (wd is None or x.weekday() == wd):
            out.append(x)
        x += _dt.timedelta(days=1)
    return out


def run(ctx):
    import pendulum
    from pendulum.exceptions import PendulumException

    rng = random.Random(ctx.seed + 16)
    t0 = time.time()
    # the 14 year shapes (leap x weekday of 1 Jan) -> every month shape 28..31 x 7 starting weekdays
    years = {}
    for y in list(range(1996, 2030)) + [1900, 2100, 4, 9996]:
        years.setdefault((calendar.isleap(y), _dt.date(y, 1, 1).weekday()), y)
    fails = []
    n = 0
    for y in sorted(years.values()):
        for m in range(1, 13):
            days = (1, 15, calendar.monthrange(y, m)[1]) if ctx.tier == "quick" else range(1, calendar.monthrange(y, m)[1] + 1)
            for day in days:
                d = pendulum.Date(y, m, day)
                nd = _dt.date(y, m, day)
                for wd in range(7):
                    n += 1
                    nx, pv = d.next(pendulum.WeekDay(wd)), d.previous(pendulum.WeekDay(wd))
                    ok = nx.weekday() == wd and 1 <= (nx - nd).days <= 7 and pv.weekday() == wd and 1 <= (nd - pv).days <= 7
                    for unit, nmax in (("month", 6), ("quarter", 15), ("year", 54)):
                        ref = ref_days(nd, unit, wd)
                        ok = ok and d.first_of(unit, pendulum.WeekDay(wd)) == ref[0] and d.last_of(unit, pendulum.WeekDay(wd)) == ref[-1]
                        ok = ok and d.first_of(unit) == ref_days(nd, unit, None)[0] and d.last_of(unit) == ref_days(nd, unit, None)[-1]
                        for k in (range(1, nmax + 1) if day == 15 or ctx.tier != "quick" else (1, 2, len(ref), len(ref) + 1)):
                            try:
                                got = d.nth_of(unit, k, pendulum.WeekDay(wd))
                                ok = ok and k <= len(ref) and got == ref[k - 1]
                            except PendulumException:
                                ok = ok and k > len(ref)
                    if not ok:
                        fails.append({"date": str(d), "weekday": wd})
    ctx.record("date_navigation_all_month_shapes", n, n, "Date.next/previous/first_of/last_of/nth_of vs a brute-force scan of the year, for the 14 year shapes (leap x weekday of 1 Jan: every month shape 28-31 days x 7 "
               "starting weekdays, all quarters) x 7 weekdays x n = 1..54", failures=fails, exhaustive=ctx.tier == "thorough", secs=round(time.time() - t0, 1),
               samples=[{"date": "2024-02-15", "nth_of": ["month", 5, "THURSDAY"], "result": "2024-02-29"}])

    # DateTime incl. zones with skipped midnights
    fails = []
    n = 0
    keys = ["UTC", "Europe/Paris", "America/Sao_Paulo", "America/Havana", "Asia/Beirut", "Pacific/Apia", None, "+05:30"]
    N = 1500 if ctx.tier == "quick" else 60000
    for _ in range(N):
        tz = rng.choice(keys)
        tz = pendulum.timezone(19800) if tz == "+05:30" else tz
        y = rng.choice((2011, 2012, 2017, 2018, 2019, 2020, 2024))
        m = rng.randrange(1, 13)
        day = rng.randrange(1, calendar.monthrange(y, m)[1] + 1)
        x = pendulum.DateTime.create(y, m, day, rng.randrange(24), rng.randrange(60), 0, tz=tz)
        nd = _dt.date(x.year, x.month, x.day)
        wd = rng.randrange(7)
        keep = rng.random() < 0.3
        n += 1
        try:
            nx, pv = guard.call(lambda: (x.next(pendulum.WeekDay(wd), keep_time=keep), x.previous(pendulum.WeekDay(wd), keep_time=keep)))
        except guard.Hang:
            fails.append({"x": x.isoformat(), "zone": str(tz), "weekday": wd, "hang": True, "whole_day_skip_within_a_week": _day_skip_near(x)})
            continue
        ok = nx.weekday() == wd and pv.weekday() == wd and 1 <= (nx.date() - nd).days <= 7 and 1 <= (nd - pv.date()).days <= 7 and nx.timezone_name == x.timezone_name
        unit = rng.choice(("month", "quarter", "year"))
        ref = ref_days(nd, unit, wd)
        try:
            f, l = guard.call(lambda: (x.first_of(unit, pendulum.WeekDay(wd)), x.last_of(unit, pendulum.WeekDay(wd))))
            ok = ok and f.date() == ref[0] and l.date() == ref[-1] and f.timezone_name == x.timezone_name
            k = rng.randrange(1, len(ref) + 2)
            try:
                got = guard.call(lambda: x.nth_of(unit, k, pendulum.WeekDay(wd)))
                ok = ok and k <= len(ref) and got.date() == ref[k - 1]
            except PendulumException:
                ok = ok and k > len(ref)
        except guard.Hang:
            fails.append({"x": x.isoformat(), "zone": str(tz), "weekday": wd, "hang": True, "whole_day_skip_within_a_week": _day_skip_near(x)})
            continue
        except Exception as e:  # noqa: BLE001 - any other exception is itself a failure of the property
            fails.append({"x": x.isoformat(), "zone": str(tz), "weekday": wd, "unit": unit, "error": f"{type(e).__name__}: {e}"})
            continue
        if not ok:
            skipped_midnight = False
            if x.tzinfo is not None:
                # the scan of the unit (up to a year) passes every midnight of the year: any skipped/repeated one counts
                for k_ in range(-8, 375):
                    p = _dt.datetime(x.year, 1, 1) + _dt.timedelta(days=k_)
                    skipped_midnight = skipped_midnight or x.tzinfo.utcoffset(p.replace(fold=0)) != x.tzinfo.utcoffset(p.replace(fold=1))
            fails.append({"x": x.isoformat(), "zone": str(tz), "weekday": wd, "next": nx.isoformat(), "previous": pv.isoformat(), "boundary_skipped_or_repeated": bool(skipped_midnight)})
    ctx.record("datetime_navigation", n, n, "DateTime.next/previous/first_of/last_of/nth_of on seeded values in 8 zone kinds (incl. zones with skipped or repeated midnights and a skipped whole day): "
               "right weekday, 1-7 days away, inside the unit, timezone kept", failures=fails, samples=[{"x": "2018-11-03T12:00-03:00 America/Sao_Paulo", "next": "SUNDAY"}])
