"""Bounded stand-in for C20 on the real Time class."""
import datetime as _dt
import random


def run(ctx):
    import pendulum
    from pendulum import Time

    rng = random.Random(ctx.seed + 20)
    N = 20000 if ctx.tier == "quick" else 1000000
    D = 86400 * 10 ** 6
    fails = []
    n = 0

    def tod(t):
        return ((t.hour * 60 + t.minute) * 60 + t.second) * 10 ** 6 + t.microsecond

    def rt():
        v = rng.choice((0, 1, D - 1, D // 2, rng.randrange(D)))
        s, us = divmod(v, 10 ** 6)
        return Time(s // 3600, s // 60 % 60, s % 60, us)

    for _ in range(N):
        t, o, p = rt(), rt(), rt()
        a = dict(hours=rng.randrange(-100, 100), minutes=rng.randrange(-5000, 5000), seconds=rng.randrange(-10 ** 6, 10 ** 6),
                 microseconds=rng.choice((0, 1, -1, rng.randrange(-10 ** 9, 10 ** 9))))
        d = ((a["hours"] * 60 + a["minutes"]) * 60 + a["seconds"]) * 10 ** 6 + a["microseconds"]
        n += 1
        r = t.add(**a)
        b = r.subtract(**a)
        td = _dt.timedelta(microseconds=rng.randrange(-D + 1, D))
        ok = tod(r) == (tod(t) + d) % D and tod(b) == tod(t) and type(r) is Time
        tdus = (td.days * 86400 + td.seconds) * 10 ** 6 + td.microseconds
        if td.days == 0:
            ok = ok and tod(t + td) == (tod(t) + tdus) % D and tod(t - td) == (tod(t) - tdus) % D
        else:
            try:
                t + td
                ok = False
            except TypeError:
                pass
        diff = o - t
        dd = tod(o) - tod(t)
        ok = ok and (_dt.timedelta.__eq__(diff, _dt.timedelta(microseconds=dd))) and round(t.diff(o, False).total_seconds() * 10 ** 6) == dd
        ok = ok and round(t.diff(o).total_seconds() * 10 ** 6) == abs(dd)
        nat = _dt.time(o.hour, o.minute, o.second, o.microsecond)
        ok = ok and _dt.timedelta.__eq__(nat - t, _dt.timedelta(microseconds=dd)) and _dt.timedelta.__eq__(t - nat, _dt.timedelta(microseconds=-dd))
        d1, d2 = abs(tod(o) - tod(t)), abs(tod(p) - tod(t))
        c, f = t.closest(o, p), t.farthest(o, p)
        ok = ok and abs(tod(c) - tod(t)) == min(d1, d2) and abs(tod(f) - tod(t)) == max(d1, d2) and tod(c) in (tod(o), tod(p)) and tod(f) in (tod(o), tod(p))
        if not ok:
            fails.append({"t": str(t), "o": str(o), "p": str(p), "add": a, "r": str(r), "back": str(b), "diff": repr(diff), "closest": str(c), "farthest": str(f)})
    ctx.record("time_arithmetic", n, n, "Time add/subtract/+-timedelta/diff/closest/farthest on seeded times of day (incl. 00:00:00, 23:59:59.999999) and amounts spanning several days, either sign",
               failures=fails, samples=[{"t": "23:59:59.999999", "add": {"microseconds": 1}, "result": "00:00:00"}])
