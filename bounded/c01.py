"""Bounded stand-ins for C01 on real zones and foreign tzinfo kinds."""
import datetime as _dt
import random
import time
import zoneinfo

from bounded import zonesweep

UTC = _dt.timezone.utc


def inst(x):
    return (_dt.datetime(x.year, x.month, x.day, x.hour, x.minute, x.second, x.microsecond, tzinfo=x.tzinfo, fold=x.fold) - _dt.datetime(1970, 1, 1, tzinfo=UTC)) // _dt.timedelta(microseconds=1)


def kf_pytz_second_pass(fl):
    """known finding C01-pytz-fold: a pytz datetime in the second pass of a repeated hour carries fold=0, so
    instance() re-creates the first pass (one offset change away)"""
    if not (fl.get("kind") == "pytz" and fl.get("ambiguous") is True and "src" in fl and "got" in fl):
        return False
    import datetime as dt_

    # second pass = the smaller of the two candidate offsets; usually that is standard time (is_dst False), but in a
    # transition between two daylight offsets (Europe/London 1942: +02:00 -> +01:00) both passes have is_dst True
    a, b = dt_.datetime.fromisoformat(fl["src"]), dt_.datetime.fromisoformat(fl["got"])
    return a.replace(tzinfo=None) == b.replace(tzinfo=None) and a.utcoffset() < b.utcoffset()


def kf_pytz_lmt_rounding(fl):
    """known finding C01-pytz-lmt: pytz rounds second-granular (LMT) offsets to whole minutes; instance() keeps the
    wall clock and adopts the tz database's exact offset, so the instant moves by less than a minute"""
    if fl.get("kind") != "pytz" or fl.get("ambiguous") or "src" not in fl:
        return False
    import datetime as dt_

    a, b = dt_.datetime.fromisoformat(fl["src"]), dt_.datetime.fromisoformat(fl["got"])
    da, db = a.utcoffset().total_seconds(), b.utcoffset().total_seconds()
    # usually the wall clock is kept; when the rounded-offset wall time falls into the gap that ends the LMT era (America/Sao_Paulo
    # 1914-01-01 00:00:27) the usual gap normalisation moves it as well - same cause, so the wall clock is not part of the region
    return da % 60 == 0 and db % 60 != 0 and abs(da - db) < 60


def run(ctx):
    import pendulum

    rng = random.Random(ctx.seed + 1)
    t0 = time.time()
    names = list(pendulum.timezones())
    N = 1500 if ctx.tier == "quick" else 60000
    fails = []
    n = 0
    for _ in range(N):
        ka, kb, kc = rng.choice(names), rng.choice(names), rng.choice(names)
        trs = zonesweep.table_transitions(rng.choice((ka, kb, kc)))
        if trs:
            T, a, b = rng.choice(trs)
            ts = T + rng.choice((-1, 0, 1, abs(a - b) - 1, abs(a - b)))
        else:
            ts = rng.randrange(-2 * 10 ** 9, 4 * 10 ** 9)
        us = rng.choice((0, 1, 999999))
        try:
            A = pendulum.from_timestamp(ts, tz=ka).add(microseconds=us)
            B = A.in_timezone(kb)
            C = B.in_tz(kc)
            direct = A.in_timezone(kc)
            F = A.in_timezone(pendulum.timezone(rng.randrange(-86340, 86340, 60)))
        except (OverflowError, ValueError):
            continue
        n += 1
        ref = (_dt.datetime(1970, 1, 1, tzinfo=UTC) + _dt.timedelta(seconds=ts, microseconds=us)).astimezone(zoneinfo.ZoneInfo(kb))
        ok = (inst(A) == ts * 10 ** 6 + us and inst(B) == inst(A) and inst(C) == inst(A) and inst(F) == inst(A) and B.timezone_name == kb
              and (B.year, B.month, B.day, B.hour, B.minute, B.second, B.microsecond, B.utcoffset()) == (ref.year, ref.month, ref.day, ref.hour, ref.minute, ref.second, ref.microsecond, ref.utcoffset())
              and C == direct and C.utcoffset() == direct.utcoffset() and C.timezone_name == kc and C.fold == direct.fold
              and A.int_timestamp == ts and B.int_timestamp == ts and B.astimezone(pendulum.timezone(kc)) == direct)
        if not ok:
            fails.append({"kind": "chain", "ts": ts, "us": us, "zones": [ka, kb, kc], "A": str(A), "B": str(B), "C": str(C), "direct": str(direct)})
    ctx.record("conversion_chains_on_real_zones", n, n, "from_timestamp -> A, A->B->C vs A->C, astimezone, fixed offsets, int_timestamp on the real code for seeded zone triples out of all "
               f"{len(names)} zones, instants placed on/around real transitions (+-1 s, +-gap, +1 us)", failures=fails, secs=round(time.time() - t0, 1),
               samples=[{"ts": 1382837400, "zones": ["Europe/Paris", "America/New_York", "Asia/Tokyo"]}])

    # foreign tzinfo kinds through instance()
    import pytz
    from dateutil import tz as dtz

    fails = []
    n = 0
    keys = ["Europe/Paris", "America/New_York", "Australia/Lord_Howe", "America/Sao_Paulo", "Asia/Kolkata", "Pacific/Apia", "Europe/London"]
    M_ = 400 if ctx.tier == "quick" else 20000
    for _ in range(M_):
        key = rng.choice(keys)
        trs = [t for t in zonesweep.table_transitions(key) if t[1] != t[2] and t[0] > -2 * 10 ** 9]
        T, a, b = rng.choice(trs)
        ts = T + rng.choice((-3600, -1, 0, 1, abs(a - b) // 2, abs(a - b) - 1, abs(a - b), 7200))
        base = _dt.datetime(1970, 1, 1, tzinfo=UTC) + _dt.timedelta(seconds=ts)
        sources = {
            "zoneinfo": base.astimezone(zoneinfo.ZoneInfo(key)),
            "datetime.timezone": base.astimezone(_dt.timezone(_dt.timedelta(seconds=rng.randrange(-86340, 86340, 60)))),
            "dateutil": base.astimezone(dtz.gettz(key)),
            "dateutil.tzoffset": base.astimezone(dtz.tzoffset(None, rng.randrange(-43200, 43200, 900))),
            "pytz": base.astimezone(pytz.timezone(key)),
        }
        for kind, src in sources.items():
            n += 1
            try:
                p = pendulum.instance(src)
            except Exception as e:  # noqa: BLE001
                fails.append({"kind": kind, "zone": key, "ts": ts, "error": repr(e)})
                continue
            # the instant the SOURCE object denotes (wall clock minus its own utcoffset): dateutil renders some historical instants
            # wrongly (Europe/London double summer time 1942-43), which is not pendulum's business - instance() must keep what it is given
            if inst(p) != inst(src) or p.utcoffset() != src.utcoffset():
                amb = a > b and 0 <= ts - T < a - b
                fails.append({"kind": kind, "zone": key, "ts": ts, "src": src.isoformat(), "got": p.isoformat(), "ambiguous": bool(amb),
                              "is_dst": bool(src.dst()) if kind == "pytz" else None})
    ctx.record("instance_of_foreign_tzinfo", n, n, "pendulum.instance(dt) for dt rendered by {zoneinfo, datetime.timezone, dateutil.gettz, dateutil.tzoffset, pytz} around real transitions: same instant and offset",
               failures=fails, samples=[{"kind": "pytz", "zone": "Europe/Paris", "ts": 1382837400}])
