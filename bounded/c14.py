"""Bounded stand-in for C14: round trips through the real pickle / copy modules."""
import copy
import datetime as _dt
import pickle
import random

from bounded import zonesweep


def kf_duration_ym(fl):
    return fl.get("type") == "Duration" and fl.get("how", "").startswith(("pickle", "copy.copy")) and fl.get("has_years_or_months") is True


def kf_deepcopy_interval(fl):
    return fl.get("type") == "Interval" and fl.get("how") == "copy.deepcopy" and "TypeError" in fl.get("error", "")


def kf_datetime_fold(fl):
    # (an Interval pickles its two endpoint DateTimes: it inherits their loss of fold)
    return fl.get("type") in ("DateTime", "Interval") and fl.get("how", "").startswith(("pickle", "copy.copy")) and fl.get("fold") == 1


def run(ctx):
    import pendulum

    rng = random.Random(ctx.seed + 14)
    fails = []
    n = 0

    def ways(x):
        for p in range(0, pickle.HIGHEST_PROTOCOL + 1):
            yield f"pickle{p}", (lambda p=p: pickle.loads(pickle.dumps(x, p)))
        yield "copy.copy", lambda: copy.copy(x)
        yield "copy.deepcopy", lambda: copy.deepcopy(x)

    def obs(x):
        if isinstance(x, pendulum.DateTime):
            return ("DateTime", x.year, x.month, x.day, x.hour, x.minute, x.second, x.microsecond, x.fold, x.utcoffset(), x.timezone_name)
        if isinstance(x, pendulum.Date):
            return ("Date", x.year, x.month, x.day)
        if isinstance(x, pendulum.Time):
            return ("Time", x.hour, x.minute, x.second, x.microsecond, repr(x.tzinfo), x.utcoffset(), x.isoformat())
        if isinstance(x, pendulum.Interval):
            return ("Interval", obs(x.start), obs(x.end), x._absolute, _dt.timedelta.total_seconds(x), x.years, x.months, x.remaining_days)
        if isinstance(x, pendulum.Duration):
            return ("Duration", x.years, x.months, x.weeks, x.remaining_days, x.hours, x.minutes, x.remaining_seconds, x.microseconds, x.invert, _dt.timedelta.total_seconds(x))
        if isinstance(x, pendulum.FixedTimezone):
            return ("FixedTimezone", x.name, x.offset, x.utcoffset(None))
        if isinstance(x, pendulum.Timezone):
            return ("Timezone", x.name)
        return x

    def check(x, extra=None):
        nonlocal n
        for how, f in ways(x):
            n += 1
            try:
                y = f()
                ok = type(y) is type(x) and obs(y) == obs(x)
                if ok and isinstance(x, (pendulum.Date, pendulum.Time, pendulum.Duration)) and not isinstance(x, pendulum.DateTime):
                    ok = y == x
                err = None if ok else f"observed {obs(y)!r} expected {obs(x)!r}"
            except Exception as e:  # noqa: BLE001
                ok, err = False, f"{type(e).__name__}: {e}"
            if not ok:
                rec = {"type": type(x).__name__, "how": how, "value": repr(x), "error": err[:300]}
                rec.update(extra or {})
                fails.append(rec)

    keys = ["Europe/Paris", "America/New_York", "Australia/Lord_Howe", "America/Sao_Paulo", "UTC"]
    N = 150 if ctx.tier == "quick" else 6000
    for _ in range(N):
        key = rng.choice(keys)
        trs = [t for t in zonesweep.table_transitions(key) if t[1] > t[2]] or [(0, 0, 0)]
        T, a, b = rng.choice(trs)
        wall = _dt.datetime(1970, 1, 1) + _dt.timedelta(seconds=T + b + rng.randrange(0, max(1, a - b)))
        for fold in (0, 1):
            x = pendulum.datetime(wall.year, wall.month, wall.day, wall.hour, wall.minute, wall.second, rng.randrange(10 ** 6), tz=key, fold=fold)
            check(x, {"fold": x.fold})
        nv = pendulum.naive(wall.year, wall.month, wall.day, wall.hour, fold=rng.choice((0, 1)))
        check(nv, {"fold": nv.fold})
        check(pendulum.datetime(2020, 5, 17, 3, tz=pendulum.timezone(rng.randrange(-43200, 43200, 900))), {"fold": 0})
        check(pendulum.date(wall.year, wall.month, wall.day))
        check(pendulum.time(wall.hour, wall.minute, wall.second, rng.randrange(10 ** 6)))
        check(pendulum.Time(wall.hour, wall.minute, wall.second, rng.randrange(10 ** 6), tzinfo=pendulum.timezone(rng.choice((0, 3600, -16200, 19800)))))
        check(pendulum.Time(wall.hour, wall.minute, wall.second, tzinfo=pendulum.timezone("UTC")))
        comps = {k: rng.randrange(-50, 50) for k in rng.sample(["years", "months", "weeks", "days", "hours", "minutes", "seconds", "microseconds"], rng.randrange(1, 6))}
        d = pendulum.duration(**comps)
        check(d, {"has_years_or_months": bool(d.years or d.months)})
        s0 = pendulum.datetime(2000 + rng.randrange(30), rng.randrange(1, 13), rng.randrange(1, 28), rng.randrange(24), tz=rng.choice(keys))
        e0 = s0.add(days=rng.randrange(-400, 400), seconds=rng.randrange(86400))
        check(pendulum.Interval(s0, e0, absolute=rng.random() < 0.5), {"fold": max(s0.fold, e0.fold)})
        check(pendulum.Interval(s0.date(), e0.date()))
        check(pendulum.timezone(key))
        check(pendulum.timezone(rng.randrange(-43200, 43200, 60)))
    ctx.record("roundtrips_real_modules", n, n, "pickle protocols 0..5, copy.copy, copy.deepcopy on real values of every type: DateTime in both folds of real repeated times (5 zones), naive, fixed offset; "
               "Date, Time, Duration with random component subsets incl. years/months/weeks, Interval (DateTime and Date, absolute or not), Timezone, FixedTimezone: same type, same public accessors, == where defined",
               failures=fails, samples=[{"type": "DateTime", "how": "pickle2", "value": "2013-10-27T02:30+01:00 (fold 1)"}])
