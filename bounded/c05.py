"""Bounded stand-ins for C05 on the real code: exactness of float lengths and real zones."""
import datetime as _dt
import random
import time

from bounded import zonesweep

UTC = _dt.timezone.utc


def inst(x):
    if isinstance(x, _dt.datetime):
        if x.tzinfo is None:
            return (_dt.datetime(x.year, x.month, x.day, x.hour, x.minute, x.second, x.microsecond) - _dt.datetime(1970, 1, 1)) // _dt.timedelta(microseconds=1)
        return (_dt.datetime(x.year, x.month, x.day, x.hour, x.minute, x.second, x.microsecond, tzinfo=x.tzinfo, fold=x.fold) - _dt.datetime(1970, 1, 1, tzinfo=UTC)) // _dt.timedelta(microseconds=1)
    return x.toordinal() * 86400 * 10 ** 6


def us_of(td):
    return (_dt.timedelta.days.__get__(td) * 86400 + _dt.timedelta.seconds.__get__(td)) * 10 ** 6 + _dt.timedelta.microseconds.__get__(td)


def kf_overlap(fl):
    return fl.get("same_tz_object") and fl.get("wall_order_differs") and fl.get("clause") == "magnitude"


def run(ctx):
    import pendulum

    rng = random.Random(ctx.seed + 5)
    t0 = time.time()
    keys = ["Europe/Paris", "America/New_York", "Australia/Lord_Howe", "America/Sao_Paulo", "Asia/Tokyo", "UTC", "Pacific/Apia"]
    N = 6000 if ctx.tier == "quick" else 300000
    fails = []
    n = 0

    def rnd_dt():
        key = rng.choice(keys)
        if rng.random() < 0.6:
            trs = zonesweep.table_transitions(key)
            T, a, b = rng.choice(trs) if trs else (0, 0, 0)
            ts = T + rng.choice((-1, 0, 1, 1800, abs(a - b) - 1, abs(a - b), -3600))
            ts = max(min(ts, 250000000000), -62000000000)
        else:
            ts = rng.randrange(-62000000000, 250000000000)
        try:
            return pendulum.from_timestamp(ts, tz=key).add(microseconds=rng.choice((0, 1, 999999, rng.randrange(10 ** 6))))
        except (OverflowError, ValueError):
            return pendulum.from_timestamp(0, tz=key)

    for _ in range(N):
        a, b = rnd_dt(), rnd_dt()
        mode = rng.random()
        if mode < 0.25:
            b = b.in_timezone(a.timezone)
        elif mode < 0.35:
            a, b = a.naive(), b.naive()
        elif mode < 0.45:
            a, b = a.date(), b.date()
        n += 1
        d = inst(b) - inst(a)
        span = abs(d)
        tol = 0 if span < 2 ** 33 * 10 ** 6 else 64
        iv, dflt = b - a, a.diff(b)
        checks = {"signed": us_of(iv) - d, "diff_signed": us_of(a.diff(b, False)) - d, "interval": (us_of(pendulum.interval(a, b)) - d) if isinstance(a, _dt.datetime) else 0,
                  "negated": us_of(a - b) + d, "magnitude": us_of(dflt) - abs(d), "abs": us_of(abs(iv)) - abs(d)}
        bad = [k for k, v in checks.items() if abs(v) > tol]
        if iv.in_seconds() != int(us_of(iv) / 10 ** 6) and abs(iv.in_seconds() - (abs(us_of(iv)) // 10 ** 6) * (1 if us_of(iv) >= 0 else -1)) > 0:
            bad.append("in_seconds")
        for k in bad:
            same_obj = isinstance(a, _dt.datetime) and a.tzinfo is not None and a.tzinfo is b.tzinfo
            wall = (lambda x: (x.year, x.month, x.day, x.hour, x.minute, x.second, x.microsecond))
            fails.append({"a": a.isoformat(), "b": b.isoformat(), "folds": [getattr(a, "fold", 0), getattr(b, "fold", 0)], "clause": "magnitude" if k in ("magnitude", "abs") else k,
                          "error_us": checks.get(k), "same_tz_object": bool(same_obj),
                          "wall_order_differs": bool(same_obj and ((wall(a) > wall(b)) != (inst(a) > inst(b))))})
    ctx.record("lengths_on_real_values", n, n, "b - a, diff, interval(), abs on the real code vs integer instants: exact below 2^33 s, within 64 us beyond; pairs over years 1..9999, "
               "7 zones (same object / same name / different), endpoints around real transitions and in both folds, naive and Date pairs", failures=fails,
               secs=round(time.time() - t0, 1), samples=[{"a": "2013-10-27T02:30+02:00", "b": "2013-10-27T02:30+01:00", "length_s": 3600}])
