"""Bounded stand-ins for C07: constructive-oracle sweeps of both parser backends, end-to-end round trips.
The pure-Python parser is ALSO proved per shape (contracts/parsing.py); the compiled parser is only ever checked here."""
import json
import os
import subprocess
import sys
import threading

ROOT = os.path.dirname(os.path.dirname(os.path.abspath(__file__)))


# ---- known-finding regions (see known_findings.json): failures of the compiled parser only
def kf_rust_last_day_of_month(fl):
    """ordinal_to_ymd compares `ord < MONTHS_OFFSETS[..]` instead of `<=`: an ordinal or week date that falls on the
    last day of a month is rejected"""
    return fl.get("backend") == "rust" and fl.get("kind") == "rejected" and fl.get("last_day_of_month") is True and \
        fl.get("form") in ("Y-O", "YO", "Y-Ww-D", "YWwD", "Y-Ww", "YWw")


def kf_rust_t_extended_seconds(fl):
    """a time-only string 'Thh:mm:ss...' is rejected: the basic/extended consistency check looks at a date that is absent"""
    return fl.get("backend") == "rust" and fl.get("kind") == "rejected" and fl.get("form") == "time" and fl.get("lead") == "T" and fl.get("time") == "hh:mm:ss"


def kf_rust_bare_basic_time(fl):
    """'hh' and 'hhmmss' without the T designator are read as the beginning of a date by the compiled parser"""
    return fl.get("backend") == "rust" and fl.get("kind") == "rejected" and fl.get("form") == "time" and fl.get("bare") is True


def kf_rust_week_zero(fl):
    """week 00 and weekday 0 are accepted (the lower bounds are not checked)"""
    return fl.get("backend") == "rust" and fl.get("kind") == "accepted-invalid" and fl.get("week_or_weekday_zero") is True


def kf_rust_offset_range(fl):
    """'+24:00', '+05:99': the compiled parser accepts an offset of exactly 24 h (the resulting DateTime's utcoffset() raises) and
    minutes above 59"""
    return fl.get("backend") == "rust" and fl.get("kind") == "accepted-invalid" and fl.get("offset_out_of_range") is True


def kf_time_offset_dropped(fl):
    """either backend: pendulum.parse of a time-only string with an offset returns a naive Time (parser.py rebuilds the Time from
    hour..microsecond only); parse_iso8601 itself keeps the offset"""
    return fl.get("kind") == "time-offset-dropped" and fl.get("form") == "time"


def _worker(script, env, payload, timeout):
    p = subprocess.run([sys.executable, os.path.join(ROOT, "bounded", script)], input=json.dumps(payload), capture_output=True, text=True,
                       env=env, timeout=timeout)
    if p.returncode != 0:
        raise RuntimeError(f"{script} failed: {p.stderr[-1500:]}")
    out = json.loads(p.stdout.strip().splitlines()[-1])
    if "error" in out:
        raise RuntimeError(out["error"])
    return out


def run_both_backends(ctx, scripts, seed_shift=7):
    """run the worker scripts once with the pure-Python backend (in parallel) and once with the Rust extension rebuilt
    from the working tree; record every item of every worker"""
    from bounded import rustdiff

    repo = os.environ.get("PYVC_REPO", "/repo")
    timeout = 1200 if ctx.tier == "quick" else 8 * 3600
    results = {"python": [], "rust": []}

    def py():
        env = dict(os.environ, PENDULUM_EXTENSIONS="0", PYTHONPATH=f"{os.path.join(repo, 'src')}:{ROOT}", PYTHONHASHSEED="0")
        for sc in scripts:
            try:
                results["python"].append(_worker(sc, env, dict(backend="python", seed=ctx.seed + seed_shift, tier=ctx.tier), timeout))
            except Exception as e:  # noqa: BLE001
                results["python"].append(e)

    th = threading.Thread(target=py)
    th.start()
    with rustdiff.rust_overlay(repo) as (ov, info):
        if ov is None:
            results["rust"].append(RuntimeError(f"rust backend could not be rebuilt: {info}"))
        else:
            env = dict(os.environ, PENDULUM_EXTENSIONS="1", PYTHONPATH=f"{ov}:{ROOT}", PYTHONHASHSEED="0")
            for sc in scripts:
                try:
                    out = _worker(sc, env, dict(backend="rust", seed=ctx.seed + seed_shift, tier=ctx.tier), timeout)
                    out["build"] = info
                    results["rust"].append(out)
                except Exception as e:  # noqa: BLE001
                    results["rust"].append(e)
    th.join()
    for backend in ("python", "rust"):
        for out in results[backend]:
            if isinstance(out, Exception):
                ctx.run.errors.append(f"{backend} sweep did not run: {out}")
                continue
            for it in out["items"]:
                rule = it["rule"] + (f" [cargo build {out['build']:.0f}s]" if backend == "rust" else "")
                ctx.record(it["name"], it["evaluations"], it["distinct"], rule, exhaustive=it["exhaustive"], failures=it["failures"],
                           kind="rust-differential" if backend == "rust" else "stand-in", secs=it.get("secs"),
                           samples=[{"backend": out["module"]}] + [{"class": c} for c in it.get("failure_classes", [])[:4]])


def run(ctx):
    run_both_backends(ctx, ["iso_worker.py"])
