"""Differential: Rust calendar helpers vs the (proved) pure-Python helpers.  Runs with the rebuilt
extension on the path; prints one JSON line."""
import datetime
import json
import random
import sys

payload = json.loads(sys.stdin.read())
import pendulum._helpers as py
import pendulum._pendulum as rs

assert rs.__file__.endswith(".so")
out = {"backend_file": rs.__file__, "items": []}
fails = []
n = 0
for y in range(1, 10000):
    for name in ("is_leap", "is_long_year", "days_in_year"):
        a, b = getattr(py, name)(y), getattr(rs, name)(y)
        n += 1
        if a != b:
            fails.append({"fn": name, "args": [y], "python": a, "rust": b})
out["items"].append({"name": "rust.year_functions", "evaluations": n, "distinct": n, "exhaustive": True, "failures": fails[:20],
                     "rule": "is_leap, is_long_year, days_in_year on every year 1..9999: Rust == proved Python function"})

fails = []
n = 0
if payload["all_dates"]:
    ords = range(1, 3652060)
else:
    rng = random.Random(payload["seed"])
    ords = sorted(set([1, 2, 3652059] + [datetime.date(y, m, d).toordinal() for y in range(1, 10000, 7) for (m, d) in ((1, 1), (2, 28), (3, 1), (12, 31))]
                      + [rng.randrange(1, 3652060) for _ in range(200000)]))
for o in ords:
    d = datetime.date.fromordinal(o)
    a, b = py.week_day(d.year, d.month, d.day), rs.week_day(d.year, d.month, d.day)
    n += 1
    if a != b or a != d.isoweekday():
        fails.append({"fn": "week_day", "args": [d.year, d.month, d.day], "python": a, "rust": b, "stdlib": d.isoweekday()})
out["items"].append({"name": "rust.week_day", "evaluations": n, "distinct": n, "exhaustive": bool(payload["all_dates"]), "failures": fails[:20],
                     "rule": "week_day on " + ("all 3,652,059 dates" if payload["all_dates"] else "year/month boundaries + seeded sample of dates") + ": Rust == Python == date.isoweekday"})

fails = []
n = 0
rng = random.Random(payload["seed"] + 1)
E0 = 719163
offs = [0, 1, -1, 86399, -86399, 3600, -3600, 19800, -16200]
def cases():
    if payload["all_boundaries"]:
        for o in range(2, 3652059):
            base = (o - E0) * 86400
            for dt in (-1, 0, 1):
                yield base + dt, offs[(o + dt) % len(offs)]
    else:
        for _ in range(payload["n_local_time"]):
            o = rng.randrange(2, 3652059)
            base = (o - E0) * 86400
            yield base + rng.choice((-1, 0, 1, rng.randrange(86400))), rng.choice(offs + [rng.randrange(-86399, 86400)])
for t, off in cases():
    loc = t + off
    if not (-62135596800 <= loc <= 253402300799):
        continue
    us = (t * 7) % 1000000
    a, b = py.local_time(t, off, us), rs.local_time(t, off, us)
    n += 1
    ref = datetime.datetime(1970, 1, 1) + datetime.timedelta(seconds=loc)
    exp = (ref.year, ref.month, ref.day, ref.hour, ref.minute, ref.second, us)
    if tuple(a) != tuple(b) or tuple(a) != exp:
        fails.append({"fn": "local_time", "args": [t, off, us], "python": list(a), "rust": list(b), "stdlib": list(exp)})
out["items"].append({"name": "rust.local_time", "evaluations": n, "distinct": n, "exhaustive": False, "failures": fails[:20],
                     "rule": "local_time(t, offset) on day boundaries +-1 s and random seconds x offsets in (-86400, 86400): Rust == Python == datetime arithmetic"})
print(json.dumps(out))
