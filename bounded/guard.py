"""wall-clock guard for calls into the real code that may not terminate"""
import signal


class Hang(Exception):
    pass


def call(fn, seconds=2.0):
    def handler(signum, frame):
        raise Hang()

    old = signal.signal(signal.SIGALRM, handler)
    signal.setitimer(signal.ITIMER_REAL, seconds)
    try:
        return fn()
    finally:
        signal.setitimer(signal.ITIMER_REAL, 0)
        signal.signal(signal.SIGALRM, old)
