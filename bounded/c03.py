"""Bounded stand-ins for C03: exact elapsed-time arithmetic on real zones (what A-FLOAT and the zone model assume)."""
import datetime as _dt
import random
import time

from bounded import zonesweep


def run(ctx):
    import pendulum

    rng = random.Random(ctx.seed + 3)
    t0 = time.time()
    keys = ["Europe/Paris", "Australia/Lord_Howe", "Pacific/Kiritimati", "America/Sao_Paulo", "America/Havana", "Asia/Kathmandu",
            "Pacific/Apia", "America/St_Johns", "Europe/Dublin", "UTC", "Africa/Casablanca"]
    N = 6000 if ctx.tier == "quick" else 300000
    fails = []
    n = 0
    UTC = _dt.timezone.utc
    for i in range(N):
        key = rng.choice(keys)
        tz = pendulum.timezone(key)
        trs = zonesweep.table_transitions(key)
        if trs and rng.random() < 0.8:
            T = rng.choice(trs)[0] + rng.choice((-1, 0, 1)) * rng.choice((0, 1, 1800, 3599, 3600, 86399))
        else:
            T = rng.randrange(-10 ** 9, 4 * 10 ** 9)
        us = rng.choice((0, 1, 999999, rng.randrange(10 ** 6)))
        try:
            start = pendulum.from_timestamp(T, tz=key).add(microseconds=us)
        except (OverflowError, ValueError, OSError):
            continue
        if rng.random() < 0.15:
            start = start.naive()
        e = rng.uniform(0, 9)
        comps = dict(hours=rng.choice((-1, 1)) * int(10 ** rng.uniform(0, 5.4)) * rng.choice((0, 1)), minutes=rng.randrange(-10 ** 4, 10 ** 4),
                     seconds=rng.choice((-1, 1)) * int(10 ** e), microseconds=rng.randrange(-10 ** 7, 10 ** 7))
        d = ((comps["hours"] * 3600 + comps["minutes"] * 60 + comps["seconds"]) * 10 ** 6 + comps["microseconds"])
        if abs(d) > 10 ** 15:
            continue
        n += 1
        try:
            r = start.add(**comps)
            back = r.subtract(**comps)
            td = _dt.timedelta(microseconds=d)
            r2, r3 = start + td, start - td
        except OverflowError:
            continue
        def inst(x):
            if x.tzinfo is None:
                return (x - _dt.datetime(1970, 1, 1)) // _dt.timedelta(microseconds=1)
            return (_dt.datetime(x.year, x.month, x.day, x.hour, x.minute, x.second, x.microsecond, tzinfo=x.tzinfo, fold=x.fold) - _dt.datetime(1970, 1, 1, tzinfo=UTC)) // _dt.timedelta(microseconds=1)
        ok = inst(r) == inst(start) + d and inst(back) == inst(start) and back.utcoffset() == start.utcoffset() and inst(r2) == inst(start) + d and inst(r3) == inst(start) - d
        if ok and start.tzinfo is not None:
            ref = _dt.datetime.fromtimestamp(0, UTC) + _dt.timedelta(microseconds=inst(r))
            ref = ref.astimezone(tz)
            ok = (r.year, r.month, r.day, r.hour, r.minute, r.second, r.microsecond, r.utcoffset()) == (ref.year, ref.month, ref.day, ref.hour, ref.minute, ref.second, ref.microsecond, ref.utcoffset()) and r.timezone_name == key
        if not ok:
            fails.append({"start": start.isoformat(), "zone": key, "fold": start.fold, "add": comps, "result": r.isoformat(), "back": back.isoformat()})
    ctx.record("fixed_units_on_real_zones", n, n, "start.add(h,m,s,us) / subtract / +- timedelta on the real code: instant difference exactly the amount (integer microseconds), "
               "fields = the zone's rendering, subtract returns to the original instant and offset; starts placed around real transitions of 11 zones (both folds) and naive; |amount| up to 1e9 s, mixed signs",
               failures=fails, secs=round(time.time() - t0, 1), samples=[{"start": "2013-03-31T01:59:59+01:00 Europe/Paris", "add": {"seconds": 1}, "result": "03:00:00+02:00"}])
