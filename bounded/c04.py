"""Bounded stand-ins for C04: calendar arithmetic on the real code vs dateutil.relativedelta (independent
implementation of 'shift months, clamp, then add days/time') and the Duration operator identities."""
import datetime as _dt
import random
import time


def run(ctx):
    import pendulum
    from dateutil.relativedelta import relativedelta

    rng = random.Random(ctx.seed + 4)
    t0 = time.time()
    N = 8000 if ctx.tier == "quick" else 400000
    zones_ = ["UTC", "Europe/Paris", "America/Sao_Paulo", "Australia/Lord_Howe", "Pacific/Apia", "America/Havana", None, "+05:30"]
    fails = []
    n = 0
    for i in range(N):
        y = rng.choice((rng.randrange(1900, 2100), rng.randrange(2, 9998)))
        mo = rng.randrange(1, 13)
        d = rng.choice((28, 29, 30, 31, rng.randrange(1, 29)))
        try:
            base = _dt.datetime(y, mo, d, rng.randrange(24), rng.randrange(60), rng.randrange(60), rng.randrange(10 ** 6))
        except ValueError:
            continue
        u = dict(years=rng.randrange(-30, 30), months=rng.choice((0, 1, -1, 12, -13, rng.randrange(-40, 40))), weeks=rng.randrange(-5, 5),
                 days=rng.choice((0, 1, -1, 31, -45, rng.randrange(-400, 400))), hours=rng.randrange(-50, 50), minutes=rng.randrange(-100, 100),
                 seconds=rng.randrange(-4000, 4000), microseconds=rng.randrange(-2 * 10 ** 6, 2 * 10 ** 6))
        tz = rng.choice(zones_)
        tz = pendulum.timezone(19800) if tz == "+05:30" else tz
        try:
            ref = base + relativedelta(**u)
            if not (2 <= ref.year <= 9997):
                continue
        except (ValueError, OverflowError):
            continue
        n += 1
        try:
            start = pendulum.DateTime.create(base.year, base.month, base.day, base.hour, base.minute, base.second, base.microsecond, tz=tz)
            got = start.add(**u)
            exp = pendulum.DateTime.create(ref.year, ref.month, ref.day, ref.hour, ref.minute, ref.second, ref.microsecond, tz=tz)
            sub = start.subtract(**{k: -v for k, v in u.items()})
            dur = pendulum.duration(**u)
            ok = True
            if any(u[k] for k in ("years", "months", "weeks", "days")) and (start.year, start.month, start.day, start.hour, start.minute, start.second, start.microsecond) == (base.year, base.month, base.day, base.hour, base.minute, base.second, base.microsecond):
                ok = got == exp and got.utcoffset() == exp.utcoffset() and got.timezone_name == exp.timezone_name
            ok = ok and sub == got and sub.utcoffset() == got.utcoffset()
            m1, m2 = start - dur, start + (-dur)
            m3 = start.subtract(years=dur.years, months=dur.months, weeks=dur.weeks, days=dur.remaining_days, hours=dur.hours, minutes=dur.minutes,
                                seconds=dur.remaining_seconds, microseconds=dur.microseconds)
            ok = ok and m1 == m2 == m3 and m1.utcoffset() == m2.utcoffset() == m3.utcoffset()
            # Date
            pd = pendulum.Date(base.year, base.month, base.day)
            du = {k: u[k] for k in ("years", "months", "weeks", "days")}
            rd = base.date() + relativedelta(**du)
            ok = ok and pd.add(**du) == rd and pd.subtract(**{k: -v for k, v in du.items()}) == rd and type(pd.add(**du)) is pendulum.Date
        except (OverflowError, ValueError) as e:
            continue
        if not ok:
            fails.append({"start": str(start), "tz": str(tz), "units": u, "got": str(got), "relativedelta": str(exp), "minus": [str(m1), str(m2), str(m3)]})
    ctx.record("calendar_arithmetic_vs_relativedelta", n, n, "DateTime/Date .add/.subtract with random signed (y, mo, w, d, h, mi, s, us) vs dateutil.relativedelta on the wall clock + "
               "construction-rule normalisation, 8 zone kinds incl. naive and fixed offset, month-end days; plus dt - d == dt + (-d) == dt.subtract(components)",
               failures=fails, secs=round(time.time() - t0, 1), samples=[{"start": "2012-01-31", "add": {"months": 1}, "result": "2012-02-29"}])
