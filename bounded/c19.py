"""Bounded stand-in for C19 on the real Interval class."""
import datetime as _dt
import random
import time

from bounded import guard


def kf_day_skip(fl):
    """known finding C19-day-skip: stepping by days across a skipped whole calendar day yields the day after it twice"""
    return fl.get("clause") == "strictly_monotone" and fl.get("whole_day_skip") is True


def run(ctx):
    import pendulum

    rng = random.Random(ctx.seed + 19)
    t0 = time.time()
    N = 400 if ctx.tier == "quick" else 20000
    units = ("years", "months", "weeks", "days", "hours", "minutes", "seconds", "microseconds")
    zones_ = ["UTC", "Europe/Paris", "America/Sao_Paulo", "Pacific/Kwajalein", "Pacific/Apia", None, "+05:30"]
    fails = []
    n = 0
    steps = 0
    for _ in range(N):
        tz = rng.choice(zones_)
        tz = pendulum.timezone(19800) if tz == "+05:30" else tz
        unit = rng.choice(units)
        amount = rng.randrange(1, 13)
        y = rng.choice((1993, 2011, 2012, 2019, 2020, 2024))
        mo = rng.randrange(1, 13)
        d = rng.choice((28, 29, 30, 31, rng.randrange(1, 28)))
        try:
            a = pendulum.DateTime.create(y, mo, d, rng.randrange(24), rng.randrange(60), rng.randrange(60), tz=tz)
        except ValueError:
            continue
        span_steps = rng.choice((0, 1, 2, 7, 40, rng.randrange(1, 300 if ctx.tier == "quick" else 10000)))
        per = {"years": 366 * 86400, "months": 31 * 86400, "weeks": 7 * 86400, "days": 86400, "hours": 3600, "minutes": 60, "seconds": 1, "microseconds": 1e-6}[unit]
        try:
            b = a.add(seconds=int(span_steps * amount * per) + rng.choice((0, 0, 1))) if unit != "microseconds" else a.add(microseconds=span_steps * amount + rng.choice((0, 1)))
        except (OverflowError, ValueError):
            continue
        if unit in ("years", "months") and rng.random() < 0.6:
            # calendar units: ends placed ON and next to the k-th calendar anniversary of the start (clamped month ends, the day
            # before / after it, one microsecond either side) - where "reachable", "not beyond the end" and clamping meet
            try:
                kk = min(span_steps, 400 if unit == "years" else 4000)
                b = a.add(**{unit: kk * amount})
                b = rng.choice((b, b, b.subtract(days=1), b.add(days=1), b.subtract(microseconds=1), b.add(microseconds=1), b.subtract(days=rng.randrange(1, 4))))
            except (OverflowError, ValueError):
                continue
        if b.year > 9000:
            continue
        mode = rng.random()
        use_date = mode < 0.2 and unit in ("years", "months", "weeks", "days")
        A, B = (a.date(), b.date()) if use_date else (a, b)
        for (s, e, absolute) in ((A, B, False), (B, A, False), (B, A, True)):
            n += 1
            iv = pendulum.Interval(s, e, absolute=absolute)
            try:
                vals = guard.call(lambda: list(iv.range(unit, amount)), 5.0)
            except guard.Hang:
                fails.append({"start": str(s), "end": str(e), "unit": unit, "amount": amount, "clause": "finite"})
                continue
            steps += len(vals)
            fwd = absolute or not (s > e)
            st_, en_ = iv.start, iv.end
            bad = None
            for k, v in enumerate(vals):
                exp = st_.add(**{unit: k * amount}) if fwd else st_.subtract(**{unit: k * amount})
                if k == 0:
                    exp = st_
                if v != exp or (hasattr(v, "utcoffset") and v.utcoffset() != exp.utcoffset()):
                    bad = "kth_value_from_start"
                    break
                if not (min(st_, en_) <= v <= max(st_, en_)) or v not in iv and not (absolute is False and s > e):
                    bad = "contained"
                    break
                # monotone in the order of the instants (two values of one tzinfo object compare by wall clock under CPython's
                # same-tzinfo rule - C11-same-tz-order - which inside a repeated hour is not the order of the instants)
                pos = (lambda x: (x.int_timestamp, x.microsecond)) if hasattr(v, "utcoffset") and v.utcoffset() is not None else (lambda x: x)
                if k and not ((pos(v) > pos(vals[k - 1])) if fwd else (pos(v) < pos(vals[k - 1]))):
                    bad = "strictly_monotone"
                    break
            if bad is None and vals:
                nxt = st_.add(**{unit: len(vals) * amount}) if fwd else st_.subtract(**{unit: len(vals) * amount})
                if (nxt <= en_) if fwd else (nxt >= en_):
                    bad = "stops_at_last_value_not_beyond_end"
                if (en_ in vals) != any((st_.add(**{unit: k * amount}) if fwd else st_.subtract(**{unit: k * amount})) == en_ for k in range(len(vals) + 1)):
                    bad = "end_yielded_iff_reachable"
            if bad is None and not vals:
                bad = "start_is_yielded"
            if bad:
                skip = False
                if hasattr(st_, "tzinfo") and st_.tzinfo is not None:
                    lo, hi = (min(st_, en_), max(st_, en_))
                    p = _dt.datetime(lo.year, lo.month, lo.day, 12)
                    while p.date() <= _dt.date(hi.year, hi.month, hi.day) and not skip:
                        o0, o1 = st_.tzinfo.utcoffset(p.replace(fold=0)), st_.tzinfo.utcoffset(p.replace(fold=1))
                        skip = o1 > o0 and (o1 - o0) >= _dt.timedelta(hours=23)
                        p += _dt.timedelta(days=1)
                fails.append({"start": str(s), "end": str(e), "absolute": absolute, "unit": unit, "amount": amount, "clause": bad, "whole_day_skip": bool(skip)})
    ctx.record("range_on_real_intervals", n, n, f"Interval.range(unit, n) on the real class: 8 units x step 1..12, forward / inverted / absolute, DateTime in 7 zone kinds and Date, starts on days 29-31 for month/year stepping; "
               f"{steps} yielded values checked: k-th value == start.add(unit=k*n), contained, strictly monotone, stops at the last value not beyond the end, end yielded iff reachable, finite",
               failures=fails, secs=round(time.time() - t0, 1), samples=[{"start": "2012-01-31", "unit": "months", "amount": 1, "values": ["2012-01-31", "2012-02-29", "2012-03-31"]}])
