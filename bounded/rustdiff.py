"""Rebuilds the Rust extension from the working tree into a scratch directory (outside /repo and
/verif, removed afterwards) and runs worker scripts with it loaded as pendulum._pendulum through an
overlay package directory.  Rust code is never counted as proved: bounded differential only."""
from __future__ import annotations

import contextlib
import json
import os
import shutil
import subprocess
import sys
import tempfile
import time

ROOT = os.path.dirname(os.path.dirname(os.path.abspath(__file__)))


@contextlib.contextmanager
def rust_overlay(repo):
    """yields (overlay_path, build_seconds) or (None, reason) when the build fails"""
    scratch = tempfile.mkdtemp(prefix="pyvc_rust_")
    try:
        t0 = time.time()
        env = dict(os.environ, CARGO_NET_OFFLINE="true", PYO3_PYTHON="/venv/bin/python")
        p = subprocess.run(["cargo", "build", "--release", "--offline", "--manifest-path", os.path.join(repo, "rust", "Cargo.toml"),
                            "--target-dir", os.path.join(scratch, "target")], capture_output=True, text=True, env=env)
        if p.returncode != 0:
            yield None, "cargo build failed: " + p.stderr[-800:]
            return
        ov = os.path.join(scratch, "overlay")
        pkg = os.path.join(ov, "pendulum")
        os.makedirs(pkg)
        src = os.path.join(repo, "src", "pendulum")
        for name in os.listdir(src):
            if name.endswith(".so") or name == "__pycache__":
                continue
            os.symlink(os.path.join(src, name), os.path.join(pkg, name))
        shutil.copy(os.path.join(scratch, "target", "release", "lib_pendulum.so"),
                    os.path.join(pkg, "_pendulum.cpython-312-x86_64-linux-gnu.so"))
        yield ov, time.time() - t0
    finally:
        shutil.rmtree(scratch, ignore_errors=True)


def run_worker(overlay, script, payload, timeout=3600):
    """run bounded/<script> in a subprocess with the rebuilt extension; returns parsed JSON"""
    env = dict(os.environ, PENDULUM_EXTENSIONS="1", PYTHONPATH=f"{overlay}:{ROOT}", PYTHONHASHSEED="0")
    p = subprocess.run([sys.executable, os.path.join(ROOT, "bounded", script)], input=json.dumps(payload), capture_output=True,
                       text=True, env=env, timeout=timeout)
    if p.returncode != 0:
        raise RuntimeError(f"worker {script} failed: {p.stderr[-1500:]}")
    return json.loads(p.stdout.strip().splitlines()[-1])
