"""C18 Human-readable differences are total, localized and correctly directed."""
ID = "C18"
CONTRACTS = ["pendulum.formatting.difference_formatter.DifferenceFormatter.format"]
