"""C18 Human-readable differences are total, localized and correctly directed."""
from contracts.humans import LOCALES, _format_case
from pyvc import sym
from pyvc.sym import And, Not

ID = "C18"


class _canary_direction:
    """falsified: claims the 'ago' marker is used when the instance is LATER than now"""
    _c = _format_case("en")
    args = _c.args

    def result(F, **k):
        raise NotImplementedError

    def ensures(result, self, diff, is_now, absolute, locale):
        from contracts.humans import _marker
        from pyvc.stdlib import Formatted

        tmpl = result.template if isinstance(result, Formatted) else result
        mk = _marker(getattr(tmpl, "key", None))
        if mk in ("ago", ".past"):
            return [("ago_means_later", diff._invert)]
        return []


CONTRACTS = ["pendulum.formatting.difference_formatter.DifferenceFormatter.format"]
CANARIES = [("ago_marker_for_the_future", "pendulum.formatting.difference_formatter.DifferenceFormatter.format", _canary_direction)]
ASSUMPTIONS = [
    "the diff passed to the formatter is the absolute Interval diff() builds: non-negative canonical components (C06), invert == instance later than the reference",
    "Locale.get/Locale.load are pure look-ups: executed natively on their concrete arguments (the real code, not a model); the plural rules - lambdas in the locale data files - are executed from their source",
    "str.format: only the placeholder structure is checked (positional fields exist); the rendered text is abstract",
    "Duration.in_words / Interval.in_words (2^7 x plural-class paths), Locale.ordinalize and the locale tokens of format() are checked bounded: all 27 locales x units x counts, the plural class and the single-unit phrase compared with the rule and template read directly from the locale's data module",
    "the count-and-unit clause is stated on the phrase that carries the count: the result itself, or - relative to another value - the inner phrase that custom.before/after wraps",
]
EXPLANATION = "DifferenceFormatter.format is executed symbolically for each of the 27 shipped locales with symbolic components and flags: no exception, a non-empty template with positional placeholders, the direction marker matches (invert, is_now, absolute), the count is the documented rounding of the largest unit."


def bounded(ctx):
    from bounded import c18

    c18.run(ctx)


MANIFEST_ENTRY = {
    "text": "DifferenceFormatter.format is proved, separately for each of the 27 shipped locales (real locale data, plural rules executed from their source) and for all component values and flag combinations, to return a non-empty translation template whose placeholders are positional (no KeyError/TypeError/IndexError), to carry the past/future/before/after marker exactly according to (invert, is_now) and none when absolute, and to show the largest non-zero unit itself (the unit named by the translation key) with a count that is that unit's value or one more, at least 1 (eleven months and more than 15 days: '1 year').",
    "note": "Trusted: pyvc, z3/cvc5. Locale look-ups run natively on concrete keys. Bounded (not proved): in_words, ordinalize, locale-dependent format tokens - exhaustive over locales x units x counts 0..1000 in the thorough tier. One genuine defect found by a refuted obligation and fixed (zh templates, 9a2dca6).",
    "technique": "contract-based deductive verification per locale (symbolic execution of the real formatter over the real locale data, z3/cvc5); bounded exhaustive enumeration for in_words/ordinalize/tokens",
    "design_ref": "DESIGN.md section 8 (C18)",
}
