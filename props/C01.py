"""C01 Timezone conversion preserves the instant and matches the tz database."""
import pendulum
from pendulum.datetime import DateTime
from pendulum.tz.timezone import Timezone

from contracts.dt import EPOCH_W, fresh_pdt
from contracts.tz import fresh_fixed
from pyvc import spec, stdlib, sym, zones
from pyvc.contract import contract
from pyvc.spec import M
from pyvc.sym import And, If, Implies, Not, Or, eq, ge, gt, le, lt, ne

ID = "C01"


def c01_chain(a, tz_b, tz_c):
    b = a.in_timezone(tz_b)
    c = b.in_tz(tz_c)
    direct = a.in_timezone(tz_c)
    return b, c, direct


def c01_timestamp(ts, tz):
    d = pendulum.from_timestamp(ts, tz)
    return d, d.int_timestamp


def _inr(tz, u):
    return And(stdlib.in_dt_range(u), stdlib.in_dt_range(zones.render_wall(tz, u)))


def _chain_case(mk_b):
    class case:
        def args(F):
            za, ca = stdlib.fresh_zone(F, Timezone, "za", k=1)
            zb, cb = mk_b(F, "zb")
            zc, cc = stdlib.fresh_zone(F, Timezone, "zc", k=1)
            a, inv = fresh_pdt(F, za, "a")
            return dict(a=a, tz_b=zb, tz_c=zc), [ca, cb, cc, inv]

        def requires(a, tz_b, tz_c):
            u = zones.instant(a)
            return [("representable_everywhere", And(_inr(tz_b, u), _inr(tz_c, u)))]

        def result(F, **k):
            raise NotImplementedError

        def ensures(result, a, tz_b, tz_c):
            b, c, direct = result
            u = zones.instant(a)
            return [("b_same_instant", eq(zones.instant(b), u)), ("b_reports_requested_zone", zones.same_zone(b.tzinfo, tz_b)),
                    ("b_fields_and_offset_from_tz_database", And(eq(spec.wall_us(b), zones.render_wall(tz_b, u)), eq(zones.offset_of(b), zones.off_utc(tz_b, u)))),
                    ("a_to_b_to_c_equals_a_to_c", And(eq(spec.wall_us(c), spec.wall_us(direct)), eq(zones.offset_of(c), zones.offset_of(direct)),
                                                      eq(c.fold, direct.fold), zones.same_zone(c.tzinfo, direct.tzinfo), eq(zones.instant(c), u)))]

    return case


@contract("props.C01.c01_chain", props=["C01"])
class c01_chain_lemma:
    cases = {"via_zone": _chain_case(lambda F, h: stdlib.fresh_zone(F, Timezone, h, k=1)), "via_fixed_offset": _chain_case(lambda F, h: fresh_fixed(F, h))}


@contract("props.C01.c01_timestamp", props=["C01"])
class c01_ts_lemma:
    def args(F):
        tz, zc = stdlib.fresh_zone(F, Timezone, "tz", k=1)
        return dict(ts=F.int("ts"), tz=tz), [zc]

    def requires(ts, tz):
        return [("representable", _inr(tz, sym.add(EPOCH_W, sym.mul(ts, M))))]

    def result(F, **k):
        raise NotImplementedError

    def ensures(result, ts, tz):
        d, back = result
        return [("int_timestamp_inverts_from_timestamp", eq(back, ts)), ("instant", eq(zones.instant(d), sym.add(EPOCH_W, sym.mul(ts, M))))]


class _canary_astimezone:
    """falsified: claims the converted value keeps the wall clock (instead of the instant)"""
    from contracts.dt import _astimezone_case as _mk

    _c = _mk(lambda F, h: stdlib.fresh_zone(F, Timezone, h, k=1), lambda F, h: stdlib.fresh_zone(F, Timezone, h, k=1), "zone", "zone")
    args = _c.args
    raises = _c.raises

    def result(F, **k):
        raise NotImplementedError

    def ensures(result, self, tz):
        return [("keeps_wall_clock", eq(spec.wall_us(result), spec.wall_us(self)))]


CONTRACTS = [
    "pendulum.tz.timezone.Timezone.convert",
    "pendulum.tz.timezone.FixedTimezone.convert",
    "pendulum.tz.timezone.FixedTimezone.fromutc",
    "pendulum.tz.timezone.FixedTimezone.__init__",
    "pendulum.timezone",
    "pendulum.datetime.DateTime.astimezone",
    "pendulum.datetime.DateTime.in_timezone",
    "pendulum.datetime.DateTime.int_timestamp",
    "pendulum.from_timestamp",
    "pendulum.datetime.DateTime.instance",
    "pendulum._helpers.local_time",
    "props.C01.c01_chain",
    "props.C01.c01_timestamp",
]
CANARIES = [("conversion_keeps_wall_clock", "pendulum.datetime.DateTime.astimezone", _canary_astimezone)]
ASSUMPTIONS = [
    "zoneinfo.ZoneInfo conforms to the transition model (assumed; swept on every transition of tzdata under C02 and again here); that its tables ARE the tz database is data, not decidable here",
    "pendulum.timezone(name)/fixed_timezone: assumed to return the zone with the rules of that name / an object equal to FixedTimezone(offset) (memoised lookups)",
    "datetime.astimezone / utcfromtimestamp / datetime.timezone: assumed CPython contracts",
    "instance(): proved for tzinfo kinds {pendulum, zoneinfo, datetime.timezone}; pytz and dateutil objects are exercised bounded only",
    "float timestamps and timestamp() (CPython's own float conversion) are outside the proof",
]
EXPLANATION = "Aware conversions are proved to preserve the instant and to return the target zone's rendering; chaining and the timestamp round trip are harness lemmas."


def bounded(ctx):
    from bounded import c01, zonesweep

    zonesweep.run(ctx)
    c01.run(ctx)


MANIFEST_ENTRY = {
    "text": "Timezone/FixedTimezone.convert (aware), FixedTimezone.fromutc/__init__, DateTime.astimezone/in_timezone/in_tz, from_timestamp, int_timestamp and instance() (pendulum, zoneinfo and datetime.timezone sources) are proved for every instant and every pair of zones (symbolic transitions) or fixed offsets to preserve the UTC instant exactly, report the requested zone and carry the zone's rendering; A->B->C == A->C and int_timestamp(from_timestamp(t)) == t are lemmas over those contracts.",
    "note": "Trusted: pyvc + spec/zones, z3/cvc5. Assumed: CPython datetime/zoneinfo contracts (transition model swept on all of tzdata each run), zone lookup by name. Bounded: real zone pairs around transitions, foreign tzinfo kinds (pytz, dateutil), both helper backends. Known finding: pytz source in the second pass of an ambiguous hour.",
    "technique": "contract-based deductive verification (own VC generator over the real Python AST, z3/cvc5) over a symbolic zone model; harness lemmas; conformance sweep; bounded run-time checks",
    "design_ref": "DESIGN.md section 8 (C01)",
}
