"""C11 DateTime, Date and Time are drop-in replacements for the native classes."""
import datetime as _dt

import pendulum
from pendulum.date import Date
from pendulum.datetime import DateTime
from pendulum.time import Time
from pendulum.tz.timezone import Timezone

from contracts.dt import fresh_pdt, zone_cases
from pyvc import spec, stdlib, sym, zones
from pyvc.contract import contract, lemma
from pyvc.sym import And, eq

ID = "C11"

ACCESSORS = {
    DateTime: (_dt.datetime, ["isoformat", "strftime", "timetuple", "utctimetuple", "toordinal", "weekday", "isoweekday", "isocalendar", "timestamp",
                              "utcoffset", "tzname", "dst", "ctime", "timetz", "__eq__", "__ne__", "__lt__", "__le__", "__gt__", "__ge__", "__hash__"]),
    Date: (_dt.date, ["isoformat", "strftime", "timetuple", "toordinal", "weekday", "isoweekday", "isocalendar", "ctime",
                      "__eq__", "__ne__", "__lt__", "__le__", "__gt__", "__ge__", "__hash__"]),
    Time: (_dt.time, ["isoformat", "strftime", "utcoffset", "tzname", "dst", "__eq__", "__ne__", "__lt__", "__le__", "__gt__", "__ge__", "__hash__"]),
}


@lemma("C11.frame_inherited_accessors", props=["C11"])
def frame_lemma():
    """every listed accessor/operator of DateTime, Date, Time resolves - through the MRO computed from the class
    statements of the current tree - to CPython's own implementation on the native base class (so it answers
    exactly as the native object with the same fields; that CPython's C methods treat a subclass instance like a
    base instance is assumed)"""
    out = []
    for cls, (base, names) in ACCESSORS.items():
        for name in names:
            owner = next((c for c in cls.__mro__ if name in c.__dict__), None)
            ok = owner is not None and (owner is base or owner in base.__mro__)
            out.append((f"{cls.__name__}.{name}_is_the_native_one", [], bool(ok)))
    return out


def c11_overrides(x, tz):
    return x.date(), x.time(), x.astimezone(tz)


@contract("props.C11.c11_overrides", props=["C11"])
class c11_lemma:
    def args(F):
        src, sc = stdlib.fresh_zone(F, Timezone, "src", k=1)
        dst, dc = stdlib.fresh_zone(F, Timezone, "dst", k=1)
        o, inv = fresh_pdt(F, src, "x")
        return dict(x=o, tz=dst), [sc, dc, inv]

    def requires(x, tz):
        u = zones.instant(x)
        return [("representable", And(stdlib.in_dt_range(u), stdlib.in_dt_range(zones.render_wall(tz, u))))]

    def result(F, **k):
        raise NotImplementedError

    def ensures(result, x, tz):
        d, t, a = result
        u = zones.instant(x)
        return [("date()_returns_a_pendulum_Date_with_the_fields", d.cls is Date and True and And(eq(d.year, x.year), eq(d.month, x.month), eq(d.day, x.day))),
                ("time()_returns_a_pendulum_Time_with_the_fields", And(eq(t.hour, x.hour), eq(t.minute, x.minute), eq(t.second, x.second), eq(t.microsecond, x.microsecond)) if t.cls is Time else False),
                ("astimezone_returns_a_DateTime_equal_to_the_native_conversion", And(eq(spec.wall_us(a), zones.render_wall(tz, u)), eq(a.fold, zones.fold_of(tz, u))) if a.cls is DateTime else False)]


CONTRACTS = ["pendulum.datetime.DateTime.astimezone", "props.C11.c11_overrides", "pendulum.time.Time.replace"]
LEMMAS = ["C11.frame_inherited_accessors"]
CANARIES = []
ASSUMPTIONS = [
    "CPython's C implementations of the inherited accessors answer for a subclass instance as for a base instance with the same fields (not decidable here; compared on real objects by the bounded sweep)",
    "the subtraction of two datetimes is covered by C05 (same length as the native subtraction), replace() by C02",
]
EXPLANATION = "Frame lemma over the real MRO (the listed accessors are CPython's own) plus contracts for the overriding methods; the behaviour of the inherited C code is compared with native twins, bounded."


def bounded(ctx):
    from bounded import c11

    c11.run(ctx)


MANIFEST_ENTRY = {
    "text": "A frame lemma, recomputed from the class statements of the current tree, proves that every standard accessor and comparison of DateTime, Date and Time named by the property resolves through the MRO to CPython's own implementation; the overriding methods date(), time(), astimezone() are proved to return the pendulum types with the native operation's fields.",
    "note": "Trusted: pyvc, Python's MRO. Assumed (not decidable here): CPython's C methods treat subclass instances like base instances. Bounded: every accessor and binary operator compared with a native twin (zoneinfo tzinfo, same fold) on real objects around transitions. Known finding: ordering of two values sharing one tzinfo object inside a repeated hour follows the wall clock (as in CPython), not the instants.",
    "technique": "contract-based deductive verification (frame obligations over the real MRO + contracts of the overriding methods, z3); bounded differential against native twins",
    "design_ref": "DESIGN.md section 8 (C11)",
}
