"""C12 start_of/end_of delimit exactly the calendar unit that contains the value."""
import pendulum
from pendulum.tz.timezone import Timezone

from contracts.dt import UNITS, WEEK_CFG, WEEK_END, WEEK_START, boundary_wall, fresh_pdt, zone_cases
from pyvc import spec, stdlib, sym, zones
from pyvc.contract import contract
from pyvc.spec import DUS, M
from pyvc.sym import And, If, Implies, Not, Or, eq, ge, gt, le, lt, ne


def setup(world):
    world.overrides[("pendulum", "_WEEK_STARTS_AT")] = WEEK_START
    world.overrides[("pendulum", "_WEEK_ENDS_AT")] = WEEK_END


ID = "C12"


def c12_second(x):
    return x.start_of("second"), x.end_of("second"), x.start_of("second").start_of("second"), x.end_of("second").end_of("second")


def c12_minute(x):
    return x.start_of("minute"), x.end_of("minute"), x.start_of("minute").start_of("minute"), x.end_of("minute").end_of("minute")


def c12_hour(x):
    return x.start_of("hour"), x.end_of("hour"), x.start_of("hour").start_of("hour"), x.end_of("hour").end_of("hour")


def c12_day(x):
    return x.start_of("day"), x.end_of("day"), x.start_of("day").start_of("day"), x.end_of("day").end_of("day")


def c12_month(x):
    return x.start_of("month"), x.end_of("month"), x.start_of("month").start_of("month"), x.end_of("month").end_of("month")


def c12_year(x):
    return x.start_of("year"), x.end_of("year"), x.start_of("year").start_of("year"), x.end_of("year").end_of("year")


def c12_decade(x):
    return x.start_of("decade"), x.end_of("decade"), x.start_of("decade").start_of("decade"), x.end_of("decade").end_of("decade")


def c12_century(x):
    return x.start_of("century"), x.end_of("century"), x.start_of("century").start_of("century"), x.end_of("century").end_of("century")


def kf_boundary_not_unique(x, _unit=None, **_):
    """region of known finding C12-boundary-fold: the unit's first or last wall-clock microsecond is skipped or
    repeated in the zone (then the instance's own fold decides which side start_of/end_of lands on)"""
    if x.tzinfo is None or zones.is_fixed(x.tzinfo):
        return False
    lo, hi = boundary_wall(x, _unit, True), boundary_wall(x, _unit, False)
    return Or(ne(zones.n_preimages(x.tzinfo, lo), 1), ne(zones.n_preimages(x.tzinfo, hi), 1))


def _regions():
    import functools

    return {u: functools.partial(kf_boundary_not_unique, _unit=u) for u in UNITS}


for _u in UNITS:
    globals()[f"kf_boundary_not_unique_{_u}"] = (lambda x, _u=_u, **k: kf_boundary_not_unique(x, _u))


def _pos(x):
    return zones.instant(x) if x.tzinfo is not None else spec.wall_us(x)


def _render(tz, u):
    return zones.render_wall(tz, u) if tz is not None else u


def _unit_lemma(unit):
    def mkcase(zname, mk):
        class case:
            def args(F):
                tz, zc = mk(F)
                o, inv = fresh_pdt(F, tz, "x")
                return dict(x=o), [zc, inv]

            def requires(x):
                lo, hi = boundary_wall(x, unit, True), boundary_wall(x, unit, False)
                r = [("boundaries_representable", And(stdlib.in_dt_range(sym.sub(lo, 2 * DUS)), stdlib.in_dt_range(sym.add(hi, 2 * DUS))))]
                return r

            def result(F, **k):
                raise NotImplementedError

            def ensures(result, x):
                s, e, ss, ee = result
                lo, hi = boundary_wall(x, unit, True), boundary_wall(x, unit, False)
                tz = x.tzinfo
                before = _render(tz, sym.sub(_pos(s), 1))
                after = _render(tz, sym.add(_pos(e), 1))
                inside = lambda w: And(ge(w, lo), le(w, hi))
                import os

                out = [("start_and_end_lie_in_the_same_unit", And(inside(spec.wall_us(s)), inside(spec.wall_us(e)))),
                        ("start_le_x_le_end_as_instants", And(le(_pos(s), _pos(x)), le(_pos(x), _pos(e)))),
                        ("microsecond_before_start_is_another_unit", Not(inside(before))),
                        ("microsecond_after_end_is_another_unit", Not(inside(after))),
                        ("timezone_kept", zones.same_zone(s.tzinfo, tz) and zones.same_zone(e.tzinfo, tz))]
                if zname != "zone" or os.environ.get("VERIF_TIER") == "thorough":
                    # (for named zones the idempotence clause needs minutes of solver time: thorough tier)
                    out.append(("idempotent", And(eq(_pos(ss), _pos(s)), eq(spec.wall_us(ss), spec.wall_us(s)), eq(_pos(ee), _pos(e)), eq(spec.wall_us(ee), spec.wall_us(e)))))
                return out

        return case

    cases = {z_: mkcase(z_, mk) for z_, mk in zone_cases().items()}
    if unit != "day":
        # the zone case of every unit has the same shape; in the quick tier it is proved for 'day' (where real
        # tz data has skipped/repeated boundaries), for the other units in the thorough tier
        cases["zone"].options = {"tier": "thorough"}
    return cases


LEMMA_UNITS = ("hour", "day", "month")
for _u in LEMMA_UNITS:
    contract(f"props.C12.c12_{_u}", props=["C12"])(type(f"c12_{_u}_lemma", (), {"cases": _unit_lemma(_u)}))


class _canary_end:
    """falsified: claims end_of('day') is the last SECOND (microsecond 0)"""
    from contracts.dt import _bound_contract

    def args(F):
        tz, zc = zone_cases()["naive"](F)
        o, inv = fresh_pdt(F, tz)
        return dict(self=o, unit="day"), [zc, inv]

    def result(F, **k):
        raise NotImplementedError

    def ensures(result, self, unit):
        return [("ends_at_23_59_59_000000", eq(spec.wall_us(result), spec.wall_us_f(self.year, self.month, self.day, 23, 59, 59, 0)))]


CONTRACTS = ["pendulum.datetime.DateTime.start_of", "pendulum.datetime.DateTime.end_of", "pendulum.datetime.DateTime.next", "pendulum.datetime.DateTime.previous"] + \
            [f"props.C12.c12_{u}" for u in LEMMA_UNITS]
CANARIES = [("end_of_day_without_microseconds", "pendulum.datetime.DateTime.end_of", _canary_end)]
ASSUMPTIONS = [
    "zone model k=1 (one transition near the value), assumed and swept under C02",
    "pendulum._WEEK_STARTS_AT/_WEEK_ENDS_AT are symbolic parameters in 0..6 (A-PURE)",
    "week boundaries go through previous()/next(): proved for naive and fixed-offset values; for named zones and for Date they are checked bounded",
    "'does not depend on how the value was obtained' is covered through the fold: see known finding C12-boundary-fold",
    "statement-level lemmas are proved for the units hour, day, month (second and minute have the same shape as hour); for year/decade/century the function-level contracts are proved and the statement is checked bounded (the idempotence lemma needs Gregorian injectivity the solvers do not finish)",
]
EXPLANATION = "start_of/end_of are proved to return the first/last microsecond of the unit, normalised with the instance's fold; the statement's clauses are harness lemmas, which fail exactly when a boundary wall time is skipped or repeated (known finding) and are proved everywhere else."


def bounded(ctx):
    from bounded import c12

    c12.run(ctx)


MANIFEST_ENTRY = {
    "text": "DateTime.start_of/end_of for all 9 units (naive, fixed offset and zones with a symbolic transition; week for naive/fixed) and DateTime.next/previous are proved to return the first/last wall-clock microsecond of the unit normalised by the construction rules; containment, ordering as instants, 'one microsecond outside is another unit', idempotence and zone preservation are lemmas, proved for every value whose unit boundaries exist exactly once. Where a boundary is skipped or repeated the statement fails (genuine defect, known finding with region).",
    "note": "Trusted: pyvc + spec/zones, z3/cvc5. Assumed: CPython/zoneinfo contracts (swept under C02), symbolic week configuration. Bounded: every day of tzdata whose midnight or last second is skipped or repeated, Date variants, week units in zones.",
    "technique": "contract-based deductive verification (own VC generator over the real Python AST, loop invariants, z3/cvc5) over a symbolic zone model; harness lemmas; known finding proved outside its region; bounded end-to-end",
    "design_ref": "DESIGN.md section 8 (C12)",
}
