"""C14 pickle, copy and deepcopy reproduce every pendulum value exactly."""
import datetime as _dt

import pendulum
from pendulum.datetime import DateTime
from pendulum.duration import Duration
from pendulum.interval import Interval
from pendulum.time import Time
from pendulum.tz.timezone import FixedTimezone, Timezone

from contracts import duration as _dur
from contracts.dt import fresh_pdt, zone_cases
from contracts.interval import endpoint_kinds, fresh_interval, pos
from contracts.tz import fresh_fixed
from pyvc import spec, stdlib, sym, zones
from pyvc.contract import contract
from pyvc.sym import And, If, Implies, Not, Or, eq

ID = "C14"


# ---- the pickle / copy protocol (assumed): loads(dumps(x, p)) and copy.copy(x) rebuild x as
#      callable(*args) from x.__reduce_ex__(p); copy.deepcopy(x) calls x.__deepcopy__(memo) when the class defines it
def c14_datetime(x, protocol):
    cls, args = x.__reduce_ex__(protocol)
    return cls(*args), x.__deepcopy__({})


def c14_time(t, protocol):
    cls, args = t.__reduce_ex__(protocol)
    return cls(*args)


def c14_duration_deepcopy(d):
    return d.__deepcopy__({})


def c14_interval(iv, protocol):
    cls, args = iv.__reduce_ex__(protocol)
    return cls(*args)


def c14_fixed_timezone(tz):
    return FixedTimezone(*tz.__getinitargs__())


def _same_dt(a, b):
    return And(*[eq(a.f[n], b.f[n]) for n in ("year", "month", "day", "hour", "minute", "second", "microsecond", "fold")])


def kf_datetime_fold(x, **_):
    """region of known finding C14-datetime-fold: the value carries fold=1 (second occurrence of a repeated time)"""
    return eq(x.fold, 1)


def _dt_case(mk):
    class case:
        def args(F):
            tz, zc = mk(F)
            o, inv = fresh_pdt(F, tz, "x")
            return dict(x=o, protocol=F.int("protocol")), [zc, inv]

        def result(F, **k):
            raise NotImplementedError

        def ensures(result, x, protocol):
            p, d = result
            return [("pickle_copy.same_fields_and_fold", _same_dt(p, x)), ("pickle_copy.same_class_and_zone", p.cls is x.cls and zones.same_zone(p.tzinfo, x.tzinfo)),
                    ("deepcopy.same_fields_and_fold", _same_dt(d, x)), ("deepcopy.same_class_and_zone", d.cls is x.cls and zones.same_zone(d.tzinfo, x.tzinfo))]

    return case


@contract("props.C14.c14_datetime", props=["C14"])
class c14_dt_lemma:
    cases = {k: _dt_case(mk) for k, mk in zone_cases().items()}


def _time_case(aware):
    class case:
        def args(F):
            from contracts.dt import fresh_fixed

            tz, zc = fresh_fixed(F, "tz") if aware else (None, True)
            o, c = stdlib.fresh_time(F, Time, "t", tzinfo=tz)
            return dict(t=o, protocol=F.int("protocol")), [c, zc]

        def result(F, **k):
            raise NotImplementedError

        def ensures(result, t, protocol):
            return [("same_fields", And(*[eq(result.f[n], t.f[n]) for n in ("hour", "minute", "second", "microsecond")])), ("class", result.cls is t.cls),
                    ("tzinfo_kept", zones.same_zone(result.f.get("tzinfo"), t.f.get("tzinfo")))]

    return case


@contract("props.C14.c14_time", props=["C14"])
class c14_time_lemma:
    cases = {"naive": _time_case(False), "aware": _time_case(True)}


_SHADOW = ("us", "_years", "_months", "_weeks", "_remaining_days", "_days", "_seconds", "_microseconds")


@contract("props.C14.c14_duration_deepcopy", props=["C14"])
class c14_duration_lemma:
    def args(F):
        o, inv = _dur.fresh_duration(F, Duration, "d")
        return dict(d=o), [inv]

    def requires(d):
        return [("positive_or_negative_duration_in_range", stdlib.td_in_range(sym.mul(d.us, 2)))]

    def result(F, **k):
        raise NotImplementedError

    def ensures(result, d):
        return [("same_components_and_length", And(*[eq(result.f[n], d.f[n]) for n in _SHADOW])), ("class", result.cls is d.cls)]


def _iv_case(kname, mk):
    class case:
        def args(F):
            iv, cs = fresh_interval(F, mk)
            return dict(iv=iv, protocol=F.int("protocol")), cs

        def requires(iv, protocol):
            from contracts.interval import _init_base, _new_base

            return _new_base.requires(Interval, iv._start, iv._end, iv._absolute) + _init_base.requires(iv, iv._start, iv._end, iv._absolute)

        def result(F, **k):
            raise NotImplementedError

        def ensures(result, iv, protocol):
            from contracts.interval import _same_fields

            return [("same_length", eq(result.us, iv.us)), ("same_absolute_flag", sym.Iff(result._absolute, iv._absolute)),
                    ("same_endpoints", And(_same_fields(result._start, iv._start), _same_fields(result._end, iv._end))), ("class", result.cls is iv.cls)]

    return case


@contract("props.C14.c14_interval", props=["C14"])
class c14_interval_lemma:
    cases = {k: _iv_case(k, mk) for k, mk in endpoint_kinds().items() if k in ("naive", "dates", "same_fixed_offset")}


@contract("props.C14.c14_fixed_timezone", props=["C14"])
class c14_fixed_lemma:
    def args(F):
        tz, c = fresh_fixed(F, "tz")
        return dict(tz=tz), [c]

    def result(F, **k):
        raise NotImplementedError

    def ensures(result, tz):
        return [("same_offset", eq(result._offset, tz._offset)), ("same_name", result._name is tz._name), ("same_utcoffset", eq(result._utcoffset.us, tz._utcoffset.us))]


CONTRACTS = ["props.C14.c14_datetime", "props.C14.c14_time", "props.C14.c14_duration_deepcopy", "props.C14.c14_interval", "props.C14.c14_fixed_timezone"]
CANARIES = []
ASSUMPTIONS = [
    "pickle/copy protocol (assumed): loads(dumps(x, p)) == copy.copy(x) == callable(*args) with (callable, args) = x.__reduce_ex__(p), arguments themselves surviving the round trip; "
    "copy.deepcopy(x) == x.__deepcopy__(memo) when the class defines it - compared with the real pickle/copy modules by the bounded check",
    "Date and plain Duration pickling use CPython's date/timedelta.__reduce__ (C code): bounded only",
]
EXPLANATION = "The reconstruction each protocol performs is executed symbolically (reduce arguments fed back into the contracted constructors) and compared field by field with the original."


def bounded(ctx):
    from bounded import c14

    c14.run(ctx)


MANIFEST_ENTRY = {
    "text": "For DateTime (naive, zone, fixed offset), Time, Duration.__deepcopy__, Interval and FixedTimezone the reconstruction that pickle/copy/deepcopy perform - callable(*args) from __reduce_ex__, or __deepcopy__ - is executed symbolically against the constructor contracts and proved to reproduce every field, for all values and protocols; where it does not (fold of a DateTime through pickle/copy) the defect is a known finding proved absent elsewhere.",
    "note": "Trusted: pyvc + spec, z3/cvc5. Assumed: the pickle/copy protocol itself (compared with the real modules, bounded, protocols 0..5). Bounded only: Date, plain-Duration pickling (CPython C reducers), Timezone by key. Known findings: DateTime fold via pickle/copy, Duration years/months via pickle/copy, deepcopy(Interval).",
    "technique": "contract-based deductive verification (symbolic execution of the reduce/deepcopy protocol against constructor contracts, z3/cvc5); bounded round trips through the real pickle/copy modules",
    "design_ref": "DESIGN.md section 8 (C14)",
}
