"""C19 Interval.range() steps from the start without drift and stays inside."""
from contracts.interval import LINEAR_UNITS, _forward, _range_case, _step, endpoint_kinds, pos
from pyvc import sym
from pyvc.contract import Loop
from pyvc.sym import eq

ID = "C19"


class _canary_range:
    """falsified: claims the k-th value is reached by k+1 steps (an off-by-one / drift in the step counter)"""
    _c = _range_case("dates", endpoint_kinds()["dates"], "days")
    args = _c.args
    requires = _c.requires
    loops = _c.loops

    def yields(value, k, e, a):
        return [("k_plus_one_steps", eq(pos(value), _step(a.self, "days", sym.mul(sym.add(k, 1), a.amount), _forward(a.self))))]

    def result(F, **k):
        raise NotImplementedError


CONTRACTS = ["pendulum.interval.Interval.range", "pendulum.interval.Interval.__contains__"]
CANARIES = [("kth_value_off_by_one_step", "pendulum.interval.Interval.range", _canary_range)]
ASSUMPTIONS = [
    "proved for the linear units (weeks, days, hours, seconds) on Date, naive and fixed-offset intervals, forward, inverted and absolute: on such clocks a step is a constant number of microseconds",
    "Interval.__contains__ is proved for an item of the endpoints' own kind (Date, naive, one fixed offset): x in interval <=> start <= x <= end; for one named-zone object CPython's same-tzinfo wall-clock comparison is known finding C11-same-tz-order, so that case is bounded only",
    "months/years stepping (end-of-month clamping), named zones and __iter__ are checked bounded on the real class (ends placed on and next to the calendar anniversaries of the start)",
    "relies on the contracts of DateTime.add/subtract and Date.add/subtract (C03/C04)",
]
EXPLANATION = "The generator is executed symbolically with a ghost yield counter: each yielded value is proved to be start shifted by k*amount units computed from the start, inside the interval, and the loop terminates (variant)."


def bounded(ctx):
    from bounded import c19

    c19.run(ctx)


MANIFEST_ENTRY = {
    "text": "Interval.range (a generator: ghost yield counter, loop invariant and termination variant) is proved for Date, naive and fixed-offset intervals - forward, inverted and absolute - and linear units: the k-th yielded value is exactly start shifted by k*amount units computed from the start (no drift), lies inside the interval, the sequence is strictly monotone and finite; x in interval is proved equivalent to start <= x <= end for the same endpoint kinds.",
    "note": "Trusted: pyvc + spec, z3/cvc5. Assumed: contracts of add/subtract (proved under C03/C04). Bounded (not proved): months/years stepping from days 29-31 with ends on/next to the calendar anniversaries, named zones, __iter__, membership in named zones, up to 10^4 steps. Known finding: duplicates across a skipped whole day.",
    "technique": "contract-based deductive verification of a generator (ghost sequence counter, loop invariant + variant, z3/cvc5); bounded enumeration for calendar units and zones",
    "design_ref": "DESIGN.md section 8 (C19)",
}
