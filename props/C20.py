"""C20 Time-of-day arithmetic wraps modulo 24 hours exactly."""
import datetime as _dt

import pendulum
from pendulum.time import Time

from contracts.time import LIMIT, _TU, delta, fresh_ptime, tod
from pyvc import spec, stdlib, sym
from pyvc.contract import contract
from pyvc.spec import DUS, M
from pyvc.sym import And, If, Implies, Not, Or, absv, eq, ge, gt, le, lt, ne

ID = "C20"


def c20_roundtrip(t, hours, minutes, seconds, microseconds, other):
    a = t.add(hours=hours, minutes=minutes, seconds=seconds, microseconds=microseconds)
    back = a.subtract(hours=hours, minutes=minutes, seconds=seconds, microseconds=microseconds)
    return a, back, other - t, t.diff(other, False), t.diff(other)


@contract("props.C20.c20_roundtrip", props=["C20"])
class c20_lemma:
    def args(F):
        o, c = fresh_ptime(F, "t")
        p, c2 = stdlib.fresh_time(F, Time, "other")
        a = dict(t=o, other=p)
        for n in _TU:
            a[n] = F.int(n)
        return a, [c, c2]

    def requires(t, other, **a):
        return [("amount_within_datetime_range", le(absv(delta(**a)), LIMIT))]

    def result(F, **a):
        raise NotImplementedError

    def ensures(result, t, other, **a):
        shifted, back, minus, signed, magnitude = result
        d = sym.sub(tod(other), tod(t))
        return [("shift_wraps_modulo_24h", eq(tod(shifted), sym.fmod(sym.add(tod(t), delta(**a)), DUS))),
                ("subtract_undoes_add", eq(tod(back), tod(t))),
                ("returns_Time", shifted.cls is Time and back.cls is Time),
                ("t2_minus_t1_is_signed_difference", eq(minus.us, d)),
                ("diff_signed", eq(signed.us, d)),
                ("diff_abs_is_magnitude", eq(sym.mul(absv(magnitude._total), M), sym.toreal(absv(d))))]


class _canary_add:
    """falsified: claims the shift is computed modulo 12 hours"""
    from contracts.time import _time_args

    args = _time_args

    def requires(self, **a):
        return [("amount_within_datetime_range", le(absv(delta(**a)), LIMIT))]

    def result(F, **a):
        raise NotImplementedError

    def ensures(result, self, **a):
        return [("wraps_modulo_12h", eq(tod(result), sym.fmod(sym.add(tod(self), delta(**a)), DUS // 2)))]


CONTRACTS = ["pendulum.time.Time.add", "pendulum.time.Time.subtract", "pendulum.time.Time.add_timedelta", "pendulum.time.Time.subtract_timedelta",
             "pendulum.time.Time.__add__", "pendulum.time.Time.__sub__", "pendulum.time.Time.__rsub__", "pendulum.time.Time.diff", "pendulum.time.Time.closest", "pendulum.time.Time.farthest",
             "pendulum.duration.AbsoluteDuration.__new__", "props.C20.c20_roundtrip"]
CANARIES = [("wraps_modulo_12h", "pendulum.time.Time.add", _canary_add)]
ASSUMPTIONS = ["Time.add/subtract go through DateTime.EPOCH.at(...).add(...) in UTC: relies on the contracts of DateTime.set/add (C02/C03)",
               "requires |amount| <= 1968 years (EPOCH + amount must be a representable datetime; the property's 'spanning several days')",
               "A-FLOAT for Duration/AbsoluteDuration normalisation", "tz-aware Time operands and diff(None) (= now) are outside the proof"]
EXPLANATION = "Time arithmetic is proved modulo 24h on top of the DateTime contracts; two genuine defects (diff ignoring microseconds, closest/farthest on whole seconds) were found by refuted obligations and fixed."


def bounded(ctx):
    from bounded import c20

    c20.run(ctx)


MANIFEST_ENTRY = {
    "text": "Time.add/subtract/add_timedelta/subtract_timedelta/__add__/__sub__/diff/closest/farthest are proved for every time of day and every integer amount within +-1968 years: shifts are exact modulo 24 h, subtract undoes add, timedeltas with days raise TypeError, differences are the signed microsecond difference (magnitude with abs) and closest/farthest choose by that distance.",
    "note": "Trusted: pyvc + spec, z3/cvc5. Assumed: CPython time/datetime contracts, A-FLOAT. Two genuine defects were found and fixed (d4814ff, 030f00a). Bounded: samples incl. boundaries on the real class.",
    "technique": "contract-based deductive verification (own VC generator over the real Python AST, z3/cvc5); harness lemma; bounded sampling",
    "design_ref": "DESIGN.md section 8 (C20)",
}
