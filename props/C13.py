"""C13 ISO 8601 durations and intervals parse to their exact value."""
from contracts import parsing as _p
from pyvc import sym
from pyvc.sym import eq

import pendulum
from contracts.helpers import base_wall, delta_us
from pyvc import spec, strings
from pyvc.contract import contract
from pyvc.engine import Obj
from pyvc.sym import And, Not

ID = "C13"
CONTRACTS = ["pendulum.parsing.iso8601._parse_iso8601_duration", "props.C13.c13_interval"]
LEMMAS = []


# ------------------------------------------------------------------------------------ interval strings
# pendulum.parse('start/end' | 'start/duration' | 'duration/end'): parser.parse -> _parse -> parsing.parse -> _parse ->
# _parse_iso8601_interval -> parse_iso8601 (twice) -> _Interval -> the assembly in parser._parse (instance(), add()/subtract(),
# interval()) executed from their source; DateTime.add/subtract, instance and Interval construction through their contracts.
def c13_interval(text):
    return pendulum.parse(text)


_DT1 = ("Y-M-D", "T", "hh:mm:ss", None, "Z")
_DT2 = ("Y-M-D", "T", "hh:mm:ss", (".", 6), "Z")
_DUR = (("Y", 1, 0), ("Mo", 2, 0), ("D", 2, 0), ("H", 2, 0), ("Mi", 2, 0), ("S", 2, 0))
_DUR_YM = (("Y", 2, 0), ("Mo", 1, 0))
_DUR_W = (("W", 2, 0),)


def _interval_case(kind, left, right):
    class case:
        # an endpoint pushed past the ends of the calendar by the duration is a ValueError (ParserError) - an accepted outcome, as
        # under C17; what is claimed here is the value whenever parse() returns
        # (the duration forms need 30-90 s per value clause - Duration's hour/minute/second decomposition against the elapsed total -
        # and are discharged in the thorough tier only; 'start/end' is discharged in both tiers)
        options = {"transparent": ["pendulum.parser.parse"], "may_raise": (ValueError,), **({"tier": "thorough"} if kind != "start/end" else {})}

        def applies(text):
            return False

        def args(F):
            parts, cons = [], []
            case._f = []
            # spec variables: the target (year, month) of the calendar shift, defined by uniqueness (ty*12 + tmo-1 == total, 1 <= tmo <= 12)
            case._ty, case._tmo = F.int("spec_ty"), F.int("spec_tmo")
            for piece in (left, right):
                if piece[0] == "dt":
                    t, f, c = _p.build(F, *piece[1])
                else:
                    t, f, c = _p.dur_build(F, piece[1])
                parts.append(t)
                cons += c
                case._f.append(f)
            text = strings.CharStr(list(parts[0].chars) + ["/"] + list(parts[1].chars))
            if kind != "start/end":
                f, vals, sign = (case._f[0], case._f[1], 1) if kind == "start/duration" else (case._f[1], case._f[0], -1)
                g = lambda u: sym.mul(sign, vals[u][0]) if u in vals else 0
                total = sym.add(sym.add(sym.mul(f["year"], 12), sym.sub(f["month"], 1)), sym.add(sym.mul(g("Y"), 12), g("Mo")))
                cons.append(And(eq(sym.add(sym.mul(case._ty, 12), sym.sub(case._tmo, 1)), total), sym.between(1, case._tmo, 12)))
            return dict(text=text), cons

        @staticmethod
        def _denoted():
            """(valid, wall clock of the start, wall clock of the end) the string denotes, all in UTC"""
            wall = lambda f: spec.wall_us_f(f["year"], f["month"], f["day"], f["hour"], f["minute"], f["second"], _p.micro(f["frac"]) if "frac" in f else 0)
            as_obj = lambda f: Obj(pendulum.DateTime, year=f["year"], month=f["month"], day=f["day"], hour=f["hour"], minute=f["minute"], second=f["second"],
                                   microsecond=_p.micro(f["frac"]) if "frac" in f else 0, tzinfo=None, fold=0)

            def shifted(f, vals, sign):
                g = lambda u: sym.mul(sign, vals[u][0]) if u in vals else 0
                u = dict(years=g("Y"), months=g("Mo"), weeks=g("W"), days=g("D"), hours=g("H"), minutes=g("Mi"), seconds=g("S"), microseconds=0)
                # years and months first, the day clamped to the target month, then weeks, days and the time units as elapsed time
                ty, tmo = case._ty, case._tmo
                w = sym.add(base_wall(as_obj(f), ty, tmo), delta_us(u["weeks"], u["days"], u["hours"], u["minutes"], u["seconds"], 0))
                return w, And(spec.valid_year(ty), sym.between(spec.wall_us_f(1, 1, 1, 0, 0, 0, 0), w, spec.wall_us_f(9999, 12, 31, 23, 59, 59, 999999)))

            fa, fb = case._f
            if kind == "start/end":
                return And(_p.denoted(fa)[0], _p.denoted(fb)[0]), wall(fa), wall(fb)
            if kind == "start/duration":
                w, ok = shifted(fa, fb, 1)
                return And(_p.denoted(fa)[0], ok), wall(fa), w
            w, ok = shifted(fb, fa, -1)
            return And(_p.denoted(fb)[0], ok), w, wall(fb)

        def result(F, text):
            raise NotImplementedError

        def ensures(result, text):
            if not (isinstance(result, Obj) and result.cls is pendulum.Interval):
                return [("returns_an_Interval", False)]
            valid, ws, we = case._denoted()
            s_, e_ = result._start, result._end
            utc = lambda x: isinstance(x.f.get("tzinfo"), Obj) and x.f["tzinfo"].f.get("key") == "UTC"
            return [("returns_an_Interval", True),
                    ("start_is_the_one_denoted" if kind != "duration/end" else "start_is_end_minus_duration_calendar_units_first", eq(spec.wall_us(s_), ws)),
                    ("end_is_the_one_denoted" if kind != "start/duration" else "end_is_start_plus_duration_calendar_units_first", eq(spec.wall_us(e_), we)),
                    ("both_in_UTC", utc(s_) and utc(e_))]

    case.__name__ = kind + ":" + "/".join((_p.shape_name(*x[1]) if x[0] == "dt" else _p.dur_shape_name(x[1])) for x in (left, right))
    return case


def _interval_cases():
    # 'start/duration' and 'duration/end' with a years/months part (PnYnMnDTnHnMnS, PnYnM) were tried and are NOT claimed: their value
    # clause stayed `unknown` at 300 s in every solver of the portfolio (two month-shift definitions to be identified before the clamped
    # day can be compared); those forms remain covered by the bounded constructive oracle only (DESIGN.md 12.8)
    cs = [_interval_case("start/end", ("dt", _DT1), ("dt", _DT2)),
          _interval_case("start/end", ("dt", _DT2), ("dt", _DT1)),
          _interval_case("start/duration", ("dt", _DT1), ("dur", _DUR_W)),
          _interval_case("duration/end", ("dur", _DUR_W), ("dt", _DT1))]
    return {c.__name__: c for c in cs}


@contract("props.C13.c13_interval", props=["C13"])
class c13_interval_lemma:
    cases = _interval_cases()


def _canary_case():
    """falsified: claims a two-digit fraction of days is divided by 10 (the defect this property was written for)"""
    base = _p._dur_case(((("D", 1, 2),), "."))

    class case:
        applies = base.applies
        args = base.args
        raises = base.raises
        result = base.result

        def ensures(result, text, options):
            v, fr = base._vals["D"]
            n = sym.add(sym.mul(fr[0], 10), fr[1])
            wrong = sym.add(sym.mul(v, _p.DUS), sym.truediv(sym.mul(n, _p.DUS), 10))
            return [("fraction_always_divided_by_ten", eq(sym.toreal(result.us), sym.toreal(wrong)))]

    class ns:
        cases = {"tenths": case}

    return ns


CANARIES = [("fraction_divided_by_ten", "pendulum.parsing.iso8601._parse_iso8601_duration", _canary_case())]

ASSUMPTIONS = [
    "A-RE: the real compiled regex ISO8601_DURATION is run by CPython's re on two representatives of each shape (group spans depend only on the shape; digit-invariance of the pattern is checked mechanically)",
    "string shape: proofs are per shape (which designators are present, digits per number, fraction length); all digit values symbolic. Quick tier: 189 shapes (all 63 designator subsets, widths 1/3/9/10, fraction lengths 1..9 on every admissible unit, 12 ill-formed shapes); thorough tier: widths 1..10 and both separators for every fraction length",
    "A-FLOAT: the float products int(frac) / 10**k * 24 etc. and timedelta's float accumulation are treated as exact real arithmetic with one final round-half-even (CPython's delta_new); the bounded sweep compares with exact Fractions on the real objects",
    "Duration.__new__ is used through its contract (proved under C09, real-argument case widened to days/hours/minutes/seconds)",
    "interval strings: pendulum.parse('start/end') is proved per shape in both tiers, 'start/duration' and 'duration/end' with a PnW duration in the thorough tier only (durations with a years/months part were tried and stayed `unknown`: not claimed, bounded only) (harness lemma c13_interval: _parse_iso8601_interval, parse_iso8601, _Interval and parser._parse's assembly executed from their source; instance(), DateTime.add/subtract and Interval construction through their contracts; endpoints in UTC; a result past the ends of the calendar is an accepted ValueError); other endpoint shapes, offsets and the tz option are checked bounded (constructive oracle)",
    "Rust parser: never proved; rebuilt from the working tree on every run, bounded comparison with the exact oracle",
]
EXPLANATION = ("_parse_iso8601_duration (pure-Python backend) is executed symbolically from its source once per duration shape with symbolic digits: an ill-formed shape (fraction on years/months or "
               "before the last component, weeks mixed with other units) always raises a ValueError; a well-formed one raises a ValueError exactly when its value does not fit a timedelta and "
               "otherwise returns a Duration with years and months as written whose native value is within half a microsecond of the exact rational value of the other components.")


def bounded(ctx):
    from bounded import c13

    c13.run(ctx)


MANIFEST_ENTRY = {
    "text": "For every duration shape (any subset of the designators Y M D T H M S or W alone, 1..10 digits per number, a fraction of 1..9 digits after '.' or ',' on the smallest component) and ALL digit values, the pure-Python _parse_iso8601_duration is proved to return a Duration with exactly the written years and months and a native value within half a microsecond of the exact rational value of the remaining components, to raise a ValueError exactly when that value does not fit a timedelta, and to reject fractional years/months, fractions before the last component and weeks mixed with other units. pendulum.parse('start/end') is proved per shape to return the Interval with exactly the denoted endpoints in UTC, and (thorough tier, PnW durations) 'start/duration' and 'duration/end' to add / subtract exactly the duration from the given endpoint. The compiled parser and the interval forms on other shapes are checked bounded against an exact Fraction oracle on both backends.",
    "note": "Trusted: pyvc, z3/cvc5, A-RE, A-FLOAT (float arithmetic as exact reals; the bounded sweep uses exact Fractions on the real objects). Proof is per shape: 189 shapes quick, more in the thorough tier. Three genuine defects of the Python parser found by refuted obligations and fixed (fractions always divided by 10, fractional weeks truncated; fractional seconds truncated; OverflowError instead of ValueError). Rust defects (coarse W/D/H fractions, u32 wrap-around, 'P1.W', 'P1WT1H') and the float decomposition of durations >= 2^32 s in interval assembly are bounded known findings.",
    "technique": "contract-based deductive verification per duration shape (symbolic execution of the real parser with symbolic digits, z3/cvc5); bounded exact-oracle sweeps for the Rust parser and interval assembly",
    "design_ref": "DESIGN.md section 8 (C13), 12",
}
