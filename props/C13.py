"""C13 ISO 8601 durations and intervals parse to their exact value."""
from contracts import parsing as _p
from pyvc import sym
from pyvc.sym import eq

ID = "C13"
CONTRACTS = ["pendulum.parsing.iso8601._parse_iso8601_duration"]
LEMMAS = []


def _canary_case():
    """falsified: claims a two-digit fraction of days is divided by 10 (the defect this property was written for)"""
    base = _p._dur_case(((("D", 1, 2),), "."))

    class case:
        applies = base.applies
        args = base.args
        raises = base.raises
        result = base.result

        def ensures(result, text, options):
            v, fr = base._vals["D"]
            n = sym.add(sym.mul(fr[0], 10), fr[1])
            wrong = sym.add(sym.mul(v, _p.DUS), sym.truediv(sym.mul(n, _p.DUS), 10))
            return [("fraction_always_divided_by_ten", eq(sym.toreal(result.us), sym.toreal(wrong)))]

    class ns:
        cases = {"tenths": case}

    return ns


CANARIES = [("fraction_divided_by_ten", "pendulum.parsing.iso8601._parse_iso8601_duration", _canary_case())]

ASSUMPTIONS = [
    "A-RE: the real compiled regex ISO8601_DURATION is run by CPython's re on two representatives of each shape (group spans depend only on the shape; digit-invariance of the pattern is checked mechanically)",
    "string shape: proofs are per shape (which designators are present, digits per number, fraction length); all digit values symbolic. Quick tier: 189 shapes (all 63 designator subsets, widths 1/3/9/10, fraction lengths 1..9 on every admissible unit, 12 ill-formed shapes); thorough tier: widths 1..10 and both separators for every fraction length",
    "A-FLOAT: the float products int(frac) / 10**k * 24 etc. and timedelta's float accumulation are treated as exact real arithmetic with one final round-half-even (CPython's delta_new); the bounded sweep compares with exact Fractions on the real objects",
    "Duration.__new__ is used through its contract (proved under C09, real-argument case widened to days/hours/minutes/seconds)",
    "interval strings ('start/end', 'start/duration', 'duration/end'): _parse_iso8601_interval and parser.py's assembly are checked bounded (constructive oracle), not proved",
    "Rust parser: never proved; rebuilt from the working tree on every run, bounded comparison with the exact oracle",
]
EXPLANATION = ("_parse_iso8601_duration (pure-Python backend) is executed symbolically from its source once per duration shape with symbolic digits: an ill-formed shape (fraction on years/months or "
               "before the last component, weeks mixed with other units) always raises a ValueError; a well-formed one raises a ValueError exactly when its value does not fit a timedelta and "
               "otherwise returns a Duration with years and months as written whose native value is within half a microsecond of the exact rational value of the other components.")


def bounded(ctx):
    from bounded import c13

    c13.run(ctx)


MANIFEST_ENTRY = {
    "text": "For every duration shape (any subset of the designators Y M D T H M S or W alone, 1..10 digits per number, a fraction of 1..9 digits after '.' or ',' on the smallest component) and ALL digit values, the pure-Python _parse_iso8601_duration is proved to return a Duration with exactly the written years and months and a native value within half a microsecond of the exact rational value of the remaining components, to raise a ValueError exactly when that value does not fit a timedelta, and to reject fractional years/months, fractions before the last component and weeks mixed with other units. The compiled parser and the three interval forms are checked bounded against an exact Fraction oracle on both backends.",
    "note": "Trusted: pyvc, z3/cvc5, A-RE, A-FLOAT (float arithmetic as exact reals; the bounded sweep uses exact Fractions on the real objects). Proof is per shape: 189 shapes quick, more in the thorough tier. Three genuine defects of the Python parser found by refuted obligations and fixed (fractions always divided by 10, fractional weeks truncated; fractional seconds truncated; OverflowError instead of ValueError). Rust defects (coarse W/D/H fractions, u32 wrap-around, 'P1.W', 'P1WT1H') and the float decomposition of durations >= 2^32 s in interval assembly are bounded known findings.",
    "technique": "contract-based deductive verification per duration shape (symbolic execution of the real parser with symbolic digits, z3/cvc5); bounded exact-oracle sweeps for the Rust parser and interval assembly",
    "design_ref": "DESIGN.md section 8 (C13), 12",
}
