"""C04 Calendar-unit arithmetic follows the wall clock with end-of-month clamping."""
ID = "C04"
CONTRACTS = ["pendulum.helpers.add_duration"]
