"""C04 Calendar-unit arithmetic follows the wall clock with end-of-month clamping."""
import datetime as _dt

import pendulum
from pendulum.duration import Duration

from contracts import duration as _dur
from contracts.date import date_add_spec
from contracts.dt import _UNITS, _add_base, add_spec, duration_components, fresh_pdt, zone_cases2
from contracts.helpers import clamp_day, delta_us, shifted_ym
from pyvc import spec, stdlib, sym, zones
from pyvc.contract import contract
from pyvc.spec import DUS, M
from pyvc.sym import And, If, Implies, Not, Or, eq, ge, gt, le, lt, ne

ID = "C04"


def c04_calendar(dt, years, months, weeks, days, hours, minutes, seconds, microseconds):
    a = dt.add(years=years, months=months, weeks=weeks, days=days, hours=hours, minutes=minutes, seconds=seconds, microseconds=microseconds)
    b = dt.subtract(years=-years, months=-months, weeks=-weeks, days=-days, hours=-hours, minutes=-minutes, seconds=-seconds,
                    microseconds=-microseconds)
    return a, b


def c04_minus_duration(dt, d):
    return (dt - d, dt + (-d),
            dt.subtract(years=d.years, months=d.months, weeks=d.weeks, days=d.remaining_days, hours=d.hours, minutes=d.minutes,
                        seconds=d.remaining_seconds, microseconds=d.microseconds))


def c04_date(dd, years, months, weeks, days, d):
    return dd.add(years=years, months=months, weeks=weeks, days=days), dd.subtract(years=-years, months=-months, weeks=-weeks, days=-days), dd - d, dd + (-d)


def _same(x, y):
    return And(eq(spec.wall_us(x), spec.wall_us(y)), eq(x.fold, y.fold), zones.same_zone(x.tzinfo, y.tzinfo), x.cls is y.cls)


def _cal_case(mk):
    class case:
        def args(F):
            tz, zc = mk(F)
            o, inv = fresh_pdt(F, tz, "dt")
            a = dict(dt=o)
            for n in _UNITS:
                a[n] = F.int(n)
            return a, [zc, inv]

        def requires(dt, **u):
            return [("representable", add_spec(dt, u)[2]),
                    ("calendar_units_present", Or(ne(u["years"], 0), ne(u["months"], 0), ne(u["weeks"], 0), ne(u["days"], 0)))]

        def result(F, **a):
            raise NotImplementedError

        def ensures(result, dt, **u):
            a, b = result
            # the statement, spelled out: shift years/months, clamp the day, then weeks/days/time on the calendar
            ty, tmo = shifted_ym(dt.year, dt.month, u["years"], u["months"])
            base = spec.wall_us_f(ty, tmo, clamp_day(ty, tmo, dt.day), dt.hour, dt.minute, dt.second, dt.microsecond)
            w = sym.add(base, delta_us(u["weeks"], u["days"], u["hours"], u["minutes"], u["seconds"], u["microseconds"]))
            out = [("negative_add_is_subtract", _same(a, b)), ("timezone_kept", zones.same_zone(a.tzinfo, dt.tzinfo))]
            if dt.tzinfo is None:
                out.append(("wall_clock_value", eq(spec.wall_us(a), w)))
            else:
                out.append(("wall_clock_value_normalised_by_construction_rules", eq(spec.wall_us(a), zones.normalised(dt.tzinfo, w, 1)[0])))
                out.append(("valid_local_time", zones.is_rendering(a)))
            return out

    return case


def _minus_case(mk):
    class case:
        def args(F):
            tz, zc = mk(F)
            o, inv = fresh_pdt(F, tz, "dt")
            d, dinv = _dur.fresh_duration(F, Duration, "d")
            return dict(dt=o, d=d), [zc, inv, dinv]

        def requires(dt, d):
            u = {k: sym.neg(v) for k, v in duration_components(d).items()}
            return [("representable", And(add_spec(dt, u)[2], stdlib.td_in_range(sym.neg(d.us))))]

        def result(F, **a):
            raise NotImplementedError

        def ensures(result, dt, d):
            x, y, z_ = result
            return [("dt_minus_d_equals_dt_plus_neg_d", _same(x, y)), ("dt_minus_d_equals_subtract_components", _same(x, z_))]

    return case


@contract("props.C04.c04_calendar", props=["C04"])
class c04_cal_lemma:
    cases = {n: _cal_case(mk) for n, mk in zone_cases2().items()}


@contract("props.C04.c04_minus_duration", props=["C04"])
class c04_minus_lemma:
    cases = {n: _minus_case(mk) for n, mk in zone_cases2().items()}


@contract("props.C04.c04_date", props=["C04"])
class c04_date_lemma:
    def args(F):
        o, c = stdlib.fresh_date(F, pendulum.Date, "dd")
        d, dinv = _dur.fresh_duration(F, Duration, "d")
        return dict(dd=o, years=F.int("years"), months=F.int("months"), weeks=F.int("weeks"), days=F.int("days"), d=d), [c, dinv]

    def requires(dd, years, months, weeks, days, d):
        u = dict(years=years, months=months, weeks=weeks, days=days)
        du = dict(years=sym.neg(d._years), months=sym.neg(d._months), weeks=sym.neg(d._weeks), days=sym.neg(d._remaining_days))
        return [("representable", And(date_add_spec(dd, u)[1], date_add_spec(dd, du)[1], stdlib.td_in_range(sym.neg(d.us))))]

    def result(F, **a):
        raise NotImplementedError

    def ensures(result, dd, years, months, weeks, days, d):
        a, b, m1, m2 = result
        ty, tmo = shifted_ym(dd.year, dd.month, years, months)
        o = sym.add(spec.ordinal(ty, tmo, clamp_day(ty, tmo, dd.day)), sym.add(sym.mul(weeks, 7), days))
        return [("date_shift_clamp_then_days", eq(spec.date_ord(a), o)), ("negative_add_is_subtract", eq(spec.date_ord(a), spec.date_ord(b))),
                ("date_minus_d_equals_date_plus_neg_d", eq(spec.date_ord(m1), spec.date_ord(m2)))]


class _canary_clamp:
    """falsified: claims the day is clamped to the *source* month's length"""
    from contracts.helpers import _ad_args, _add_duration_base as _b

    args = _ad_args("date")
    requires = _b.requires
    raises = _b.raises
    cuts = _b.cuts

    def result(F, **a):
        raise NotImplementedError

    def ensures(result, dt, **u):
        ty, tmo = shifted_ym(dt.year, dt.month, u["years"], u["months"])
        wrong = sym.minv(dt.day, spec.dim(dt.year, dt.month))
        return [("clamped_to_source_month", eq(spec.date_ord(result), sym.add(spec.ordinal(ty, tmo, wrong), sym.add(sym.mul(u["weeks"], 7), u["days"]))))]


CONTRACTS = [
    "pendulum.helpers.add_duration",
    "pendulum.datetime.DateTime.add",
    "pendulum.datetime.DateTime.subtract",
    "pendulum.datetime.DateTime._add_timedelta_",
    "pendulum.datetime.DateTime._subtract_timedelta",
    "pendulum.datetime.DateTime.__add__",
    "pendulum.datetime.DateTime.__sub__",
    "pendulum.duration.Duration.__neg__",
    "pendulum.date.Date.add",
    "pendulum.date.Date.subtract",
    "pendulum.date.Date._add_timedelta",
    "pendulum.date.Date._subtract_timedelta",
    "pendulum.date.Date.__add__",
    "pendulum.date.Date.__sub__",
    "props.C04.c04_calendar",
    "props.C04.c04_minus_duration",
    "props.C04.c04_date",
]
CANARIES = [("clamp_to_source_month", "pendulum.helpers.add_duration", _canary_clamp)]
ASSUMPTIONS = [
    "zoneinfo transition model (k=2), assumed and swept under C02; CPython datetime/date/timedelta contracts",
    "A-TYPES: amounts are ints; Duration operands are Durations built from ints (their recorded constructor arguments are ints)",
    "requires: results representable (years 1..9999) - the property's quantifier",
    "Interval operands of + (the components of precise_diff) are covered under C06",
]
EXPLANATION = "add_duration, DateTime/Date add/subtract and the Duration operators are proved against the relational statement of C04 (month shift, clamp, elapsed part, construction-rule normalisation); the equalities dt - d == dt + (-d) == dt.subtract(components) are harness lemmas."


def bounded(ctx):
    from bounded import c04

    c04.run(ctx)


MANIFEST_ENTRY = {
    "text": "helpers.add_duration, DateTime.add/subtract (calendar branch), the +/- operators with a Duration on DateTime and Date, Date.add/subtract and Duration.__neg__ are proved for all dates, zones (two symbolic transitions) and integer amounts to compute: month shift, clamp to the target month, then days/time on the wall clock, normalised by the construction rules; negative add == subtract and dt - d == dt + (-d) == dt.subtract(components of d) are proved as lemmas over those contracts.",
    "note": "Trusted: pyvc + spec/zones, z3/cvc5. Assumed: CPython datetime/date/timedelta/zoneinfo contracts (model swept under C02). Bounded: comparison with an independent implementation (dateutil.relativedelta) and end-to-end checks around real transitions. One genuine defect found and fixed (cf5183a).",
    "technique": "contract-based deductive verification (own VC generator over the real Python AST, cut points, z3/cvc5) over a symbolic zone model; harness lemmas; bounded differential against dateutil.relativedelta",
    "design_ref": "DESIGN.md section 8 (C04)",
}
