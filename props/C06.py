"""C06 Interval components are canonical and rebuild the end from the start."""
import pendulum
from pendulum.interval import Interval

from contracts.helpers import kf_full_month_arm
from contracts.interval import _init_base, _native_of, _new_base, endpoint_kinds, pos
from pyvc import spec, stdlib, sym, zones
from pyvc.contract import contract
from pyvc.engine import Obj
from pyvc.spec import DUS, M
from pyvc.sym import And, If, Implies, Not, Or, absv, eq, ge, gt, le, lt, ne

ID = "C06"


def c06_components(a, b):
    iv = b - a
    comps = (iv.years, iv.months, iv.weeks, iv.remaining_days, iv.hours, iv.minutes, iv.remaining_seconds, iv.microseconds)
    rev = a - b
    rcomps = (rev.years, rev.months, rev.weeks, rev.remaining_days, rev.hours, rev.minutes, rev.remaining_seconds, rev.microseconds)
    return comps, rcomps, iv.in_months(), iv.in_years(), iv.in_days(), iv.in_weeks()


def c06_reversed(d1, d2):
    from pendulum._helpers import precise_diff

    return precise_diff(d1, d2), precise_diff(d2, d1)


def c06_rebuild_datetime(a, b):
    iv = b - a
    return a.add(years=iv.years, months=iv.months, weeks=iv.weeks, days=iv.remaining_days, hours=iv.hours, minutes=iv.minutes,
                 seconds=iv.remaining_seconds, microseconds=iv.microseconds)


def c06_rebuild_date(a, b):
    iv = b - a
    return a.add(years=iv.years, months=iv.months, weeks=iv.weeks, days=iv.remaining_days), a + iv


def _pre(a, b):
    shell = Obj(Interval)
    return (_new_base.requires(Interval, a, b, False) + _init_base.requires(shell, a, b, False)
            + [("a_not_after_b", le(pos(a), pos(b))), ("outside_known_finding_C06_full_month", Not(kf_full_month_arm(_native_of(a), _native_of(b))))])


def _comp_case(mk):
    class case:
        def args(F):
            a, b, cs = mk(F)
            return dict(a=a, b=b), cs

        requires = staticmethod(_pre)

        def result(F, **k):
            raise NotImplementedError

        def ensures(result, a, b):
            (y, mo, w, rd, h, mi, s, us), rc, in_months, in_years, in_days, in_weeks = result
            days = sym.add(sym.mul(w, 7), rd)
            return [("non_negative", And(*[ge(c, 0) for c in (y, mo, w, rd, h, mi, s, us)])),
                    ("canonical_ranges", And(le(mo, 11), le(days, 30), lt(rd, 7), le(h, 23), le(mi, 59), le(s, 59), lt(us, M))),
                    ("in_months_is_12_years_plus_months", eq(in_months, sym.add(sym.mul(12, y), mo))), ("in_years", eq(in_years, y)),
                    ("in_weeks_from_in_days", eq(in_weeks, sym.fdiv(in_days, 7)))]

    return case


def _rebuild_dt_case(mk):
    class case:
        def args(F):
            a, b, cs = mk(F)
            return dict(a=a, b=b), cs

        requires = staticmethod(_pre)

        def result(F, **k):
            raise NotImplementedError

        def ensures(result, a, b):
            return [("a_plus_components_is_b", And(eq(spec.wall_us(result), spec.wall_us(b)), zones.same_zone(result.tzinfo, b.tzinfo)))]

    return case


@contract("props.C06.c06_components", props=["C06"])
class c06_comp_lemma:
    cases = {k: _comp_case(mk) for k, mk in endpoint_kinds().items() if k in ("naive", "dates", "same_fixed_offset")}


def _reversed_case(kind):
    from contracts.helpers import _pd_args, _PD

    class case:
        # 2-safety lemma: both calls execute the real body of precise_diff (transparent here), not its contract
        options = {"transparent": ["pendulum._helpers.precise_diff"]}
        args = _pd_args(kind)

        def result(F, **k):
            raise NotImplementedError

        def ensures(result, d1, d2):
            x, y = result
            return [("reversed_interval_reports_negated_components", And(*[eq(getattr(y, n), sym.neg(getattr(x, n))) for n in _PD + ("total_days",)]))]

    return case


@contract("props.C06.c06_reversed", props=["C06"])
class c06_reversed_lemma:
    cases = {"naive": _reversed_case("naive"), "dates": _reversed_case("dates")}


def _thorough(ns):
    ns.options = {"tier": "thorough"}  # the rebuild lemmas need minutes of solver time per obligation
    return ns


@contract("props.C06.c06_rebuild_datetime", props=["C06"])
class c06_rebuild_lemma:
    cases = {k: _thorough(_rebuild_dt_case(mk)) for k, mk in endpoint_kinds().items() if k in ("naive", "same_fixed_offset")}


@contract("props.C06.c06_rebuild_date", props=["C06"])
class c06_rebuild_date_lemma:
    options = {"tier": "thorough"}

    def args(F):
        a, b, cs = endpoint_kinds()["dates"](F)
        return dict(a=a, b=b), cs

    requires = staticmethod(_pre)

    def result(F, **k):
        raise NotImplementedError

    def ensures(result, a, b):
        r1, r2 = result
        return [("a_plus_components_is_b", eq(spec.date_ord(r1), spec.date_ord(b))), ("a_plus_interval_is_b", eq(spec.date_ord(r2), spec.date_ord(b)))]


class _canary_pd:
    """falsified: claims months lie in 0..10"""
    from contracts.helpers import _pd_args, _pd_same_clock as _b

    args = _pd_args("dates")

    def result(F, **k):
        raise NotImplementedError

    def ensures(result, d1, d2):
        return [("months_at_most_10", And(le(result.months, 10), ge(result.months, -10)))]


CONTRACTS = [
    "pendulum._helpers.precise_diff",
    "pendulum._helpers._day_number",
    "pendulum.interval.Interval.__new__",
    "pendulum.interval.Interval.__init__",
    "pendulum.datetime.DateTime.__sub__",
    "pendulum.date.Date.__sub__",
    "props.C06.c06_components",
    "props.C06.c06_reversed",
    "props.C06.c06_rebuild_datetime",
    "props.C06.c06_rebuild_date",
]
CANARIES = [("months_at_most_10", "pendulum._helpers.precise_diff", _canary_pd)]
ASSUMPTIONS = [
    "precise_diff case same_zone (one zone object, equal offsets at both ends) is proved in the thorough tier only; in the quick tier callers assume its contract",
    "precise_diff case different_zones (differently named zones, UTC shift before the decomposition) is ASSUMED, never proved: its thorough-tier proof attempt could not be made sound (DESIGN.md 12.2); bounded interval identities on real zone pairs and the Rust/Python differential cover it",
    "Interval-level lemmas are stated for naive, Date and fixed-offset pairs (the 'same UTC offset' side of the statement); zone pairs with equal offsets go through the same_zone case",
    "Rust precise_diff: never proved; bounded differential against the Python function",
    "A-FLOAT for the Interval's own (Duration) fields",
]
EXPLANATION = "precise_diff is proved to return canonical components that rebuild the end from the start (except on the known 'full month' arm, proved absent elsewhere); Interval getters and a + (b - a) == b are harness lemmas."


def bounded(ctx):
    from bounded import c06

    c06.run(ctx)


MANIFEST_ENTRY = {
    "text": "_helpers.precise_diff (naive and date pairs in the quick tier; same-zone pairs in the thorough tier; pairs in differently named zones are assumed and checked bounded only) is proved to return components within the canonical ranges whose addition to the earlier value (month shift, clamp, days, time) gives exactly the later one, with sign for reversed pairs; Interval.__init__/getters, reversed == negated, in_months == 12*years + months and a + (b - a) == b are lemmas over those contracts. The 'exactly a full month' arm violates the rebuild clause - a genuine defect recorded as a known finding and proved absent everywhere else.",
    "note": "Trusted: pyvc + spec, z3/cvc5. Assumed: CPython datetime contracts, A-FLOAT. Rust precise_diff is never proved: bounded differential (leap patterns x month/day pairs x time borrows) against the proved Python function.",
    "technique": "contract-based deductive verification (own VC generator over the real Python AST, z3/cvc5); harness lemmas; known finding proved outside its region; bounded Rust differential",
    "design_ref": "DESIGN.md section 8 (C06)",
}
