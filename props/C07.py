"""C07 ISO 8601 / RFC 3339 date and time strings parse to the value they denote."""
from contracts import parsing as _p
from pyvc import sym
from pyvc.sym import eq

import datetime as _dt

import pendulum
from pyvc import spec
from pyvc.contract import contract
from pyvc.engine import Obj
from pyvc.sym import And, Not

ID = "C07"
CONTRACTS = ["pendulum.parsing.iso8601.parse_iso8601", "props.C07.c07_parse", "props.C07.c07_parse_exact", "props.C07.c07_parse_tz"]
LEMMAS = []


# ---------------------------------------------------------------------------------- the public entry point
# pendulum.parse(text) / pendulum.parse(text, exact=True): the whole chain parser.parse -> parser._parse ->
# parsing.parse -> _parse -> _normalize -> parse_iso8601 and the wrapping into DateTime / Date / Time is executed
# from its source per string shape (same shapes, same denotation function as the parse_iso8601 contract).
def c07_parse(text):
    return pendulum.parse(text)


def c07_parse_exact(text):
    return pendulum.parse(text, exact=True)


def c07_parse_tz(text, tz):
    return pendulum.parse(text, tz=tz)


_INLINE = ["pendulum.parser.parse"]


def _is_utc(tz):
    return isinstance(tz, Obj) and tz.f.get("key") == "UTC"


def _zone_clause(result, tzv):
    """the UTC offset of an aware result (the statement speaks of the offset, not of the tzinfo class): 0 when the string has no
    offset or 'Z', the denoted offset otherwise; pendulum's UTC zone object has offset 0, a FixedTimezone its `_offset`"""
    t = result.f.get("tzinfo")
    if t is None:
        return False
    if _is_utc(t):
        off = 0
    elif isinstance(t, Obj) and "_offset" in t.f:
        off = t.f["_offset"]
    else:
        return False
    return sym.eq(off, 0 if (tzv is None or tzv == ("Z",)) else tzv[1])


def _wrap_case(sh, exact):
    base = _p._shape_case(sh)

    # week dates combined with a numeric offset: the date clause goes through the ISO-week spec AND the fixed-offset
    # construction; 25-90 s per obligation under load, so these eight cases are discharged in the thorough tier only
    heavy = sh[0] in ("Y-Ww", "YWw", "Y-Ww-D", "YWwD") and sh[4] not in ("", "Z", None)

    class case:
        options = {"transparent": _INLINE, **({"tier": "thorough"} if heavy else {})}

        def applies(text):
            return False

        def args(F):
            a, cons = base.args(F)
            case._fields = base._fields
            return a, cons

        raises = [(ValueError, "impossible_date_time_or_offset", lambda text: Not(_p.denoted(case._fields)[0]))]

        def result(F, text):
            raise NotImplementedError

        def ensures(result, text):
            # Clauses are stated on positions: the proleptic ordinal of the result's date and its time of day in microseconds.
            # With the result's fields valid (a clause of its own) these determine year/month/day and hour/minute/second/microsecond
            # uniquely (mixed-radix / calendar uniqueness), so this IS "the fields it denotes" - and it is the form in which the
            # constructors' contracts (C02: wall clock of the result == wall clock asked for) deliver the value.
            valid, date, time, tzv = _p.denoted(case._fields)
            ok = lambda c: isinstance(result, Obj) and result.cls is c
            has_t = lambda: all(k in result.f for k in ("hour", "minute", "second", "microsecond"))
            vd = lambda: spec.valid_date(result.year, result.month, result.day)
            vt = lambda: spec.valid_time(result.hour, result.minute, result.second, result.microsecond)
            d_ord = (lambda: spec.ordinal(date[1], date[2], date[3]) if date[0] == "ymd" else date[1])
            dm = lambda: And(vd(), eq(spec.date_ord(result), d_ord()))
            tm = lambda: And(vt(), eq(spec.tod_us(result.hour, result.minute, result.second, result.microsecond), spec.tod_us(*time)))
            if date is not None and time is None:
                if exact:
                    if not ok(pendulum.Date):
                        return [("narrowest_type_is_Date", False)]
                    return [("narrowest_type_is_Date", True), ("the_date_it_denotes", dm())]
                if not ok(pendulum.DateTime):
                    return [("returns_a_DateTime", False)]
                return [("returns_a_DateTime", True), ("the_date_it_denotes", dm()),
                        ("midnight", And(vt(), eq(spec.tod_us(result.hour, result.minute, result.second, result.microsecond), 0))),
                        ("in_UTC", _zone_clause(result, None))]
            if date is None:
                # time of day only.  exact=True: a Time with the denoted fields (the offset of a time-only string is dropped by
                # parser.py: known finding C07-time-offset-dropped, matched at the bounded level - no clause here for shapes with an offset);
                # exact=False: the time of day on the current date in UTC or at the denoted offset
                if exact:
                    if not ok(pendulum.Time):
                        return [("narrowest_type_is_Time", False)]
                    out = [("narrowest_type_is_Time", True), ("the_time_it_denotes", tm())]
                    if tzv is None:
                        out.append(("naive_time", result.f.get("tzinfo") is None))
                    return out
                if not ok(pendulum.DateTime):
                    return [("returns_a_DateTime", False)]
                return [("returns_a_DateTime", True), ("the_time_it_denotes", tm()), ("the_zone_it_denotes", _zone_clause(result, tzv))]
            if not ok(pendulum.DateTime):
                return [("returns_a_DateTime", False)]
            return [("returns_a_DateTime", True), ("the_date_it_denotes", dm()), ("the_time_it_denotes", tm()),
                    ("the_zone_it_denotes", _zone_clause(result, tzv))]

    case.__name__ = _p.shape_name(*sh)
    return case


def _wrap_cases(exact):
    import os

    tier = os.environ.get("VERIF_TIER", "quick")
    return {_p.shape_name(*sh): _wrap_case(sh, exact) for sh in _p.shapes("quick")}


def _tz_case(sh):
    """parse(text, tz=<any fixed-offset zone>): the tz option is the zone of a string WITHOUT an offset and never replaces an
    offset the string carries (also a zero one: 'Z', '+00:00')"""
    from contracts.tz import fresh_fixed

    base = _p._shape_case(sh)

    class case:
        options = {"transparent": _INLINE}

        def applies(text, tz):
            return False

        def args(F):
            a, cons = base.args(F)
            case._fields = base._fields
            tz, zc = fresh_fixed(F, "tzopt")
            return dict(text=a["text"], tz=tz), cons + [zc]

        raises = [(ValueError, "impossible_date_time_or_offset", lambda text, tz: Not(_p.denoted(case._fields)[0]))]

        def result(F, text, tz):
            raise NotImplementedError

        def ensures(result, text, tz):
            valid, date, time, tzv = _p.denoted(case._fields)
            if not (isinstance(result, Obj) and result.cls is pendulum.DateTime):
                return [("returns_a_DateTime", False)]
            t = result.f.get("tzinfo")
            d_ord = spec.ordinal(date[1], date[2], date[3]) if date[0] == "ymd" else date[1]
            out = [("returns_a_DateTime", True),
                   ("the_date_it_denotes", And(spec.valid_date(result.year, result.month, result.day), eq(spec.date_ord(result), d_ord))),
                   ("the_time_it_denotes", And(spec.valid_time(result.hour, result.minute, result.second, result.microsecond),
                                                eq(spec.tod_us(result.hour, result.minute, result.second, result.microsecond), spec.tod_us(*(time or (0, 0, 0, 0))))))]
            if tzv is None:
                out.append(("tz_option_is_the_zone_of_a_string_without_offset", isinstance(t, Obj) and "_offset" in t.f and sym.eq(t.f["_offset"], tz.f["_offset"])))
            else:
                out.append(("offset_of_the_string_wins_over_the_tz_option", _zone_clause(result, tzv)))
            return out

    case.__name__ = _p.shape_name(*sh)
    return case


@contract("props.C07.c07_parse_tz", props=["C07"])
class c07_parse_tz_lemma:
    cases = {_p.shape_name(*sh): _tz_case(sh) for sh in (("Y-M-D", "T", "hh:mm:ss", None, ""), ("Y-M-D", "T", "hh:mm:ss", None, "Z"), ("Y-M-D", "T", "hh:mm:ss", None, "+hh:mm"),
                                                          ("Y-M-D", " ", "hhmmss", (".", 6), "-hhmm"), ("Y-M-D", None, None, None, ""), ("YMD", "T", "hh:mm", None, "+hh"))}


@contract("props.C07.c07_parse", props=["C07"])
class c07_parse_lemma:
    cases = _wrap_cases(False)


@contract("props.C07.c07_parse_exact", props=["C07"])
class c07_parse_exact_lemma:
    cases = _wrap_cases(True)


def _canary_case():
    """falsified: claims a 7-digit fraction is ROUNDED to the microsecond (the property says truncated)"""
    base = _p._shape_case(("Y-M-D", "T", "hh:mm:ss", (".", 7), "Z"))

    class case:
        applies = base.applies
        args = base.args
        raises = base.raises
        result = base.result

        def ensures(result, text):
            ds = base._fields["frac"]
            us = _p.micro(ds)
            rounded = sym.add(us, sym.If(sym.ge(ds[6], 5), 1, 0))
            return [("fraction_rounded_half_up", eq(result.microsecond, rounded))]

    class ns:
        cases = {"rounding": case}

    return ns


CANARIES = [("fraction_rounded_not_truncated", "pendulum.parsing.iso8601.parse_iso8601", _canary_case())]

ASSUMPTIONS = [
    "A-RE: the real compiled regex ISO8601_DT is executed by CPython's re on two representatives of each shape; its group spans depend only on the shape because every class/literal of the pattern treats the ten digits alike (checked mechanically on the parsed pattern on every run)",
    "string shape: proofs are per shape (which separators/designators are present, how many digits each run has); digits are symbolic. Quick tier: a covering family of 107 shapes; thorough tier: the full product of date forms x separators x time structures x offset forms with eight fraction variants (about 3,400 shapes)",
    "stdlib contracts assumed: int() of a digit string, str slicing/split/startswith/format padding, datetime.date/time/datetime constructors (ValueError exactly outside their documented ranges), date + timedelta, FixedTimezone.__init__",
    "pendulum.parse(text) and pendulum.parse(text, exact=True) are proved per shape on the 107 covering shapes (harness lemmas c07_parse / c07_parse_exact: parser.parse, parser._parse, parsing.parse, _parse, _normalize, parse_iso8601 executed from their source; DateTime/Date/Time construction through the contracts of pendulum.datetime/date/time proved under C02); pendulum.parse(text, tz=<any fixed-offset zone>) is proved on six shapes (lemma c07_parse_tz: the option is the zone of a string without an offset and never replaces an offset the string carries, also a zero one); named zones as tz=, now=, the thorough-tier shape product at the parse() level and the fallback chain for other text are checked bounded only",
    "time-only strings with an offset and exact=True: parser.py drops the offset (known finding C07-time-offset-dropped, matched at the bounded level); the wrapper lemma states no zone clause for those shapes",
    "Rust parser (rust/src/parsing.rs): never proved; rebuilt from the working tree on every run and compared with the constructive oracle (bounded)",
]
EXPLANATION = ("parse_iso8601 (pure-Python backend) is executed symbolically from its source once per string shape with symbolic digits: it raises a ValueError exactly when the "
               "digits denote an impossible date, ordinal, week, weekday, time or offset, and otherwise returns the date / time / datetime whose fields are the digit runs of the "
               "shape (ordinal and week dates via the proleptic-Gregorian spec), microsecond = first six fraction digits, offset = +-(hh*60+mm)*60.")


def bounded(ctx):
    from bounded import c07

    c07.run(ctx)


MANIFEST_ENTRY = {
    "text": "For every well-formed string shape (calendar / ordinal / week date, basic or extended, reduced forms, T or space, five time structures, fraction of 1..9 digits after '.' or ',', Z or +-hh[[:]mm]) and ALL digit values, the pure-Python parse_iso8601 is proved to raise a ValueError exactly when the digits denote an impossible date, ordinal, week, weekday, time or offset and otherwise to return exactly the denoted date, time, microsecond (truncated) and offset. The public entry point pendulum.parse(text) / parse(text, exact=True) is proved on the same covering shapes to return the DateTime (UTC, or the denoted fixed offset), Date or Time with exactly the denoted ordinal, time of day and zone, the narrowest type with exact=True, and a ValueError exactly for impossible values. With tz=<fixed-offset zone> the option is proved to be the zone of a string without an offset and never to replace an offset the string carries. The compiled parser, named zones as tz option and the inversion of isoformat/str/to_iso8601_string/to_rfc3339_string/atom/w3c are checked bounded against a constructive oracle on both backends.",
    "note": "Trusted: pyvc, z3/cvc5, A-RE (regex run on shape representatives; digit-invariance of the pattern checked mechanically). Proof is per shape: quick tier 107 covering shapes, thorough tier the full group product (about 3,400 shapes). Genuine defects of the Python parser found by refuted obligations and fixed (week 00 / weekday 0 accepted; bare hhmmss with hour < 10; week dates before year 1000; offsets of 24 h or more; the offset of a time-only string dropped by parse()). Rust defects (last day of month in ordinal/week dates, 'Thh:mm:ss', bare hh/hhmmss, week 00) are bounded known findings; Rust is never proved.",
    "technique": "contract-based deductive verification per string shape (symbolic execution of the real parser with symbolic digits, z3/cvc5); bounded constructive-oracle sweeps for the Rust parser and the public parse() entry point",
    "design_ref": "DESIGN.md section 8 (C07), 12",
}
