"""C07 ISO 8601 / RFC 3339 date and time strings parse to the value they denote."""
from contracts import parsing as _p
from pyvc import sym
from pyvc.sym import eq

ID = "C07"
CONTRACTS = ["pendulum.parsing.iso8601.parse_iso8601"]
LEMMAS = []


def _canary_case():
    """falsified: claims a 7-digit fraction is ROUNDED to the microsecond (the property says truncated)"""
    base = _p._shape_case(("Y-M-D", "T", "hh:mm:ss", (".", 7), "Z"))

    class case:
        applies = base.applies
        args = base.args
        raises = base.raises
        result = base.result

        def ensures(result, text):
            ds = base._fields["frac"]
            us = _p.micro(ds)
            rounded = sym.add(us, sym.If(sym.ge(ds[6], 5), 1, 0))
            return [("fraction_rounded_half_up", eq(result.microsecond, rounded))]

    class ns:
        cases = {"rounding": case}

    return ns


CANARIES = [("fraction_rounded_not_truncated", "pendulum.parsing.iso8601.parse_iso8601", _canary_case())]

ASSUMPTIONS = [
    "A-RE: the real compiled regex ISO8601_DT is executed by CPython's re on two representatives of each shape; its group spans depend only on the shape because every class/literal of the pattern treats the ten digits alike (checked mechanically on the parsed pattern on every run)",
    "string shape: proofs are per shape (which separators/designators are present, how many digits each run has); digits are symbolic. Quick tier: a covering family of 107 shapes; thorough tier: the full product of date forms x separators x time structures x offset forms with eight fraction variants (about 3,400 shapes)",
    "stdlib contracts assumed: int() of a digit string, str slicing/split/startswith/format padding, datetime.date/time/datetime constructors (ValueError exactly outside their documented ranges), date + timedelta, FixedTimezone.__init__",
    "pendulum.parse()/parser.py wrapping (DateTime/Date/Time construction, tz option, exact) and the fallback chain are checked bounded end to end, not proved",
    "Rust parser (rust/src/parsing.rs): never proved; rebuilt from the working tree on every run and compared with the constructive oracle (bounded)",
]
EXPLANATION = ("parse_iso8601 (pure-Python backend) is executed symbolically from its source once per string shape with symbolic digits: it raises a ValueError exactly when the "
               "digits denote an impossible date, ordinal, week, weekday, time or offset, and otherwise returns the date / time / datetime whose fields are the digit runs of the "
               "shape (ordinal and week dates via the proleptic-Gregorian spec), microsecond = first six fraction digits, offset = +-(hh*60+mm)*60.")


def bounded(ctx):
    from bounded import c07

    c07.run(ctx)


MANIFEST_ENTRY = {
    "text": "For every well-formed string shape (calendar / ordinal / week date, basic or extended, reduced forms, T or space, five time structures, fraction of 1..9 digits after '.' or ',', Z or +-hh[[:]mm]) and ALL digit values, the pure-Python parse_iso8601 is proved to raise a ValueError exactly when the digits denote an impossible date, ordinal, week, weekday, time or offset and otherwise to return exactly the denoted date, time, microsecond (truncated) and offset. The compiled parser, pendulum.parse() wrapping, exact/tz options and the inversion of isoformat/str/to_iso8601_string/to_rfc3339_string/atom/w3c are checked bounded against a constructive oracle on both backends.",
    "note": "Trusted: pyvc, z3/cvc5, A-RE (regex run on shape representatives; digit-invariance of the pattern checked mechanically). Proof is per shape: quick tier 107 covering shapes, thorough tier the full group product (about 3,400 shapes). Three genuine defects of the Python parser found by refuted obligations and fixed (week 00 / weekday 0 accepted; bare hhmmss with hour < 10; week dates before year 1000). Rust defects (last day of month in ordinal/week dates, 'Thh:mm:ss', bare hh/hhmmss, week 00) are bounded known findings; Rust is never proved.",
    "technique": "contract-based deductive verification per string shape (symbolic execution of the real parser with symbolic digits, z3/cvc5); bounded constructive-oracle sweeps for the Rust parser and the public parse() entry point",
    "design_ref": "DESIGN.md section 8 (C07), 12",
}
