"""C15 Calendar primitives agree with the proleptic Gregorian calendar in both backends."""
from pyvc import spec, sym

ID = "C15"

CONTRACTS = [
    "pendulum._helpers.is_leap",
    "pendulum._helpers.is_long_year",
    "pendulum._helpers.week_day",
    "pendulum._helpers.days_in_year",
    "pendulum._helpers._day_number",
    "pendulum._helpers.local_time",
    "pendulum.date.Date.day_of_week",
    "pendulum.date.Date.day_of_year",
    "pendulum.date.Date.week_of_year",
    "pendulum.date.Date.days_in_month",
    "pendulum.date.Date.quarter",
    "pendulum.date.Date.is_leap_year",
    "pendulum.date.Date.is_long_year",
    "pendulum.date.Date.week_of_month",
]

LEMMAS = []


class _canary_week_day:
    """deliberately wrong weekday spec (+5 instead of +6): must be refuted with a replayable input"""

    def args(F):
        return dict(year=F.int("year"), month=F.int("month"), day=F.int("day"))

    def requires(year, month, day):
        return [("valid_date", spec.valid_date(year, month, day))]

    def value(year, month, day):
        return sym.add(sym.fmod(sym.add(spec.ordinal(year, month, day), 5), 7), 1)


CANARIES = [("week_day_off_by_one", "pendulum._helpers.week_day", _canary_week_day)]

ASSUMPTIONS = [
    "A-TYPES: arguments are Python ints",
    "Rust backend: never proved; bounded differential against the proved Python functions",
]

def bounded(ctx):
    from bounded import c15

    c15.run(ctx)


MANIFEST_ENTRY = {
    "text": "Every pure-Python calendar primitive (is_leap, is_long_year, week_day, days_in_year, _day_number, local_time with its four loops) is proved equal to the textbook proleptic-Gregorian specification for all integer inputs in range, by VCs generated from the real source and discharged by z3/cvc5; the Rust copies are compared exhaustively/bounded against the proved Python functions.",
    "note": "Trusted: pyvc VC generator and spec library (cross-checked natively against datetime on every run), z3/cvc5. Assumed: stdlib contracts listed in evidence. Rust backend is never proved: bounded differential only.",
    "technique": "contract-based deductive verification (own VC generator over the real Python AST, z3/cvc5); bounded differential for Rust",
    "design_ref": "DESIGN.md section 8 (C15)",
}
