"""C02 Wall-clock construction is normalised by the documented DST rules."""
import pendulum
from pendulum.datetime import DateTime
from pendulum.tz.exceptions import AmbiguousTime, NonExistingTime
from pendulum.tz.timezone import Timezone

from contracts.dt import _F7, valid7, wall7
from pyvc import spec, stdlib, sym, zones
from pyvc.contract import contract
from pyvc.spec import D, DUS, M
from pyvc.sym import And, If, Implies, Not, Or, absv, eq, ge, gt, le, lt, ne

ID = "C02"


# ---- the property, stated from its text over one transition (T, a, b) and executed as a harness over contracts
def c02_construct(year, month, day, hour, minute, second, microsecond, tz, fold, roe):
    dt = pendulum.datetime(year, month, day, hour, minute, second, microsecond, tz=tz, fold=fold, raise_on_unknown_times=roe)
    again = dt.set(hour=dt.hour)          # re-normalising a normalised value
    via_tz = tz.datetime(year, month, day, hour, minute, second, microsecond) if fold == 1 and not roe else None
    return dt, again, via_tz


def _rules(tz, w, fold):
    """the documented rules, spelled out for a single transition T: offset a before, b after"""
    (T,), (a, b) = tz.T, tz.o
    A, B = sym.mul(a, M), sym.mul(b, M)
    skipped = And(lt(a, b), ge(w, sym.add(T, A)), lt(w, sym.add(T, B)))
    repeated = And(gt(a, b), ge(w, sym.add(T, B)), lt(w, sym.add(T, A)))
    return skipped, repeated, A, B


@contract("props.C02.c02_construct", props=["C02"])
class c02_lemma:
    def args(F):
        tz, zc = stdlib.fresh_zone(F, Timezone, "tz", k=1)
        a = {n: F.int(n) for n in _F7}
        a.update(tz=tz, fold=F.int("fold"), roe=F.bool("roe"))
        return a, [zc]

    def requires(tz, fold, roe, **a):
        return [("valid_wall_clock", And(valid7(a), Or(eq(fold, 0), eq(fold, 1))))]

    raises = [(NonExistingTime, "exactly_for_skipped", lambda tz, fold, roe, **a: And(roe, _rules(tz, wall7(a), fold)[0])),
              (AmbiguousTime, "exactly_for_repeated", lambda tz, fold, roe, **a: And(roe, _rules(tz, wall7(a), fold)[1])),
              (OverflowError, "moved_out_of_range", lambda tz, fold, roe, **a:
               And(Not(roe), _rules(tz, wall7(a), fold)[0],
                   Not(stdlib.in_dt_range(If(eq(fold, 1), sym.add(wall7(a), sym.sub(_rules(tz, wall7(a), fold)[3], _rules(tz, wall7(a), fold)[2])),
                                              sym.sub(wall7(a), sym.sub(_rules(tz, wall7(a), fold)[3], _rules(tz, wall7(a), fold)[2])))))))]

    def result(F, **a):
        raise NotImplementedError

    def ensures(result, tz, fold, roe, **a):
        dt, again, via_tz = result
        w = wall7(a)
        skipped, repeated, A, B = _rules(tz, w, fold)
        gap = sym.sub(B, A)
        inst = zones.instant(dt)
        out = [
            ("exists_once_unchanged", Implies(And(Not(skipped), Not(repeated)), eq(spec.wall_us(dt), w))),
            ("repeated_later_by_default_earlier_with_fold0",
             Implies(repeated, And(eq(spec.wall_us(dt), w), eq(inst, If(eq(fold, 1), sym.sub(w, B), sym.sub(w, A)))))),
            ("skipped_forward_by_gap_backward_with_fold0",
             Implies(skipped, eq(spec.wall_us(dt), If(eq(fold, 1), sym.add(w, gap), sym.sub(w, gap))))),
            ("zone_kept", zones.same_zone(dt.tzinfo, tz)),
            ("round_trip_through_utc", And(eq(zones.render_wall(tz, inst), spec.wall_us(dt)), eq(zones.off_utc(tz, inst), zones.offset_of(dt)))),
            ("renormalising_is_identity", And(eq(spec.wall_us(again), spec.wall_us(dt)), eq(zones.offset_of(again), zones.offset_of(dt)))),
        ]
        if via_tz is not None:
            out.append(("Timezone.datetime_agrees", And(eq(spec.wall_us(via_tz), spec.wall_us(dt)), eq(zones.offset_of(via_tz), zones.offset_of(dt)))))
        return out


class _canary_convert:
    """falsified rule: claims the *earlier* occurrence is chosen by default (fold roles swapped)"""
    from contracts.tz import _convert_naive as _base, _naive_args, _tz1

    args = _naive_args(_tz1)
    requires = _base.requires
    raises = _base.raises

    def result(F, **a):
        raise NotImplementedError

    def ensures(result, self, dt, raise_on_unknown_times):
        w2, f2 = zones.normalised(self, spec.wall_us(dt), sym.sub(1, dt.fold))
        return [("wall_clock_with_swapped_fold", eq(spec.wall_us(result), w2))]


CONTRACTS = [
    "pendulum.tz.timezone.Timezone.convert",
    "pendulum.tz.timezone.FixedTimezone.convert",
    "pendulum.tz.timezone.FixedTimezone.fromutc",
    "pendulum.tz.timezone.Timezone.datetime",
    "pendulum.tz.timezone.FixedTimezone.datetime",
    "pendulum.datetime.DateTime.create",
    "pendulum.datetime",
    "pendulum.naive",
    "pendulum.datetime.DateTime.set",
    "pendulum.datetime.DateTime.replace",
    "props.C02.c02_construct",
]
CANARIES = [("fold_roles_swapped", "pendulum.tz.timezone.Timezone.convert", _canary_convert)]
ASSUMPTIONS = [
    "zoneinfo.ZoneInfo conforms to the (T, o) transition model of pyvc/zones.py (assumed; conformance-swept on every transition of tzdata each run)",
    "isolation of transitions (closest offset-changing pair in tzdata is re-measured each run)",
    "A-TYPES: tz arguments are pendulum Timezone / FixedTimezone objects or None (strings, floats and foreign tzinfo go through _safe_timezone: C01)",
    "local(): the host zone is whatever get_local_timezone() returns (not modelled); parse(tz=) is covered under C07",
]
EXPLANATION = "Timezone.convert (naive), DateTime.create, pendulum.datetime/naive, set/on/at/replace are proved against the DST normalisation rules over a symbolic transition; the property text is re-stated independently in the harness lemma."


def bounded(ctx):
    from bounded import c02, zonesweep

    zonesweep.run(ctx)
    c02.run(ctx)


MANIFEST_ENTRY = {
    "text": "Timezone.convert/datetime, FixedTimezone.convert/datetime/fromutc, DateTime.create, pendulum.datetime/naive and DateTime.set/on/at/replace are proved, for every wall-clock tuple, fold, raise flag and every transition geometry (symbolic T, a, b), to implement the documented DST normalisation; NonExistingTime/AmbiguousTime are raised exactly for skipped/repeated wall times and every result round-trips through UTC.",
    "note": "Trusted: pyvc + spec/zones library, z3/cvc5. Assumed: CPython datetime/zoneinfo contracts - the (T, o) transition model is conformance-swept against every transition of every zone in tzdata on each run (bounded). Not covered by proof: string/float tz arguments, the host local zone.",
    "technique": "contract-based deductive verification (own VC generator over the real Python AST, z3/cvc5) over a symbolic time-zone transition model; conformance sweep of the assumed zoneinfo contract; bounded end-to-end run-time contract checks at real transitions",
    "design_ref": "DESIGN.md sections 5.1 and 8 (C02)",
}
