"""C10 Duration arithmetic agrees with timedelta arithmetic."""
import datetime as _dt

import pendulum
from pendulum.duration import Duration

from contracts.duration import fresh_duration, rhe_rel, _no_ym
from pyvc import spec, stdlib, sym
from pyvc.contract import contract, lemma
from pyvc.spec import D, DUS, M
from pyvc.sym import And, If, Implies, Not, Or, absv, eq, ge, gt, le, lt, ne

ID = "C10"


# ---- property-level harness over the operator contracts (every operator below resolves, through the
# real MRO and Python's binary-operator protocol, to a contract - never to a body)
def c10_binary(d, other):
    return (d + other, other + d, d - other, d // other, d / other, d % other, divmod(d, other))


def c10_unary_scale(d, k, f):
    return (-d, d * k, k * d, d // k, d / k, d * f, f * d, d / f)


def _args_pair(other_cls):
    def args(F):
        o, inv = fresh_duration(F, Duration, "d", ym=False)
        if other_cls is Duration:
            p, inv2 = fresh_duration(F, Duration, "other", ym=False)
        else:
            p, inv2 = stdlib.fresh_td(F, _dt.timedelta, "other")
        return dict(d=o, other=p), [inv, inv2]

    return args


class _binary_base:
    def requires(d, other):
        return [("nonzero_divisor", ne(other.us, 0)),
                ("results_representable", And(stdlib.td_in_range(sym.add(d.us, other.us)), stdlib.td_in_range(sym.sub(d.us, other.us))))]

    def result(F, d, other):
        raise NotImplementedError

    def ensures(result, d, other):
        add, radd, sub, fdiv, tdiv, mod, (dq, dr) = result
        is_dur = lambda x: isinstance(x, sym.__class__) or (hasattr(x, "cls") and issubclass(x.cls, Duration))
        a, b = d.us, other.us
        return [("returns_durations", all(is_dur(x) for x in (add, radd, sub, mod, dr))),
                ("add", And(eq(add.us, sym.add(a, b)), eq(radd.us, sym.add(a, b)))),
                ("sub", eq(sub.us, sym.sub(a, b))),
                ("floordiv", eq(fdiv, sym.fdiv(a, b))),
                ("truediv", eq(tdiv, sym.truediv(a, b))),
                ("mod", eq(mod.us, sym.fmod(a, b))),
                ("divmod", And(eq(dq, sym.fdiv(a, b)), eq(dr.us, sym.fmod(a, b))))]


@contract("props.C10.c10_binary", props=["C10"])
class c10_binary_lemma:
    class with_duration(_binary_base):
        args = _args_pair(Duration)

    class with_timedelta(_binary_base):
        args = _args_pair(_dt.timedelta)

    cases = {"duration": with_duration, "timedelta": with_timedelta}


@contract("props.C10.c10_unary_scale", props=["C10"])
class c10_scale_lemma:
    def args(F):
        o, inv = fresh_duration(F, Duration, "d", ym=False)
        return dict(d=o, k=F.int("k"), f=F.real("f")), [inv]

    def requires(d, k, f):
        n, dd = sym.ratio(f)
        lim = stdlib.MAX_TD_DAYS * DUS
        return [("nonzero", And(ne(k, 0), ne(f, 0))),
                ("representable", And(le(absv(d.us), lim), stdlib.td_in_range(sym.mul(d.us, k)), le(absv(sym.mul(d.us, k)), lim),
                                      le(absv(sym.mul(d.us, n)), sym.mul(dd, lim)), le(absv(sym.mul(d.us, dd)), sym.mul(absv(n), lim))))]

    def result(F, **a):
        raise NotImplementedError

    def ensures(result, d, k, f):
        neg, mul, rmul, fdiv, tdiv, mulf, rmulf, divf = result
        n, dd = sym.ratio(f)
        a = d.us
        return [("returns_durations", all(issubclass(x.cls, Duration) for x in result)),
                ("neg", eq(neg.us, sym.neg(a))),
                ("mul_int", And(eq(mul.us, sym.mul(a, k)), eq(rmul.us, sym.mul(a, k)))),
                ("floordiv_int", eq(fdiv.us, sym.fdiv(a, k))),
                ("truediv_int", rhe_rel(a, k, tdiv.us)),
                ("mul_float", And(rhe_rel(sym.mul(a, n), dd, mulf.us), rhe_rel(sym.mul(a, n), dd, rmulf.us))),
                ("truediv_float", rhe_rel(sym.mul(dd, a), n, divf.us))]


@lemma("C10.frame_inherited_comparisons", props=["C10"])
def frame_lemma():
    """==, ordering and hash of a Duration are timedelta's own (not overridden anywhere in the MRO before timedelta)"""
    out = []
    mro = Duration.__mro__
    upto = mro[:mro.index(_dt.timedelta)]
    for name in ("__eq__", "__ne__", "__lt__", "__le__", "__gt__", "__ge__", "__hash__", "__abs__", "__bool__"):
        overridden = [c.__name__ for c in upto if name in c.__dict__]
        out.append((f"{name}_is_timedelta's", [], not overridden))
    return out


class _canary_add:
    """falsified postcondition: claims d + other is one microsecond longer than the native sum"""

    class base:
        raises = [(OverflowError, "native_range", lambda self, other: Not(stdlib.td_in_range(sym.add(self.us, other.us))))]

        def result(F, self, other):
            raise NotImplementedError

        def ensures(result, self, other):
            return [("native_length_plus_one", eq(result.us, sym.add(sym.add(self.us, other.us), 1)))]

    from contracts.duration import _pair as _p

    class dur(base):
        pass

    dur.args = _p(Duration)
    cases = {"duration": dur}


CONTRACTS = [
    "pendulum.duration._divide_and_round",
    "pendulum.duration.Duration._to_microseconds",
    "pendulum.duration._timedelta_to_microseconds",
    "pendulum.duration.Duration.__add__",
    "pendulum.duration.Duration.__sub__",
    "pendulum.duration.Duration.__neg__",
    "pendulum.duration.Duration.__mul__",
    "pendulum.duration.Duration.__floordiv__",
    "pendulum.duration.Duration.__truediv__",
    "pendulum.duration.Duration.__mod__",
    "pendulum.duration.Duration.__divmod__",
    "props.C10.c10_binary",
    "props.C10.c10_unary_scale",
]
LEMMAS = ["C10.frame_inherited_comparisons"]
CANARIES = [("add_off_by_one_us", "pendulum.duration.Duration.__add__", _canary_add)]
ASSUMPTIONS = ["A-FLOAT: doubles as exact reals (total_seconds sums, float.as_integer_ratio is the exact ratio)",
               "A-TYPES: operand classes are exactly Duration / datetime.timedelta / int / float (AbsoluteDuration and Interval operands are not in these cases)",
               "==, ordering, hash: CPython's C implementation of timedelta (frame lemma shows Duration does not override them)"]
EXPLANATION = "Each operator of Duration is proved to return the native timedelta operation on the microsecond values; the property is the harness lemma c10_binary/c10_unary_scale over those contracts plus the frame lemma."


def bounded(ctx):
    from bounded import c10

    c10.run(ctx)


MANIFEST_ENTRY = {
    "text": "Every arithmetic operator of Duration (+, -, unary -, * and / by int and float, //, /, %, divmod by Duration and by plain timedelta, both operand orders through Python's reflected-operator protocol) is proved to yield exactly the native timedelta result on microsecond integers and the documented round-half-even semantics, for all operands; a frame lemma shows comparisons/hash are timedelta's own.",
    "note": "Trusted: pyvc + spec library, z3/cvc5. Assumed: CPython timedelta constructor/total_seconds/as_integer_ratio contracts, A-FLOAT. Bounded (not proved): operator samples against native timedelta on real objects (float rounding, ties).",
    "technique": "contract-based deductive verification (own VC generator over the real Python AST, z3/cvc5); harness lemmas over contracts; bounded operator sweep",
    "design_ref": "DESIGN.md section 8 (C10)",
}
