"""C08 format() renders every token correctly and from_format() inverts it."""
from contracts import formatting as _f
from pyvc import sym
from pyvc.sym import eq

ID = "C08"
CONTRACTS = ["pendulum.formatting.formatter.Formatter._format_token", "pendulum.formatting.formatter.Formatter.format",
             "pendulum.formatting.formatter.Formatter._get_parsed_value", "pendulum.formatting.formatter.Formatter._check_parsed"]
LEMMAS = []


def _canary_case():
    """falsified: claims the 12-hour token hh shows 00 at midnight and noon (the documented range is 01..12)"""
    from contracts.dt import zone_cases

    base = _f._token_case("hh", "naive", zone_cases(k=1)["naive"])

    class case:
        applies = base.applies
        args = base.args
        requires = base.requires
        result = base.result

        def ensures(result, self, dt, token, locale):
            return [("hour_modulo_12", _f.rendered_equals(result, ("pad", 2, sym.fmod(dt.hour, 12))))]

    class ns:
        cases = {"hh_zero_based": case}

    return ns


CANARIES = [("twelve_hour_clock_zero_based", "pendulum.formatting.formatter.Formatter._format_token", _canary_case())]

ASSUMPTIONS = [
    "proved tokens: YYYY YY Y Q MM M DD D DDDD DDD d E HH H hh h mm m ss s S..SSSSSS X x Z ZZ, for every DateTime with year 1000..9999 (naive / fixed offset / named zone; X and x on aware "
    "values only: a naive DateTime has no timestamp; Z and ZZ for whole-minute offsets - the property's quantifier)",
    "string model: zero-padded and fixed-width decimal renderings are character strings of symbolic digits whose value equals the formatted integer (definition by uniqueness of the decimal "
    "expansion); unpadded variable-width renderings are abstract str(<int>) values compared by their integer",
    "format(): proved for 12 concrete format strings (the named ATOM/W3C/ISO8601-extended formats, escapes [..] and \\x, every numeric token) - the real token regex is run by CPython's re on the "
    "concrete format and the replacement callback is executed symbolically per match; the expected value comes from an independent tokenizer written from the documentation",
    "getters day_of_year/day_of_week/quarter/int_timestamp/utcoffset are used through their contracts (C15, C01); the token tables are lambdas executed from their source",
    "from_format: its two pure pieces are proved - Formatter._get_parsed_value (what one token/value pair writes into the field dict: 25 numeric tokens, the YY pivot 68/69, the 12-hour "
    "check, fraction scaling, Z/ZZ offsets in four spellings with the -23:59..+23:59 range) and Formatter._check_parsed (all 128 presence patterns of the seven fields x {no meridiem, am, pm}: "
    "defaults from 'now', 1/0 once a larger unit is given, AM/PM arithmetic, ValueError for an hour of 13 or more). The regex assembly and the callback plumbing of Formatter.parse thread one "
    "mutable dict through re.sub callbacks, outside the executor's immutable value model: that glue, quarter/day-of-year/weekday/timestamp completion, localized tokens (names, ordinals, AM/PM in "
    "27 locales, L* formats), zone names and the to_*_string helpers are checked bounded (localized part exhaustively over the finite name tables)",
]
EXPLANATION = ("Formatter._format_token is executed symbolically per numeric token with a symbolic DateTime: the string it builds has the documented width and its digits denote the value given "
               "by calendar arithmetic (day of year, ISO weekday, 12-hour clock, fraction prefixes, epoch seconds/milliseconds, signed hh[:]mm offset). Formatter.format is executed per concrete "
               "format string: the result is the concatenation of token renderings and verbatim literals that an independent reading of the format prescribes. For from_format, "
               "Formatter._get_parsed_value is executed per token with a symbolic digit string (the dict it updates is returned as the final value of its parameter) and "
               "Formatter._check_parsed per presence pattern of the parsed fields with symbolic values and a symbolic 'now'.")


def bounded(ctx):
    from bounded import c08

    c08.run(ctx)


MANIFEST_ENTRY = {
    "text": "Every numeric format token (year, month, day, day of year, weekday, ISO weekday, 24/12-hour, minute, second, each fraction width, epoch seconds and milliseconds, Z/ZZ offsets) is proved, for all DateTimes in years 1000-9999 and naive / fixed-offset / named-zone values, to render exactly the value calendar arithmetic gives, with the documented width; Formatter.format is proved for twelve concrete formats (named formats, bracket and backslash escapes) to be the concatenation an independent reading of the format prescribes; for from_format the per-token field updates (Formatter._get_parsed_value, 33 token/value shapes) and the completion of missing fields from 'now' with AM/PM handling (Formatter._check_parsed, 384 presence patterns) are proved. Localized names, ordinals and AM/PM in all 27 locales (exhaustive over the finite tables), zone names, the 16 to_*_string helpers, from_format round trips for 17 formats and every tz-database zone name, defaults from an injected 'now' and mismatch -> ValueError are checked bounded on the real objects.",
    "note": "Trusted: pyvc, z3/cvc5, the symbolic-digit string model. Not proved: the regex/callback glue of Formatter.parse (mutable dict threaded through re.sub callbacks) - bounded only. Six genuine defects found and fixed (nl week_data nesting -> format('e') TypeError; letters inside [escaped text] read as tokens by from_format; Do token AttributeError in 14 locales; three-part zone names rejected by z; Z/ZZ offsets of 24 h or more accepted; '13 PM' with 'HH A' -> TypeError). Known finding: backslash escapes in from_format.",
    "technique": "contract-based deductive verification per token and per concrete format (symbolic execution of the real formatter with symbolic DateTimes and symbolic-digit strings, z3/cvc5); bounded constructive-oracle checks for localized tokens and from_format",
    "design_ref": "DESIGN.md section 8 (C08), 12",
}
