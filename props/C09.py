"""C09 Duration normalisation is consistent with timedelta and with itself."""
import pendulum
from pendulum.duration import Duration

from contracts.duration import R_of, _NUM, ym_us
from pyvc import spec, stdlib, sym
from pyvc.contract import contract
from pyvc.spec import D, DUS, M
from pyvc.sym import And, If, Implies, Not, Or, absv, eq, ge, gt, le, lt, ne, sign

ID = "C09"


# ---- property-level lemma, stated as a harness over the contracts (executed by the same engine:
# every call below is resolved to the callee's *contract*, never its body)
def c09_components(days, seconds, microseconds, milliseconds, minutes, hours, weeks, years, months):
    d = Duration(days=days, seconds=seconds, microseconds=microseconds, milliseconds=milliseconds,
                 minutes=minutes, hours=hours, weeks=weeks, years=years, months=months)
    comps = (d.weeks, d.remaining_days, d.hours, d.minutes, d.remaining_seconds, d.microseconds)
    rebuilt = Duration(years=d.years, months=d.months, weeks=d.weeks, days=d.remaining_days, hours=d.hours,
                       minutes=d.minutes, seconds=d.remaining_seconds, microseconds=d.microseconds)
    totals = (d.total_seconds(), d.total_minutes(), d.total_hours(), d.total_days(), d.total_weeks())
    ins = (d.in_seconds(), d.in_minutes(), d.in_hours(), d.in_days(), d.in_weeks())
    return d, comps, rebuilt, totals, ins, (d.years, d.months)


def _native(a):
    scale = dict(days=DUS, seconds=M, microseconds=1, milliseconds=1000, minutes=60 * M, hours=3600 * M, weeks=7 * DUS)
    tot = 0
    for n, sc in scale.items():
        tot = sym.add(tot, sym.mul(a[n], sc))
    return sym.add(tot, ym_us(a["years"], a["months"]))


_SHADOW = ("us", "_total", "_microseconds", "_seconds", "_days", "_remaining_days", "_weeks", "_months", "_years")


@contract("props.C09.c09_components", props=["C09"])
class c09_lemma:
    def args(F):
        return {n: F.int(n) for n in _NUM + ("years", "months")}

    def requires(**a):
        return [("representable", stdlib.td_in_range(_native(a)))]

    def result(F, **a):
        raise NotImplementedError

    def ensures(result, **a):
        d, comps, rebuilt, totals, ins, (yy, mm) = result
        w, rd, h, mi, s, us = comps
        T = _native(a)
        R = sym.sub(T, ym_us(a["years"], a["months"]))
        same_sign = And(*[If(lt(R, 0), le(c, 0), ge(c, 0)) for c in comps])
        out = [
            ("equals_native_timedelta", eq(d.us, T)),
            ("years_months_as_given", And(eq(yy, a["years"]), eq(mm, a["months"]))),
            ("components_carry_sign", same_sign),
            ("canonical_ranges", And(lt(absv(rd), 7), lt(absv(h), 24), lt(absv(mi), 60), lt(absv(s), 60), lt(absv(us), M))),
            ("components_sum_to_R", eq(sym.add(sym.mul(sym.add(sym.mul(w, 7), rd), DUS),
                                              sym.add(sym.mul(sym.add(sym.add(sym.mul(h, 3600), sym.mul(mi, 60)), s), M), us)), R)),
            ("rebuild_reproduces", And(*[sym.eq(rebuilt.f[k], d.f[k]) for k in _SHADOW])),
        ]
        units = (M, 60 * M, 3600 * M, DUS, 7 * DUS)
        for name, tot, inn, u in zip(("seconds", "minutes", "hours", "days", "weeks"), totals, ins, units):
            out.append((f"total_{name}", eq(sym.mul(tot, u), sym.toreal(T))))
            out.append((f"in_{name}_truncates", eq(inn, sym.trunc(tot))))
        return out


class _canary_new:
    """falsified normalisation: microseconds claimed to keep the sign of the *seconds* field"""
    from contracts.duration import Duration_new as _D

    def args(F):
        a = {n: F.int(n) for n in _NUM + ("years", "months")}
        a["cls"] = Duration
        return a

    raises = [(OverflowError, "native_range", lambda cls, **a: Not(stdlib.td_in_range(_native(a))))]

    def result(F, **a):
        raise NotImplementedError

    def ensures(result, cls, **a):
        R = R_of(result)
        return [("microseconds_wrong_modulus", eq(result._microseconds, If(lt(R, 0), sym.neg(sym.fmod(absv(R), M - 1)), sym.fmod(absv(R), M - 1))))]


CONTRACTS = [
    "pendulum.duration.Duration.__new__",
    "pendulum.duration.Duration.hours",
    "pendulum.duration.Duration.minutes",
    "pendulum.duration.Duration.remaining_seconds",
    "pendulum.duration.Duration.invert",
    "pendulum.duration.Duration.total_minutes",
    "pendulum.duration.Duration.total_hours",
    "pendulum.duration.Duration.total_days",
    "pendulum.duration.Duration.total_weeks",
    "pendulum.duration.Duration.in_minutes",
    "pendulum.duration.Duration.in_hours",
    "pendulum.duration.Duration.in_days",
    "pendulum.duration.Duration.in_weeks",
    "pendulum.duration.Duration.in_seconds",
    "props.C09.c09_components",
]
CANARIES = [("wrong_microsecond_modulus", "pendulum.duration.Duration.__new__", _canary_new)]
ASSUMPTIONS = ["A-FLOAT: doubles are treated as exact reals in the proofs (total_seconds(), float modulo, round); "
               "the rounding lemma this hides is checked by the bounded stand-in 'float_lemma' on the real class",
               "A-TYPES: constructor arguments are Python ints (the property's quantifier); internal float seconds form a second case"]
EXPLANATION = "Duration.__new__ and the derived getters are proved against the decomposition stated in C09; the property is a harness-lemma over those contracts."


def bounded(ctx):
    from bounded import c09

    c09.run(ctx)


MANIFEST_ENTRY = {
    "text": "Duration.__new__ (int and float-seconds cases) and every derived getter/total_*/in_* are proved, for all integer arguments, to compute the sign-aware decomposition stated in C09 of the native timedelta value; the property (sign, canonical ranges, exact sum, rebuild-from-components, total/in consistency) is a lemma proved over those contracts. Float rounding is assumed exact (A-FLOAT) and separately checked, bounded, on the real class.",
    "note": "Trusted: pyvc generator + spec library, z3/cvc5. Assumed: timedelta.__new__/total_seconds contracts (conformance-swept), A-FLOAT. Bounded (not proved): float-exactness lemma on sampled magnitudes up to 1e9 days.",
    "technique": "contract-based deductive verification (own VC generator over the real Python AST, z3/cvc5); harness lemma over contracts; bounded float lemma",
    "design_ref": "DESIGN.md section 8 (C09)",
}
