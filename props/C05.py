"""C05 An interval's length is the exact elapsed time between its endpoints."""
import pendulum
from pendulum.interval import Interval

from contracts.interval import _both_pendulum, _init_base, _new_base, endpoint_kinds, kf_overlap_order, pos, py_gt
from pyvc import spec, stdlib, sym, zones
from pyvc.contract import contract
from pyvc.spec import M
from pyvc.sym import And, If, Implies, Not, Or, absv, eq, ge, gt, le, lt, ne

ID = "C05"


def c05_lengths(a, b):
    return b - a, a.diff(b, False), pendulum.interval(a, b), a - b, a.diff(b), abs(b - a), (b - a).in_seconds(), (b - a).in_minutes(), (b - a).in_hours()


def _lemma_case(mk, kname):
    class case:
        def args(F):
            a, b, cs = mk(F)
            return dict(a=a, b=b), cs

        def requires(a, b):
            shell = __import__("pyvc.engine", fromlist=["Obj"]).Obj(Interval)
            r = _new_base.requires(Interval, a, b, False) + _init_base.requires(shell, a, b, False)
            # known finding C05-overlap-order: the magnitude clauses are stated outside its region
            return r

        def result(F, **k):
            raise NotImplementedError

        def ensures(result, a, b):
            minus, diff, iv, rev, dflt, ab, secs, mins, hrs = result
            d = sym.sub(pos(b), pos(a))
            ordered = Not(kf_overlap_order(a, b, True)) if kname == "same_zone" else True
            return [("b_minus_a_is_elapsed_time", eq(minus.us, d)), ("diff_signed", eq(diff.us, d)), ("interval_fn", eq(iv.us, d)),
                    ("swapping_endpoints_negates", eq(rev.us, sym.neg(d))),
                    ("diff_default_is_magnitude", Implies(ordered, eq(dflt.us, absv(d)))), ("abs_is_magnitude", Implies(ordered, eq(ab.us, absv(d)))),
                    ("in_seconds_truncates", eq(secs, sym.trunc(sym.truediv(d, M)))), ("in_minutes_truncates", eq(mins, sym.trunc(sym.truediv(d, 60 * M)))),
                    ("in_hours_truncates", eq(hrs, sym.trunc(sym.truediv(d, 3600 * M))))]

    return case


@contract("props.C05.c05_lengths", props=["C05"])
class c05_lemma:
    cases = {k: _lemma_case(mk, k) for k, mk in endpoint_kinds().items() if k != "two_zones"}


class _canary_new:
    """falsified: claims the length of an aware interval is the wall-clock difference"""
    from contracts.interval import _new_cases

    _c = _new_cases()["two_zones"]
    args = _c.args
    requires = _new_base.requires

    def result(F, **k):
        raise NotImplementedError

    def ensures(result, cls, start, end, absolute):
        return [("wall_clock_difference", Implies(Not(absolute), eq(result.us, sym.sub(spec.wall_us(end), spec.wall_us(start)))))]


CONTRACTS = [
    "pendulum.interval.Interval.__new__",
    "pendulum.interval.Interval.__init__",
    "pendulum.datetime.DateTime.__sub__",
    "pendulum.date.Date.__sub__",
    "pendulum.duration.Duration.in_seconds",
    "pendulum.duration.Duration.in_minutes",
    "pendulum.duration.Duration.in_hours",
    "props.C05.c05_lengths",
]
CANARIES = [("aware_length_on_the_wall_clock", "pendulum.interval.Interval.__new__", _canary_new)]
ASSUMPTIONS = [
    "A-FLOAT: timedelta.total_seconds() is exact (the 'exact below 2^33 s, within 64 us beyond' clause is the bounded check below)",
    "zone model (k=2 for one zone object, k=1 each for two zones), assumed and swept under C02",
    "A-TYPES: endpoints are pendulum DateTime/Date pairs of one kind; a native operand is converted by instance() (C01) first",
    "Interval.__init__ between different zone objects and the native-operand branches are exercised bounded only",
]
EXPLANATION = "Interval.__new__/__init__ are proved to store the exact signed elapsed time between the endpoints; the operators and diff() are harness lemmas; one genuine defect is recorded as a known finding (C05-overlap-order)."


def bounded(ctx):
    from bounded import c05

    c05.run(ctx)


MANIFEST_ENTRY = {
    "text": "Interval.__new__ and __init__ are proved for naive, date, fixed-offset, same-zone (two symbolic transitions) and two-zone endpoint pairs to carry exactly the elapsed time between the two instants (wall clocks for naive, days for dates), signed; b - a, diff(), interval(), abs(), in_seconds/minutes/hours are lemmas over those contracts. The magnitude clause fails inside repeated hours of one zone object - a genuine defect, proved absent everywhere else and recorded as a known finding.",
    "note": "Trusted: pyvc + spec/zones, z3/cvc5. Assumed: CPython datetime contracts incl. the same-tzinfo comparison rule, A-FLOAT. Bounded: float exactness (< 2^33 s exact, <= 64 us beyond) and real-zone pairs around transitions.",
    "technique": "contract-based deductive verification (own VC generator over the real Python AST, z3/cvc5) over a symbolic zone model; harness lemma; bounded float/real-zone checks; known finding proved outside its region",
    "design_ref": "DESIGN.md section 8 (C05)",
}
