"""C03 Adding fixed-length units moves the instant by exactly that elapsed time."""
import datetime as _dt

import pendulum
from pendulum.datetime import DateTime

from contracts.dt import _add_base, add_spec, fresh_pdt, zone_cases2
from contracts.helpers import delta_us
from pyvc import spec, stdlib, sym, zones
from pyvc.contract import contract
from pyvc.spec import M
from pyvc.sym import And, If, Implies, Not, Or, eq, ge, gt, le, lt, ne

ID = "C03"


def c03_fixed_units(dt, hours, minutes, seconds, microseconds):
    r = dt.add(hours=hours, minutes=minutes, seconds=seconds, microseconds=microseconds)
    back = r.subtract(hours=hours, minutes=minutes, seconds=seconds, microseconds=microseconds)
    return r, back


def c03_timedelta(dt, td):
    return dt + td, td + dt, dt - td


def _u(hours, minutes, seconds, microseconds, sign=1):
    z = dict(years=0, months=0, weeks=0, days=0)
    z.update(hours=sym.mul(hours, sign), minutes=sym.mul(minutes, sign), seconds=sym.mul(seconds, sign), microseconds=sym.mul(microseconds, sign))
    return z


def _representable(dt, d):
    """every intermediate value of the property statement is a representable datetime (years 1..9999)"""
    if dt.tzinfo is None:
        return And(stdlib.td_in_range(d), stdlib.in_dt_range(sym.add(spec.wall_us(dt), d)))
    u0 = zones.instant(dt)
    u1 = sym.add(u0, d)
    return And(stdlib.td_in_range(d), stdlib.in_dt_range(u0), stdlib.in_dt_range(u1), stdlib.in_dt_range(zones.render_wall(dt.tzinfo, u1)))


def _moved_exactly(r, dt, d):
    if dt.tzinfo is None:
        return [("naive_shifted_on_its_own_clock", And(eq(spec.wall_us(r), sym.add(spec.wall_us(dt), d)), r.tzinfo is None))]
    u1 = sym.add(zones.instant(dt), d)
    return [("instant_moved_by_exactly_the_amount", eq(zones.instant(r), u1)),
            ("same_timezone", zones.same_zone(r.tzinfo, dt.tzinfo)),
            ("fields_and_offset_are_the_rendering", And(eq(spec.wall_us(r), zones.render_wall(dt.tzinfo, u1)),
                                                         eq(zones.offset_of(r), zones.off_utc(dt.tzinfo, u1))))]


def _lemma_cases(build):
    cases = {}
    for zname, mk in zone_cases2().items():
        cases[zname] = build(mk)
    return cases


def _fixed_case(mk):
    class case:
        def args(F):
            tz, zc = mk(F)
            o, inv = fresh_pdt(F, tz, "dt")
            return dict(dt=o, hours=F.int("hours"), minutes=F.int("minutes"), seconds=F.int("seconds"), microseconds=F.int("microseconds")), [zc, inv]

        def requires(dt, hours, minutes, seconds, microseconds):
            d = delta_us(0, 0, hours, minutes, seconds, microseconds)
            return [("representable", _representable(dt, d))]

        def result(F, **a):
            raise NotImplementedError

        def ensures(result, dt, hours, minutes, seconds, microseconds):
            r, back = result
            d = delta_us(0, 0, hours, minutes, seconds, microseconds)
            out = _moved_exactly(r, dt, d)
            if dt.tzinfo is None:
                out.append(("subtract_undoes_add", eq(spec.wall_us(back), spec.wall_us(dt))))
            else:
                out.append(("subtract_returns_to_instant_and_offset", And(eq(zones.instant(back), zones.instant(dt)),
                                                                          eq(zones.offset_of(back), zones.offset_of(dt)),
                                                                          eq(spec.wall_us(back), spec.wall_us(dt)))))
            return out

    return case


def _td_case(mk):
    class case:
        def args(F):
            tz, zc = mk(F)
            o, inv = fresh_pdt(F, tz, "dt")
            td, tc = stdlib.fresh_td(F, _dt.timedelta, "td")
            return dict(dt=o, td=td), [zc, inv, tc]

        def requires(dt, td):
            return [("representable", And(_representable(dt, td.us), _representable(dt, sym.neg(td.us))))]

        def result(F, **a):
            raise NotImplementedError

        def ensures(result, dt, td):
            plus, rplus, minus = result
            return [(f"plus.{l}", c) for l, c in _moved_exactly(plus, dt, td.us)] + \
                   [(f"reflected_plus.{l}", c) for l, c in _moved_exactly(rplus, dt, td.us)] + \
                   [(f"minus.{l}", c) for l, c in _moved_exactly(minus, dt, sym.neg(td.us))]

    return case


@contract("props.C03.c03_fixed_units", props=["C03"])
class c03_fixed_lemma:
    cases = _lemma_cases(_fixed_case)


@contract("props.C03.c03_timedelta", props=["C03"])
class c03_td_lemma:
    cases = _lemma_cases(_td_case)


class _canary_add:
    """falsified: claims the fixed-unit result is computed on the wall clock (ignores the offset change)"""

    def args(F):
        tz, zc = stdlib.fresh_zone(F, pendulum.tz.timezone.Timezone, "tz", k=2)
        o, inv = fresh_pdt(F, tz)
        a = dict(self=o, years=0, months=0, weeks=0, days=0, hours=F.int("hours"), minutes=0, seconds=0, microseconds=0)
        return a, [zc, inv]

    requires = _add_base.requires

    def result(F, **a):
        raise NotImplementedError

    def ensures(result, self, **u):
        return [("wall_clock_plus_hours", eq(spec.wall_us(result), sym.add(spec.wall_us(self), sym.mul(u["hours"], 3600 * M))))]


CONTRACTS = [
    "pendulum.helpers.add_duration",
    "pendulum.datetime.DateTime.add",
    "pendulum.datetime.DateTime.subtract",
    "pendulum.datetime.DateTime._add_timedelta_",
    "pendulum.datetime.DateTime._subtract_timedelta",
    "pendulum.datetime.DateTime.__add__",
    "pendulum.datetime.DateTime.__sub__",
    "props.C03.c03_fixed_units",
    "props.C03.c03_timedelta",
]
CANARIES = [("hours_added_on_the_wall_clock", "pendulum.datetime.DateTime.add", _canary_add)]
ASSUMPTIONS = [
    "zoneinfo.ZoneInfo conforms to the piecewise-constant transition model (k=2: one neighbourhood for the operand, one for the result; offsets in between are irrelevant) - assumed, conformance-swept under C02",
    "A-FLOAT: timedelta.total_seconds() and timedelta(seconds=float) are exact (bounded float lemma below for |total| <= 1e9 s)",
    "A-STACK: DateTime.__add__ is not being called from datetime.astimezone",
    "requires: every intermediate value is representable (years 1..9999) - the property's own quantifier",
]
EXPLANATION = "DateTime.add/subtract and the timedelta operators are proved to move the UTC instant by exactly the requested microseconds and to return the zone's rendering of the new instant, across any two transition neighbourhoods."


def bounded(ctx):
    from bounded import c03

    c03.run(ctx)


MANIFEST_ENTRY = {
    "text": "helpers.add_duration (carry normalisation, via a cut point), DateTime.add (fixed and calendar branches), subtract, _add_timedelta_, _subtract_timedelta, __add__/__radd__/__sub__ with timedelta are proved for all DateTimes (naive, fixed offset, and zones with two arbitrary transitions) and all integer amounts: the instant moves by exactly the amount, the zone is kept, the fields are the zone's rendering, and subtract undoes add.",
    "note": "Trusted: pyvc + spec/zones, z3/cvc5. Assumed: CPython datetime/timedelta/zoneinfo contracts (model swept under C02), A-FLOAT, A-STACK. Bounded: float lemma and end-to-end run-time checks around real transitions.",
    "technique": "contract-based deductive verification (own VC generator over the real Python AST, cut points, z3/cvc5) over a symbolic two-transition zone model; harness lemmas; bounded run-time contract checks",
    "design_ref": "DESIGN.md section 8 (C03)",
}
