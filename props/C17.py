"""C17 parse() is total: a supported value or a ValueError/ParserError, nothing else."""
from contracts import parsing as _p

ID = "C17"
CONTRACTS = ["pendulum.parser.parse"]
LEMMAS = []


def _canary_case():
    """falsified: claims parse() never raises at all on a calendar-date shape (month 13 must give a ValueError path)"""
    base = _p._total_case("####-##-##", False)

    class case:
        options = {"may_raise": ()}
        applies = base.applies
        args = base.args
        result = base.result
        ensures = base.ensures

    class ns:
        cases = {"never_raises": case}

    return ns


CANARIES = [("parse_never_raises", "pendulum.parser.parse", _canary_case())]

ASSUMPTIONS = [
    "string shape: totality is proved per shape (literal skeleton fixed, digits symbolic): all seed forms of C07/C13/common formats and their single-character edits over [#:TZW/P+-., YMDHS] "
    "(quick tier: every edit of six short seeds + a seeded sample of 900 edits of the others; thorough tier: every edit); arbitrary strings are covered by the bounded fuzz only",
    "A-RE for the three compiled regexes (ISO8601_DT, ISO8601_DURATION, COMMON): run by CPython's re on two representatives of each shape; digit-invariance of each pattern checked mechanically",
    "options: strict=True (default) with exact in {False, True}; tz/now default. strict=False hands over to dateutil (external, not modelled): bounded fuzz only",
    "outside-domain assumption: DateTime.add/subtract past the ends of the calendar raise ValueError or OverflowError and nothing else (their contracts are proved only inside the representable range); checked natively by the interval fuzz",
    "datetime.now() returns some valid naive datetime; contracts of pendulum.datetime/DateTime.create, Interval.__new__, Duration.__new__, DateTime.add are used as proved under C01/C03/C05/C09",
    "Rust parser: never proved; totality fuzz, wrap-around probes and backend agreement are bounded",
]
EXPLANATION = ("pendulum.parser.parse is executed symbolically from its source (with parsing.parse, _parse, _normalize, parse_iso8601, _parse_iso8601_duration, _parse_iso8601_interval, "
               "_parse_common and the wrapping code inlined) once per string shape with symbolic digits: every path either returns a DateTime/Date/Time/Duration/Interval or raises a ValueError; "
               "a path raising any other exception type is an obligation that must be infeasible.")


def bounded(ctx):
    from bounded import c17

    c17.run(ctx)


MANIFEST_ENTRY = {
    "text": "For every string shape in the family (the valid date/time/date-time/duration/interval/common forms and their single-character insertions, replacements, deletions and truncations over [digit : T Z W / P + - . , space Y M D H S]) and ALL digit values, pendulum.parse (strict, exact or not, pure-Python backend) is proved to return a DateTime, Date, Time, Duration or Interval or to raise a ValueError: every path that would raise another exception type is shown infeasible. Arbitrary strings (double edits, concatenations, random and non-ASCII text), the other options, the compiled backend, the absence of wrapped-around numbers and the agreement of the two backends on strings both accept are checked by bounded fuzzing.",
    "note": "Trusted: pyvc, z3/cvc5, A-RE. Most outcomes are decided by the executor alone because the shape fixes the control flow; value-dependent exceptions (constructors, timedelta overflow, calendar ends) go to the solver. One recorded assumption: DateTime.add/subtract raise only ValueError/OverflowError outside the representable range. Five genuine defects found and fixed (OverflowError from durations and from intervals past year 9999; TypeError/AttributeError from intervals with date/time/duration endpoints; TypeError from '2:'). Rust wrap-around and value differences are bounded known findings.",
    "technique": "contract-based deductive verification per string shape (totality contract: only ValueError may escape; symbolic execution of the real parse() call chain, z3/cvc5); bounded mutation fuzzing of both backends",
    "design_ref": "DESIGN.md section 8 (C17), 12",
}
