"""C16 Weekday navigation lands on the right day inside the right unit."""
import pendulum

from contracts.date import dist_next
from pyvc import spec, stdlib, sym
from pyvc.sym import And, eq


class _canary_next:
    """falsified: claims next(wd) may return the same day (0..6 days away)"""
    from contracts.date import _nav_args
    from pyvc.contract import REGISTRY as _R

    args = _nav_args
    loops = _R["pendulum.date.Date.next"].ns.loops

    def requires(self, day_of_week):
        return [("weekday", sym.between(0, day_of_week, 6)), ("room", sym.le(sym.add(spec.date_ord(self), 7), spec.MAXORD))]

    def result(F, **k):
        raise NotImplementedError

    def ensures(result, self, day_of_week):
        d = sym.fmod(sym.sub(day_of_week, spec.weekday0(self.year, self.month, self.day)), 7)
        return [("zero_to_six_days_away", eq(spec.date_ord(result), sym.add(spec.date_ord(self), d)))]


ID = "C16"
CONTRACTS = ["pendulum.date.Date.next", "pendulum.date.Date.previous", "pendulum.date.Date.first_of", "pendulum.date.Date.last_of",
             "pendulum.date.Date.week_of_month", "pendulum.date.Date._nth_of_month",
             "pendulum.datetime.DateTime.next", "pendulum.datetime.DateTime.previous"]
CANARIES = [("next_may_return_today", "pendulum.date.Date.next", _canary_next)]
ASSUMPTIONS = [
    "calendar.monthcalendar is assumed to be the Monday-first week matrix of the month (assumed contract, swept against the real function)",
    "Date.format('YYYY-MM') is assumed injective in (year, month) inside _nth_of_month (formatter verified under C08)",
    "DateTime.next/previous are proved for naive and fixed-offset values; named zones (incl. skipped midnights) and DateTime.first_of/last_of/nth_of, Date nth_of quarter/year are checked bounded",
]
EXPLANATION = "Date.next/previous (loop invariants + variants), first_of/last_of for month/quarter/year and nth_of month are proved against 'the nearest / first / last / n-th such weekday'; the rest is bounded."


def bounded(ctx):
    from bounded import c16

    c16.run(ctx)


MANIFEST_ENTRY = {
    "text": "Date.next/previous (while loops with invariants and termination variants), Date.first_of/last_of for month, quarter and year with and without a weekday, Date nth_of month (for-loop invariant) and week_of_month, and DateTime.next/previous for naive and fixed-offset values are proved for every date and weekday: the result is the nearest strictly later/earlier, first, last or n-th such weekday inside the unit, or None exactly when the unit has fewer.",
    "note": "Trusted: pyvc + spec, z3/cvc5. Assumed: calendar.monthcalendar and date.weekday contracts (swept). Bounded (not proved): DateTime first_of/last_of/nth_of and zone cases, nth_of quarter/year - exhaustive over month shapes x weekdays x n on Date. Known finding: previous() does not terminate across a skipped calendar day.",
    "technique": "contract-based deductive verification (own VC generator over the real Python AST, loop invariants/variants, z3/cvc5); bounded exhaustive enumeration of month shapes for the rest",
    "design_ref": "DESIGN.md section 8 (C16)",
}
